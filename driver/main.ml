(* Hand-written glue: read one request per line, hand it to the extracted
   [Model.handle_line] as a Coq string (inductive ascii/string), print the answer. *)
let bit c i = (Char.code c lsr i) land 1 = 1

let ascii_of_char (c : char) : Model.ascii =
  Model.Ascii (bit c 0, bit c 1, bit c 2, bit c 3, bit c 4, bit c 5, bit c 6, bit c 7)

let char_of_ascii (a : Model.ascii) : char =
  match a with
  | Model.Ascii (b0, b1, b2, b3, b4, b5, b6, b7) ->
    let v b i = if b then 1 lsl i else 0 in
    Char.chr (v b0 0 + v b1 1 + v b2 2 + v b3 3 + v b4 4 + v b5 5 + v b6 6 + v b7 7)

let coq_of_string (s : string) : Model.string =
  let r = ref Model.EmptyString in
  for i = String.length s - 1 downto 0 do
    r := Model.String (ascii_of_char s.[i], !r)
  done;
  !r

let string_of_coq (s : Model.string) : string =
  let b = Buffer.create 256 in
  let rec go = function
    | Model.EmptyString -> ()
    | Model.String (a, r) -> Buffer.add_char b (char_of_ascii a); go r
  in
  go s; Buffer.contents b

let () =
  try
    while true do
      let line = input_line stdin in
      (try print_string (string_of_coq (Model.handle_line (coq_of_string line)))
       with Stack_overflow -> print_string "(driver-stack-overflow)");
      print_char '\n'
    done
  with End_of_file -> ()
