#!/bin/sh
# Build the whole framework offline from files on disk: full .vo build of the Coq development,
# extraction, OCaml driver, Rust harness (against /repo's working tree).
set -e
cd "$(dirname "$0")"
export CARGO_NET_OFFLINE=true
mkdir -p .cache evidence replay
(cd coq && coq_makefile -f _CoqProject -o Makefile >/dev/null && timeout 3000 make -j16)
cp coq/model.ml coq/model.mli driver/
(cd driver && ocamlfind ocamlopt -O3 -w -a model.mli model.ml main.ml -o modeldriver 2>&1)
cp /repo/Cargo.lock harness/Cargo.lock
(cd harness && CARGO_TARGET_DIR=../.cache/target RUSTFLAGS="--cfg cel_rust_verif -Awarnings" cargo build --offline -q)
(cd harness && CARGO_TARGET_DIR=../.cache/target RUSTFLAGS="--cfg cel_rust_verif -Awarnings" cargo build --offline -q --release)
echo setup done
