#!/usr/bin/env python3
"""Model branch coverage of the correspondence streams (an audit tool, not a registered check).

The extracted model (driver/model.ml) is compiled to bytecode with `ocamlcp -P a`, which counts
every function entry, match arm, if branch and loop; the request lines of every stream (quick
tier, the seed given) are fed to that instrumented driver, the counter dumps of the shards are
summed, and `ocamlprof` annotates model.ml with the counts.  The report lists, per top-level
definition of the model, the points no request reached: regions of the model's behaviour that no
generator enters, i.e. where a change of the code could not be seen by the correspondence run.

usage: modelcov.py [--seed N] [--max-per-stream N] [--only C03,C12] [--keep]   (--keep: add to the dumps of earlier runs)
writes .cache/cov/model.prof.ml (annotated source) and .cache/cov/report.txt
"""
import os, re, subprocess, sys, threading, json

ROOT = os.path.dirname(os.path.dirname(os.path.abspath(__file__)))
sys.path.insert(0, os.path.join(ROOT, "tools"))
import props  # noqa: E402

COV = os.path.join(ROOT, ".cache", "cov")
HARNESS = os.path.join(ROOT, ".cache", "target", "debug", "harness")

SUM_ML = r'''
(* sum ocamlprof dumps: sumdump out in1 in2 ... *)
type counters = (string * (string * int array)) list
let () =
  let n = Array.length Sys.argv in
  let read f = let ic = open_in_bin f in let (v : counters) = input_value ic in close_in ic; v in
  let acc = read Sys.argv.(2) in
  for i = 3 to n - 1 do
    let c = read Sys.argv.(i) in
    List.iter2 (fun (_, (_, a)) (_, (_, b)) -> Array.iteri (fun j x -> a.(j) <- a.(j) + x) b) acc c
  done;
  let oc = open_out_bin Sys.argv.(1) in output_value oc acc; close_out oc
'''


def sh(cmd, cwd=None):
    p = subprocess.run(cmd, shell=True, cwd=cwd, stdout=subprocess.PIPE, stderr=subprocess.STDOUT, text=True)
    if p.returncode != 0:
        print(p.stdout[-3000:])
        sys.exit(2)
    return p.stdout


def main():
    args = sys.argv[1:]
    seed, cap, only, keep = 1, 24000, None, False
    i = 0
    while i < len(args):
        if args[i] == "--seed":
            seed = int(args[i + 1]); i += 2
        elif args[i] == "--max-per-stream":
            cap = int(args[i + 1]); i += 2
        elif args[i] == "--only":
            only = args[i + 1].split(","); i += 2
        elif args[i] == "--keep":
            keep = True; i += 1
        else:
            i += 1
    os.makedirs(COV, exist_ok=True)
    for f in ("model.ml", "model.mli", "main.ml"):
        sh(f"cp {ROOT}/driver/{f} {COV}/{f}")
    open(os.path.join(COV, "sumdump.ml"), "w").write(SUM_ML)
    sh("ocamlcp -P a -w -a model.mli model.ml main.ml -o drvcov && ocamlfind ocamlopt -w -a sumdump.ml -o sumdump", COV)
    for f in os.listdir(COV):
        if f.endswith(".dump") and not (keep and f != "all.dump"):
            os.remove(os.path.join(COV, f))
    dist = {}
    dumps = []
    pids = sorted(props.PROPS)
    if only:
        pids = [p for p in pids if p in only]
    for pid in pids:
        reqs = []
        for stream in props.PROPS[pid]["streams"]:
            p = subprocess.run([HARNESS, stream, "quick", str(seed)], stdout=subprocess.PIPE, stderr=subprocess.DEVNULL,
                               text=True, errors="replace")
            for ln in p.stdout.split("\n"):
                parts = ln.split("\t")
                if len(parts) >= 4 and not parts[0].startswith("(harness-died"):
                    reqs.append(parts[0])
        total = len(reqs)
        if total > cap:
            head = reqs[:cap // 4]
            rest = reqs[cap // 4:]
            step = len(rest) / (cap - len(head))
            reqs = head + [rest[int(j * step)] for j in range(cap - len(head))]
        dist[pid] = dict(requests=total, replayed=len(reqs))
        print(f"{pid}: {total} requests, {len(reqs)} replayed through the instrumented model", flush=True)
        shards = 16
        chunk = (len(reqs) + shards - 1) // shards
        ths = []
        for s in range(shards):
            part = reqs[s * chunk:(s + 1) * chunk]
            if not part:
                continue
            d = os.path.join(COV, f"{pid}_{s}.dump")
            dumps.append(d)

            def work(part=part, d=d):
                subprocess.run(["bash", "-c", "ulimit -s unlimited 2>/dev/null || ulimit -s 1000000; exec ./drvcov"],
                               cwd=COV, env=dict(os.environ, OCAMLPROF_DUMP=d), input="\n".join(part) + "\n",
                               stdout=subprocess.DEVNULL, stderr=subprocess.DEVNULL, text=True)
            t = threading.Thread(target=work)
            t.start()
            ths.append(t)
        for t in ths:
            t.join()
    if keep:
        dumps = [os.path.join(COV, f) for f in os.listdir(COV) if f.endswith(".dump") and f != "all.dump"]
    dumps = sorted(set(d for d in dumps if os.path.exists(d)))
    sh("./sumdump all.dump " + " ".join(dumps), COV)
    sh("ocamlprof -f all.dump model.ml > model.prof.ml", COV)
    report(dist)


MARK = re.compile(r"\(\* (\d+) \*\)")
TOP = re.compile(r"^(?:let rec|let|and) ([a-z_][A-Za-z0-9_']*)")


def report(dist):
    src = open(os.path.join(COV, "model.prof.ml")).read().split("\n")
    # the model's own definitions start after the extracted standard library modules; a definition
    # belongs to the model when it is at top level (column 0)
    cur, depth = None, 0
    defs = {}
    order = []
    for n, ln in enumerate(src, 1):
        m = TOP.match(ln)
        if m:
            cur = m.group(1)
            if cur not in defs:
                defs[cur] = dict(points=0, zero=[], first=n)
                order.append(cur)
        if cur is None:
            continue
        for mm in MARK.finditer(ln):
            defs[cur]["points"] += 1
            if mm.group(1) == "0":
                defs[cur]["zero"].append(n)
    tot = sum(d["points"] for d in defs.values())
    zero = sum(len(d["zero"]) for d in defs.values())
    out = [f"model points: {tot}, never reached: {zero} ({100.0 * zero / max(tot, 1):.1f}%)", json.dumps(dist), ""]
    for name in order:
        d = defs[name]
        if d["zero"]:
            out.append(f"{name} (line {d['first']}): {len(d['zero'])}/{d['points']} points never reached, lines {d['zero'][:40]}")
    open(os.path.join(COV, "report.txt"), "w").write("\n".join(out) + "\n")
    print(out[0])
    print(f"report: {COV}/report.txt; annotated source: {COV}/model.prof.ml")


if __name__ == "__main__":
    if len(sys.argv) > 1 and sys.argv[1] == "--report-only":
        report({})
    else:
        main()
