#!/usr/bin/env python3
"""Writes tools/pinned/<pid>.pin from the Theorem statements of coq/Properties/<pid>.v.
Run by hand when a property theorem is first proved (or deliberately changed); the pin files
are committed and reviewed - the checks only read them."""
import re, sys, os
ROOT = os.path.dirname(os.path.dirname(os.path.abspath(__file__)))
for pid in sys.argv[1:]:
    src = open(os.path.join(ROOT, "coq", "Properties", f"{pid}.v")).read()
    out = []
    for m in re.finditer(r"Theorem (%s_\w+) :\s*(.*?)\nProof\." % pid, src, re.S):
        out.append("== " + m.group(1) + "\n" + m.group(2).rstrip().rstrip("."))
    open(os.path.join(ROOT, "tools", "pinned", f"{pid}.pin"), "w").write("\n".join(out) + "\n")
    print(pid, len(out), "theorems pinned")
