#!/usr/bin/env python3
"""Coverage of /repo's source by the correspondence streams (an audit tool, not a registered check).

Builds the harness with `-C instrument-coverage` (nightly toolchain, which ships llvm-profdata /
llvm-cov), runs every stream of the quick tier, merges the profiles and lists the lines of
/repo/interpreter/src and /repo/antlr/src (generated parser excluded) that no stream executed:
code whose change the correspondence run could not see.  Lines inside `#[cfg(test)]` modules are
dropped from the list.

usage: implcov.py [--seed N] [--only C03,C12] [--no-build]
writes .cache/icov/uncovered.txt and .cache/icov/summary.txt
"""
import glob, os, re, subprocess, sys

ROOT = os.path.dirname(os.path.dirname(os.path.abspath(__file__)))
sys.path.insert(0, os.path.join(ROOT, "tools"))
import props  # noqa: E402

OUT = os.path.join(ROOT, ".cache", "icov")
TARGET = os.path.join(ROOT, ".cache", "target_cov")
BIN = os.path.join(TARGET, "debug", "harness")


def sh(cmd, cwd=None, env=None, ok=True):
    p = subprocess.run(cmd, shell=True, cwd=cwd, env=env, stdout=subprocess.PIPE, stderr=subprocess.STDOUT, text=True)
    if ok and p.returncode != 0:
        print(p.stdout[-3000:])
        sys.exit(2)
    return p.stdout


def main():
    args = sys.argv[1:]
    seed, only, build = 1, None, True
    i = 0
    while i < len(args):
        if args[i] == "--seed":
            seed = int(args[i + 1]); i += 2
        elif args[i] == "--only":
            only = args[i + 1].split(","); i += 2
        elif args[i] == "--no-build":
            build = False; i += 1
        else:
            i += 1
    os.makedirs(OUT, exist_ok=True)
    tools = glob.glob(os.path.expanduser("~/.rustup/toolchains/nightly-x86_64-*/lib/rustlib/*/bin"))[0]
    if build:
        sh(f"cp /repo/Cargo.lock {ROOT}/harness/Cargo.lock")
        sh("cargo +nightly build --offline -q", cwd=os.path.join(ROOT, "harness"),
           env=dict(os.environ, CARGO_NET_OFFLINE="true", CARGO_TARGET_DIR=TARGET,
                    # build scripts and proc macros are instrumented too: keep their profiles out of the source trees
                    LLVM_PROFILE_FILE=os.path.join(OUT, "build-%p-%m.profraw"),
                    RUSTFLAGS="--cfg cel_rust_verif -Awarnings -C instrument-coverage"))
        for f in glob.glob(os.path.join(OUT, "build-*.profraw")):
            os.remove(f)
    for f in glob.glob(os.path.join(OUT, "*.profraw")):
        os.remove(f)
    pids = sorted(props.PROPS)
    if only:
        pids = [p for p in pids if p in only]
    procs = []
    for pid in pids:
        for stream in props.PROPS[pid]["streams"]:
            procs.append(subprocess.Popen([BIN, stream, "quick", str(seed)], stdout=subprocess.DEVNULL, stderr=subprocess.DEVNULL,
                                          env=dict(os.environ, LLVM_PROFILE_FILE=os.path.join(OUT, f"{stream}-%p.profraw"))))
    for p in procs:
        p.wait()
    sh(f"{tools}/llvm-profdata merge -sparse {OUT}/*.profraw -o {OUT}/all.profdata")
    summary = sh(f"{tools}/llvm-cov report {BIN} -instr-profile={OUT}/all.profdata "
                 f"--ignore-filename-regex='(\\.cargo|rustc|/gen/|/verif/)' 2>/dev/null")
    open(os.path.join(OUT, "summary.txt"), "w").write(summary)
    show = sh(f"{tools}/llvm-cov show {BIN} -instr-profile={OUT}/all.profdata --show-line-counts "
              f"--ignore-filename-regex='(\\.cargo|rustc|/gen/|/verif/)' 2>/dev/null")
    unc = []
    cur = None
    intest = False
    run = []

    def flush():
        if run:
            unc.append(f"{cur}:{run[0][0]}-{run[-1][0]}\n" + "\n".join(f"    {n:5d}| {t}" for n, t in run))
            run.clear()
    for ln in show.split("\n"):
        if ln.startswith("/repo/") and ln.rstrip().endswith(":"):
            flush()
            cur = ln.rstrip()[:-1]
            intest = False
            continue
        m = re.match(r"\s*(\d+)\|\s*([0-9.kMG]*)\|(.*)$", ln)
        if not m or cur is None:
            continue
        n, cnt, text = int(m.group(1)), m.group(2), m.group(3)
        if "#[cfg(test)]" in text:
            intest = True
        if intest:
            continue
        if cnt == "0":
            run.append((n, text))
        elif cnt != "" or text.strip() == "":
            flush()
    flush()
    open(os.path.join(OUT, "uncovered.txt"), "w").write("\n".join(unc) + "\n")
    print(summary[-1500:])
    print(f"{len(unc)} uncovered runs of lines: {OUT}/uncovered.txt")


if __name__ == "__main__":
    main()
