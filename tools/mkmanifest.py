#!/usr/bin/env python3
"""Regenerates MANIFEST.json from the table below (claimed properties) and properties.jsonl."""
import json, os
ROOT = os.path.dirname(os.path.dirname(os.path.abspath(__file__)))
TECH = "Rocq proof over a Gallina model + differential correspondence (extracted model vs real code)"
NOTE = ("Trusted: Coq 8.16.1 kernel, vm_compute, extraction (ExtrOcamlBasic only) cross-checked in Coq on a "
        "sample of every run, the Rust harness's structural printers and generators. The model is "
        "hand-written; its tie to /repo is this check's differential run, not a proof.")
CLAIMS = {
 "C08": ("Theorems (Coq kernel, no axioms) that the model's int/uint arithmetic returns the exact Z result when "
         "representable and overflow/divzero otherwise, never a crash, that (a/b)*b+a%b=a, that division truncates "
         "toward zero, and that mixed kinds are errors - for all 64-bit operands. Tied to objects.rs by running the real "
         "parser+interpreter and the extracted model on all ordered pairs of a boundary set (i64 and u64) under every "
         "operator, as literals and as variables, plus random pairs; debug and release profiles in the thorough tier."),
 "C09": ("Theorems: != is the negation of ==; comparison and equality among int, uint and double are those of the exact numbers denoted (NaN unordered) - for EVERY pair, two doubles "
         "included: SpecFloat's IEEE comparison of valid doubles is proved to be the comparison of the rationals m*2^e (a valid mantissa has 53 bits unless the exponent is minimal), and "
         "every 64-bit pattern is proved to decode to a valid double; trichotomy, <= iff < or ==, antisymmetry for all values; == is an EQUIVALENCE RELATION on NaN-free values: symmetric on all values - numbers of different kinds, lists, function values and maps (each key held once; the counting argument) -, transitive on all values with valid doubles (numbers of the three kinds through the exact numbers they denote, containers by induction; so 0u == 0 == -0.0 forces 0u == -0.0), reflexive where no NaN occurs; TRANSITIVITY of < wherever it is defined (numbers of the three "
         "kinds mixed freely, strings, bools, durations, timestamps); code-point order of strings; list and map equality characterised element-wise; unrelated kinds unequal and unordered; "
         "max returns an element bounding all others for every non-empty list of numbers without NaN (and in general for any list on which the order is reflexive and transitive). Validity "
         "of doubles produced by arithmetic is SpecFloat's (not proved here). Tied to objects.rs/functions.rs by all pairs of a ~100-value boundary set through Value::eq/partial_cmp "
         "and 12 program forms, with the laws also evaluated on the implementation's own answers (pairs and triples)."),
 "C10": ("Theorems that evaluating the parser's expansion of all / exists / exists_one / map (2 and 3 arguments) / filter equals "
         "evaluating the range once and then a readable left-to-right fold over its elements (map: its keys) that stops at the "
         "deciding element, aborts at the first error reached and logs exactly the visited elements' host calls - for every "
         "context, range, variable and body, by induction on the element list with a proved context-weakening lemma; plus the "
         "forallb/existsb/filter/map corollaries for pure bodies. The expansions are tied to antlr/src/macros.rs and the evaluator "
         "to objects.rs by running every macro form over all lists of length 0-4 from a 4-value alphabet with raising and logging "
         "bodies, maps (keys of all four kinds, uints beyond the int range included) and nested macros, and by comparing the expansion itself with the real parser."),
 "C11": ("Theorems on the scope-chain model of Context: a lookup returns the binding of the innermost scope that defines the "
         "name (latest definition within a scope), fails iff no scope defines it; for every sequence of define/open/drop/lookup "
         "operations the parent scopes below the open inner levels are unchanged; variables and functions are separate name spaces; "
         "inside a macro body the iteration variable is the current element and every other name resolves as outside; a lookup after "
         "a macro is the lookup in the original context. Tied to context.rs/objects.rs by exhaustive operation sequences (length <= 5 "
         "quick, <= 7 thorough; every third binding is null) against the real Context API and by nested-macro programs reusing variable and function names."),
 "C14": ("Theorems: list indexing returns the element in range and null otherwise (negative, past the end, i64 extremes), never an "
         "error; a map literal with pairwise distinct keys denotes exactly its entries; k in m, m.contains(k), m[k] all answer the one "
         "predicate present(k, m) that identifies numerically equal int/uint keys, and for identifier-like string keys so do has(m.k) "
         "and m.k (key texts of non-string keys can never equal an identifier - proved from the decimal printer); size is additive over "
         "+, concatenation preserves order, x in l iff some element equals x. Tied to objects.rs/functions.rs by all maps with <= 3 keys "
         "over a mixed 8-key alphabet x 18 query keys x 5 forms, then over keys at both ends of the two integer ranges and keys spelled like built-in functions with stored values 0 / false / '' / [] / 0u (also evaluated as an agreement law on the implementation's own answers), "
         "all short lists x all indices, byte-offset string indexing and random additive-law cases."),
 "C01": ("PARTIAL. A Gallina lexer (maximal munch over the token rules of CEL.g4), literal decoders and a fuelled recursive-descent parser "
         "with the visitor's checks and macro expansion form compile : source -> program | reject | out-of-fuel. Proved: the parser's fuel 16*(tokens+2) suffices on EVERY token list "
         "(C01_fuel_sufficient: one induction on the fuel over all 20 parser functions with a rank per function, giving also that every successful "
         "sub-parse strictly consumes input), the lexer's fuel likewise (every token or skipped blank consumes a character), hence compile is total with exactly two outcomes, program or rejection (C01_total), and a rejection is never an artefact of fuel (C01_reject_genuine: the lexer's own steps lead to a non-empty remainder where no token starts, or the token list is not one expression); pos_for (positions of macro errors) exists for every offset in the source and never points beyond it; characters no "
         "token rule starts with, and unterminated one-quote literals, do not lex. CEL.g4's parser rules are stated as a derivation relation over tokens (Model/Grammar.v) and the parser is proved SOUND against it "
         "(C01_accept_sound: whatever compile accepts is derivable from start : expr EOF, all tokens consumed); every derivable token list has each kind "
         "of bracket balanced, the brackets properly nested (a well-nested word over the three bracket kinds) and ends in a closing token (C01_accepted_shape, mutual induction over the derivation), so unbalanced, dangling or empty texts are "
         "never accepted. The relation is inhabited by everything C04's round trip covers (C01_trees_derivable). PARTIAL because completeness against the whole grammar "
         "is not proved (C04 proves that the rendering of every surface tree - operators, postfix forms, calls, collection, message and scalar literals - is accepted with the right tree; macro calls, trailing commas and leading dots "
         "included) and the positions of syntax errors are ANTLR's own (macro-error positions are the model's pos_for, in character columns, compared per case). "
         "The tie to the real ANTLR parser is the correspondence run: accept/reject AND the resulting tree are compared on all "
         "token strings up to length 4 over a 16-token alphabet (and 5 more alphabets up to length 3), random characters/tokens, generated "
         "valid programs and their mutations; panics, empty error lists, empty error texts and out-of-source positions (0:0 included) are failing inputs; "
         "escape literals of every kind, macro names at every arity, bracket nesting to depth 32 and sources to 4 KiB are part of the run."),
 "C04": ("Theorem C04_roundtrip (induction on the tree with continuation lemmas for the left-associative loops and the postfix loop, and an 'eventually, for all sufficient fuel' "
         "composition): for EVERY surface tree - identifiers, integer literals of either sign (a negative literal is the token pair '-' DIGITS and sits at prefix level), uint literals, double literal tokens of either sign, true/false/null, string/bytes literal tokens, prefix runs of any length, * / %, + -, the seven relations, "
         "&& / || chains of any length, ?:, explicit parentheses, field selection, indexing, member and global calls (macro calls included), list, map and message literals - the token "
         "rendering with minimal parentheses under CEL's precedence table parses - parse_tokens, i.e. with the fuel compile itself uses: the parse holds for all sufficient fuel, "
         "more fuel never changes an answer (ParserMono) and compile's fuel is never exhausted (ParserTotal) - to exactly the tree's AST: postfix forms bind tightest, then prefix runs, "
         "then each operator level; equal levels associate to the left, logical chains build the balanced tree with the operands in source order, parentheses group, arguments, "
         "elements and entries keep their order; and from SOURCE TEXT: compile(text(render t)) = tree, where text writes each token followed by a space (the lexer model is proved to "
         "read such text back token for token, numbers included). Also proved: the balanced-tree leaf order for every chain length, prefix-run parity, macros expand around receiver "
         "and arguments. String and bytes literal tokens are leaves of the trees too (any token whose decoding is known), and one-quote literals also in the source-text theorem. Message literals (dotted names, optional leading dot, fields in order) are trees of the theorem as well. Macro calls are trees of the theorem too: the tree of a call node is the macro expander applied to the receiver's and arguments' trees (C04_macro_trees gives the comprehension for each of all / exists / exists_one / map / filter / has; only a plain name is accepted as the iteration variable), so macros nest freely through receivers, bodies and operators. The optional trailing comma of list, map and message literals ([,] and {,} included), identifiers and global calls with a leading dot, and selection of back-quoted fields are trees of the theorem as well (a back-quoted identifier is proved to lex as one token). Outside the theorem: back-quoted field names inside message literals, which the run compares per case (and what a double token denotes is C13's). Tied to the code per case: the run checks on "
         "every tree of the theorem's domain (all trees with <= 2 operators in both renderings, random deeper ones, chains to 24, prefix runs to 7, mixed left-associative chains) that "
         "the real parser's AST is the tree's AST and that the model's lexer turns the source text into exactly the rendering the theorem is about; all other trees ("
         "nested macros, chains 2-64) are compared between the real parser, the model's parser and the expected tree."),
 "C12": ("Theorems about the literal decoders (unquote_string / unquote_bytes transcribed): for every string of scalar values, both "
         "one-quote styles and every per-character choice among verbatim, simple escape, \\x, \\X, octal, \\u and \\U spellings the literal decodes to "
         "exactly that string (bytes: \\x/\\X/octal are single bytes, everything else its UTF-8); raw one-quote literals are verbatim; the escape "
         "table; general lemmas for the numeric escapes; invalid escapes reject; the same for the triple-quoted forms (the same bodies between three-quote "
         "delimiters; raw triple-quoted literals verbatim for every body). The whole path from source text is proved for every style - one-quote and "
         "triple-quoted strings and bytes, raw one-quote and raw triple-quoted strings (C12_string_compiles / C12_bytes_compiles / C12_raw_compiles): the lexer "
         "model takes the spelling as ONE STRING / BYTES token (scanner lemmas over escape sequences, for the short and the long scanner, raw and not), the "
         "parser makes a literal of it, and compile returns the literal expression holding exactly the string / the bytes. Raw bytes literals compile to the UTF-8 of their body "
         "(C12_raw_bytes_compile), and raw triple-quoted bodies may contain the quote character wherever three consecutive quotes do not end the literal early (C12_raw_quotes_compile). "
         "The run checks, on the implementation, that each literal denotes the intended characters for every escape in every style and for random "
         "strings in all 16 styles, and compares with the model. Known finding K01: raw triple-quoted literals containing U+0000/U+10FFFF are "
         "rejected (ANTLR runtime wildcard)."),
 "C13": ("Theorems: every in-range int written in decimal (sign included, so the most negative int too) and every hex spelling denotes exactly "
         "its number and a literal yields a value only in range; likewise uint; int()/uint() of a double is truncation toward zero (proved against the "
         "exact value m*2^e) or an error for NaN, infinities and out-of-range values; int<->uint exact or error; double(int) is SpecFloat's nearest-even "
         "rounding; string() then int()/uint() returns the original (decimal printer/parser inverse, proved for all 64-bit values); bytes(s) then string() "
         "returns s (UTF-8 encode/decode inverse for all scalar values). Double literals, double->text (shortest digits) and text->double are modelled "
         "exactly but their round trip is only tested (partial lemma). Tied to the code by boundary sets and random 64-bit patterns in every literal form "
         "and through every conversion, with the laws evaluated on the implementation's answers; debug and release in the thorough tier."),
 "C02": ("Theorem (structural induction over expressions with a nested induction principle, no axioms): for every well-formed context (any "
         "variables, built-ins with their default signatures, host functions of any arity/extractors) and every expression without the parser's error "
         "placeholder, Eval.eval never reaches the Crash outcome - the model's transcription of every panic site of Value::resolve, the extractors and "
         "the built-ins; a function body is only called with values of the shapes its extractors produce; all value operators are total on all value "
         "pairs. Termination is the structural Fixpoint. Tied to the code by all pairs of a ~110-value boundary set under the five operators on Value "
         "directly, and by generated programs of depth <= 8 against contexts with extreme values (debug and release in the thorough tier); any "
         "implementation panic is reported as a failing input. Panics inside untranscribed library code are reachable only by that run, which therefore also drives every time built-in over chrono's limit "
         "instants seen from every kind of UTC offset (finding F27, repaired), many distinct regular expressions on one thread, and host functions of every extractor kind with too few / enough / too many arguments."),
 "C20": ("Theorems: for every function whose first parameter is This<T> and whose other parameters are positional - which includes every "
         "receiver-style built-in of the default context (checked) - and every value-denoting receiver, x.f(args) and f(x, args) evaluate to the same "
         "outcome and log, for all argument expressions; a host function with positional parameters is invoked iff enough arguments are present and "
         "each has its parameter's type, then with exactly the first |params| argument values in order, otherwise the result is an argument-count or "
         "type error, never a crash, and no invocation is logged; a host function registered under a built-in's name replaces it. Tied to magic.rs / "
         "resolvers.rs / functions.rs by all built-ins x all boundary values in both styles (equivalence also evaluated on the implementation) and by "
         "45 pre-written host closures covering every extractor kind (the all-arguments extractor in every position), called with 0..arity+2 arguments of matching and mismatching kinds."),
 "C07": ("Theorems on the ordered host-call log of Eval.eval: for programs without macros the number of invocations is at most the number of "
         "call nodes (linear bound, by induction over expressions; every extractor list that touches each argument once - all built-ins - is covered); "
         "a call's log is the receiver's log, then logs of argument results in argument order (at most their total), then at most one invocation; "
         "strict binary operators evaluate left then right and stop at a left error; list elements in source order, each once. WITH macros (C07_cost_bound, by "
         "induction over expressions with a lemma for the comprehension loop): for every invariant of the contexts the program runs in that survives opening a scope and binding the "
         "program's own iteration/accumulator variables, if every comprehension ranges over at most B items in such contexts then the invocations are at most cost B e, where a "
         "comprehension costs range + initial value + B*(condition + step) + result - the size of the program times the product of the nested ranges, never exponential in nesting "
         "depth; unconditional when the ranges are list literals (C07_cost_bound_literal). Tied to objects.rs/magic.rs by programs whose leaves and calls are wrapped "
         "by id-carrying logging host functions (order and multiplicity visible), every call shape (0-4 arguments, global/receiver, built-in/host, "
         "Arguments), and nested chains to depth 14/22 whose log length was 2^depth before the fix; the at-most-once law is also evaluated on the implementation's own log for every macro-free program. Known finding K02: a host function combining Arguments with another extractor evaluates the argument that extractor resolved a second time (C07_once_refuted_for_mixed_arguments; the theorems assume once_ctx, which holds of the default context)."),
 "C19": ("Theorem (induction over expressions, for every context): if evaluation fails with 'undeclared reference n' then n is among the "
         "variables or functions reported by the transcription of Program::references, unless n is a macro-internal '@' name; built-ins and host "
         "functions never fabricate that error; '@' names are never reported; the report has no context argument. Conversely (C19_complete, by an "
         "invariant over comprehension scopes): when the context defines every reported variable and function, no evaluation fails with an undeclared "
         "reference, for every expression without free '@' identifiers - the six macro expansions are proved to bind the accumulator they introduce and "
         "the stream checks closedness on every compiled program. Tied to references.rs and "
         "objects.rs by generated programs with random names in every syntactic position: reference sets and execution outcomes against random "
         "contexts are compared with the model, and all clauses of the property are evaluated on the implementation's own answers."),
 "C15": ("Theorems: + - == < on durations act on the exact nanosecond counts with an overflow error outside signed 64 bits; "
         "parse_duration accepts a string only if the whole of it is an optionally signed '0' or a non-empty sequence of terms, each a decimal number "
         "(no exponent, inf, nan, inner sign or space) immediately followed by one of h m s ms us (or micro sign) ns - proved from the structure of the "
         "scanner; the listed malformed spellings are rejected; the rendering of -d is '-' followed by that of d; and duration(string(d)) == d for EVERY "
         "duration in signed 64-bit nanoseconds (C15_roundtrip: digit strings, stripped fractions, the UTF-8 step of the micro sign and the h/m/s split are "
         "all inverted by the parser; i64::MIN included). PARTIAL in one clause: that the rendering is Go's canonical one is not a theorem - it is evaluated "
         "on the implementation against an independent implementation of Go's algorithm for a boundary set and random log-uniform durations of both signs. "
         "The model transcribes duration.rs after its repair (exact integer parser)."),
 "C16": ("Theorems: the day-number <-> civil-date conversions invert each other for EVERY integer day and EVERY valid proleptic-Gregorian "
         "date (one 400-year cycle by kernel computation, lifted to all integers through proved 146097-day / 400-year periodicity of both functions); the "
         "fields behind every accessor are those of the local time at the timestamp's own offset (valid date whose day number is the local day, fields "
         "reassemble the local instant) with the documented origins; getDayOfYear is the calendar's ordinal of the local date - the days of the earlier months of the local year plus the day of the month, from 0 - and lies in 0..364 (365 in leap years) for every instant and offset, chrono's limit instants seen from any offset included (finding F27, repaired); == and < compare instants regardless of offset; t + d - d = t and (t + d) - t = d "
         "whenever t + d is within chrono's range, an overflow error otherwise; and timestamp(string(t)) == t, offset included, for every instant whose local "
         "year is 0000-9999 and every whole-minute offset (C16_text_roundtrip: the model's to_rfc3339 text is read back field by field - padded digits, "
         "the 0/3/6/9-digit fraction, the signed hh:mm offset - and reassembles to the same instant). The text functions model chrono's (validated by the stream). Tied to functions.rs/objects.rs/"
         "chrono by boundary and random timestamps through every accessor, string(), timestamp(), arithmetic and comparison, with all laws evaluated on the "
         "implementation against an independent calendar computation."),
 "C17": ("Theorems over the whole serde data model (an inductive type with one constructor per Serializer entry point), by induction on the data: "
         "to_value never panics; when it succeeds the result is related to the input by Conv (signed -> int, unsigned -> uint, seq/tuple/tuple struct -> "
         "list, struct/map -> map built by insert-in-order whose keys are distinct, exactly the converted keys, last binding wins; the four variant kinds -> "
         "string or single-entry map; wrappers -> duration/timestamp); key kinds accepted/refused; every supported datum converts; and for JSON-representable "
         "data (no bytes / 128-bit / wrappers, keys serde_json accepts, text-distinct keys) converting then exporting equals a model of serde_json's own "
         "serializer. Tied to ser.rs / json.rs / serde_json by a generator with a hand-written Serialize impl that drives every Serializer method, "
         "unsupported keys of every kind included (all the compound kinds the key serializer refuses), plus every document of a JSON generator; the commutation law is also evaluated on the implementation with the real serde_json. "
         "The other ways a host hands data over are held by laws on the implementation: Context::add_variable (root and inner scope) converts exactly like to_value, the From conversions into Value / Key give the value of the same shape, and the length a Serialize implementation announces never matters (finding F29, repaired). Data that reuses the private marker names of the Duration / Timestamp wrappers is outside the Coq data model (it carries no newtype names) and is held by a law on the implementation only: 55 kinds of "
         "data under either marker at three nesting positions give an error or exactly the wrapper's value, never a panic (finding F28, repaired)."),
 "C18": ("Theorems by induction on values: Value::json never panics, succeeds exactly on values without a function value or a duration beyond i64 nanoseconds "
         "and returns an error otherwise; the document is structurally the value (JExp: arrays, objects keyed by key text with insert-in-iteration-order, "
         "base64, RFC 3339, nanosecond count, non-finite -> null); base64 is inverted by a decoder for every byte string; and importing the exported document "
         "of a JSON-native value with text-distinct keys yields a value equal to the original. Tied to json.rs by the C02/C09 boundary value set (alone and "
         "nested), colliding-key maps and a recursive value generator, the model being told the hash maps' iteration order; totality and import/export laws "
         "are also evaluated on the implementation."),
 "C03": ("Theorem C03_refines (induction on the surface term, using the macro-expansion theorems of C10, the operator dispatch lemmas of C06 and the call "
         "machinery lemmas of C20): for every term well typed under Spec.type_of, every environment of that typing and every context holding the standard "
         "functions, executing the AST the parser produces for the term yields exactly the outcome - value or error class - of the reference semantics Spec.sem "
         "(a direct structural evaluator: left-to-right operands, first error aborts, short-circuit on booleans, macros as early-exit folds, calls apply the "
         "function to the argument values, null for an absent index) and calls no host function; plus type preservation of the reference semantics and "
         "freedom from crashes. The reference semantics share with the operational model only the value type and the leaf operations characterised under "
         "C08/C09/C13/C14. Tied to the code by generating typed terms as trees: the source text runs on the real parser and interpreter, the tree on the "
         "model, which re-compiles the source with its own parser model, requires the AST to be the lowering of the tree, type-checks it, and answers with "
         "both the operational and the reference outcome; implementation, model and specification must coincide (debug and release in the thorough tier)."),
 "C05": ("PARTIAL. (a) The evaluator model is a function of (context, program) returning no context, so purity is checked on the implementation: "
         "histories (one context, up to 50 executions) and thread runs (2-16 threads sharing one program set and one root context by reference, each in its own "
         "inner scope) are answered execution by execution by the history-free model, and the harness checks that every context variable, the program and "
         "every earlier result are unchanged after each execution, that repetition, an equal fresh context and a thread that has executed nothing yet (the program compiled again) give equal results, and that no context-held "
         "buffer gained or lost an owner, and that every public entry point of an execution (Program::try_from, Context::resolve on the parser's tree, Context::resolve_all / Value::resolve_all) gives what Program::execute gives; Program/Context/Value are asserted Send+Sync at compile time (a tree on which they are not is a violation of this property, and the other properties' checks then build the harness without this stream). Theorems: outcome and host-call log depend on the "
         "context only through its function registry and the lookups of the identifiers occurring in the program (frame); equal contexts, an inner scope and "
         "a private unreferenced variable change nothing. (b) Heap model of the Arc discipline behind list/string + (owner counts, clone on lookup, "
         "Arc::make_mut in-place append, Arc::get_mut move): theorems by induction on the program - an execution changes no buffer that existed before, "
         "raises its owner count by exactly the handle the result holds, returns a shared context buffer or a fresh singly-owned one, and reads the value the "
         "sharing-free semantics gives; after ANY history every context buffer has its original payload and owner count and every execution returned what it "
         "returns alone; with every result kept alive instead of dropped, each result read at the very end is still what its program yields alone (a value once obtained is never changed by a later execution); and for EVERY interleaving of clone / drop / allocate / append-through-make_mut steps by any number of threads (C05_any_interleaving, an operation-level machine over the same store primitives) owner counts stay exactly the handles in existence and every buffer the context holds keeps its payload. The heap model is tied to objects.rs by comparing, per program, value, identity of the result buffer (Arc::ptr_eq) and every "
         "context buffer's Arc::strong_count (the context being the sole owner of its buffers), and the operation-level machine is tied to std::sync::Arc itself by random clone / drop / allocate / make_mut sequences on real handles whose owner counts and payloads must be the machine's. Not modelled: the memory model (steps are atomic), nested buffers and macros in the heap model."),
 "C06": ("Theorems that Eval.eval (a structural Fixpoint transcribing Value::resolve) returns the left operand's outcome "
         "and host-call log alone when && / || are decided by it, evaluates exactly one branch of ?:, and propagates a "
         "left error - for every context and operand expression, hence at every depth and inside macro bodies. Tied to the "
         "code by comparing outcome and ordered host-call log on all small operator trees over raising/logging leaves and "
         "random deeper ones, calls of unregistered functions among the leaves, and flat chains of 2-40 operands with the deciding operand at every kind of position."),
}
NOT_YET = "not claimed yet: model and check under construction (see DESIGN.md staging plan); the technique applies"

def main():
    props = [json.loads(l) for l in open(os.path.join(ROOT, "properties.jsonl"))]
    m = dict(
        version=1, setup_cmd="./setup.sh",
        hooks=dict(guard="cel_rust_verif",
                   enable="RUSTFLAGS='--cfg cel_rust_verif' (set by tools/check.py; no hook in /repo uses it)",
                   baseline_off_cmd="cd /repo && cargo test --workspace --no-fail-fast --offline",
                   source_commits=[], add_only=True),
        engines=[dict(name="rocq-model+correspondence", path="tools/check.py",
                      serves_properties=sorted(CLAIMS),
                      kind_free_text="Coq 8.16.1 theorems about a hand-written Gallina model (coq/), tied to /repo by a "
                      "differential correspondence run: Rust harness (path dependency on /repo) vs the model extracted "
                      "to OCaml, with an in-Coq vm_compute cross-check of a sample")],
        checks=[], not_applicable=[],
        notes="See DESIGN.md. fix: commits in /repo are listed in known_findings.json (status fixed).")
    for p in props:
        pid = p["id"]
        if pid in CLAIMS:
            m["checks"].append(dict(
                property_id=pid, quick_cmd=f"./check {pid} --tier quick",
                thorough_cmd=f"./check {pid} --tier thorough", evidence_file=f"evidence/{pid}.json",
                replay_cmd_template=f"./check {pid} --replay {{path}}", engine="rocq-model+correspondence",
                level_claimed=dict(category="proof", text=CLAIMS[pid], design_ref=f"DESIGN.md section 6, {pid}"),
                level_note=NOTE, technique=TECH))
        else:
            m["not_applicable"].append(dict(property_id=pid, reason=NOT_YET))
    json.dump(m, open(os.path.join(ROOT, "MANIFEST.json"), "w"), indent=1)

main()
