"""Per-property configuration for tools/check.py."""
import os
import re

ROOT = os.path.dirname(os.path.dirname(os.path.abspath(__file__)))


def pinned(pid):
    """[(theorem name, pinned statement)] from tools/pinned/<pid>.pin.
    Format: blocks starting with a line '== name', followed by the statement."""
    path = os.path.join(ROOT, "tools", "pinned", f"{pid}.pin")
    out = []
    if not os.path.exists(path):
        return out
    name, buf = None, []
    for line in open(path):
        if line.startswith("=="):
            if name:
                out.append((name, " ".join(buf).strip()))
            name, buf = line[2:].strip(), []
        elif line.strip() and not line.startswith("#"):
            buf.append(line.strip())
    if name:
        out.append((name, " ".join(buf).strip()))
    return out


def corpus_cases(pid):
    path = os.path.join(ROOT, "corpus", f"{pid}.txt")
    if not os.path.exists(path):
        return []
    return [l for l in open(path).read().split("\n") if l.strip() and not l.startswith("#")]


def cmp_exact(td, imp, model, case):
    """None when the implementation's answer equals the model's."""
    return None if imp == model else "implementation and model answers differ"


def is_err(s):
    return s.startswith("(err")


def cmp_c08(td, imp, model, case):
    if td.get("kind", "").startswith("mix"):
        # the property only says mixing is an error, not which
        if is_err(imp) and is_err(model):
            return None
        return "mixed-type arithmetic must be an error"
    return cmp_exact(td, imp, model, case)


def describe_disagreement(pid, case, model, why):
    """Classify a disagreement: a failing input for the property, or only a broken
    correspondence (no-failing-input-found)."""
    P = PROPS[pid]
    f = P.get("classify")
    if f:
        return f(case, model, why)
    return dict(kind="failing-input", why=why)


PROPS = {}

PROPS["C08"] = dict(
    streams=["C08"],
    gate_imports="From Cel.Model Require Import Arith.\nFrom Cel.Proofs Require Import ArithProofs.\nFrom Coq Require Import ZArith.",
    compare=cmp_c08,
    release_too=True,
    exhaustive=True,
    exhaustive_note="all ordered pairs of the i64 and of the u64 boundary set under + - * / %, "
                    "each as literals and as context variables; unary minus on the whole i64 set; "
                    "all mixed-kind pairs of a 9-value set; plus random pairs (not exhaustive)",
    rule="a case is one (operator, operand pair, spelling); non-trivial when an operand is within "
         "2 of a type boundary or 0, the exact result is out of range, the divisor is 0 or -1, or "
         "the operand kinds are mixed; distinct by (request, spelling)",
    assumptions=["the theorems are about Model/Arith.v; the tie to objects.rs is this run's "
                 "differential comparison through Program::compile + execute"],
)


def split_res(s):
    """'(res OUTCOME (log ...))' -> (outcome kind, outcome text, log text)"""
    if not s.startswith("(res "):
        return (s, s, "")
    i = s.rfind("(log")
    out = s[5:i].strip()
    kind = out.split(" ", 1)[0].strip("()")
    return (kind, out, s[i:-1])


def classify_logs(case, model, why):
    """Evaluator-family classification: the property constrains the outcome kind and the
    ordered host-call log; a difference only in value or error class is a broken
    correspondence, not (by itself) a violation of this property."""
    ik, io, il = split_res(case[1])
    mk, mo, ml = split_res(model)
    if "oracle" in mo:
        return dict(kind="no-failing-input-found", why="model has no interpretation (oracle) - harness bug")
    if ik != mk or il != ml:
        return dict(kind="failing-input",
                    why=f"outcome kind/log differ: impl {ik} {il} vs model {mk} {ml}")
    return dict(kind="no-failing-input-found",
                why="correspondence Eval.eval <-> Value::resolve broken on value/error class only")


def cmp_eval(td, imp, model, case):
    if imp == model:
        return None
    mk, mo, ml = split_res(model)
    if mo == "(err oracle)":
        ik, io, il = split_res(imp)
        # uninterpreted library call: any non-crash outcome agrees
        return None if ik in ("ok", "err") else "crash where the model has an uninterpreted call"
    return "implementation and model answers differ"


EVAL_GATE = ("From Coq Require Import String.\nFrom Cel.Model Require Import Eval.\n"
             "From Cel.Proofs Require Import EvalBase.\n")

def cmp_laws(td, imp, model, case):
    if imp == model:
        return None
    if td.get("kind", "").startswith("law"):
        return "a law of the property fails on the implementation's own answers: " + imp
    return cmp_eval(td, imp, model, case)


def c05_build_failure(out):
    return ("assert_send_sync" in out or "cannot be sent between threads safely" in out
            or "cannot be shared between threads safely" in out)


PROPS["C05"] = dict(
    streams=["C05"],
    compare=cmp_laws,
    classify=lambda case, model, why: dict(kind="failing-input", why=(case[1][:400] if "kind=law" in case[2] else why)),
    gate_imports=EVAL_GATE + "From Cel.Model Require Import Heap.\nFrom Cel.Proofs Require Import CtxEquiv FrameProofs HeapProofs.",
    exhaustive=False,
    build_failure_is_violation=c05_build_failure,
    rule="a case is one execution inside a history (one context, 1-50 executions of generated programs, half of "
         "them concatenating context-held lists/strings or running macros over them) or inside a thread run "
         "(2-16 threads sharing one program set and one root context by reference, each in an inner scope with a "
         "private variable); every execution is answered by the history-free model from (scope chain, program) "
         "alone; non-trivial when the program concatenates a context-held buffer (histories) - always for thread "
         "runs; the laws (every context variable, the program and every earlier result print the same after each "
         "execution; a repetition and an equal fresh context give an equal result; owner counts of the context's "
         "buffers are unchanged at the end of a history) are evaluated on the implementation's own state; "
         "Program, Context and Value are asserted Send + Sync at compile time; "
         "heap cases: programs of the reference-count model's fragment (context buffers, list/string literals, +) are "
         "run on the implementation, which also reports which context buffer the result IS (Arc::ptr_eq) and every "
         "context buffer's owner count (Arc::strong_count) while the result is held - the model predicts all three",
    assumptions=["the interleavings exercised are those the OS scheduler produces; the memory model is not modelled"],
    trusted_extra=["std::sync::Arc and the Rust memory model (shared-reference execution) are outside the model"],
)

PROPS["C06"] = dict(
    streams=["C06"],
    compare=cmp_eval,
    classify=classify_logs,
    gate_imports=EVAL_GATE + "From Cel.Proofs Require Import LogicProofs.",
    exhaustive=True,
    exhaustive_note="every tree with one operator (&&, ||, ?:) over 9 leaf kinds; every two-level "
                    "tree of && / || over 5 leaf kinds and of ?: over 3; plus random trees of "
                    "depth <= 4 (also inside all/map/filter bodies), not exhaustive",
    rule="a case is a program; non-trivial when a leaf that raises or logs occurs (skipping is "
         "observable); distinct by source text",
    assumptions=["outcome and ordered host-call log are the observations; wall-clock is not"],
)


PROPS["C09"] = dict(
    streams=["C09"],
    compare=cmp_laws,
    gate_imports="From Cel.Model Require Import Compare.\nFrom Cel.Proofs Require Import CompareProofs FloatOrder EqSymmetry EqEquiv.\nFrom Coq Require Import QArith.\nOpen Scope Z_scope.",
    exhaustive=True,
    exhaustive_note="all ordered pairs of the boundary value set through Value::eq and partial_cmp "
                    "directly plus the pair laws; all numeric pairs through the 12 program forms; "
                    "thorough: all pairs through programs and all triples for the transitivity laws",
    rule="a case is a (form, value pair/triple); non-trivial when it mixes numeric types or "
         "contains NaN, an infinity, a zero or a magnitude above 2^53; distinct by request+inputs",
    assumptions=["double-double comparison is SpecFloat.SFcompare (trusted as the definition of "
                 "IEEE-754 comparison); it is checked against Rust's f64 by this run"],
    trusted_extra=["Coq.Floats.SpecFloat as the definition of binary64 comparison/arithmetic"],
)

PROPS["C10"] = dict(
    streams=["C10"],
    compare=cmp_eval,
    classify=lambda case, model, why: dict(kind="failing-input", why=why),
    gate_imports=EVAL_GATE + "From Cel.Model Require Import Macros.\nFrom Cel.Proofs Require Import CtxEquiv LogicProofs MacroProofs.",
    exhaustive=True,
    exhaustive_note="all 7 macro forms x 12 predicate / 6 transform bodies over every list of "
                    "length 0-4 (thorough: 0-6) from a 4-value alphabet; plus maps, longer random "
                    "lists, non-iterable ranges and the expansion of every macro form against the "
                    "real parser",
    rule="a case is (program, context); non-trivial when the range has >= 2 elements or the body "
         "raises or logs on some element; distinct by program text and context",
)

PROPS["C11"] = dict(
    streams=["C11"],
    compare=cmp_eval,
    classify=lambda case, model, why: dict(kind="failing-input", why=why),
    gate_imports=EVAL_GATE + "From Cel.Model Require Import Macros.\nFrom Cel.Proofs Require Import CtxEquiv MacroProofs ContextProofs.",
    exhaustive=True,
    exhaustive_note="every sequence of define/redefine/open/drop/lookup operations of length <= 5 "
                    "(thorough: <= 7) over 3 names and 3 scope levels that ends in a lookup; plus "
                    "random longer sequences and programs nesting up to 3 macros whose variables "
                    "reuse context variable and function names, with lookups after the macro",
    rule="a case is an operation sequence or a program; non-trivial when a name is defined at two "
         "live scope levels (shadowing occurs) or the program nests macros; distinct by its text",
)

PROPS["C14"] = dict(
    streams=["C14"],
    compare=cmp_laws,
    classify=lambda case, model, why: dict(kind="failing-input", why=why),
    gate_imports=EVAL_GATE + "From Cel.Proofs Require Import CompareProofs ContainerProofs.",
    exhaustive=True,
    exhaustive_note="all maps with <= 3 (thorough: <= 4) distinct keys over an 8-key alphabet mixing "
                    "int, uint, bool and string keys, each queried with 18 keys (the alphabet, the "
                    "int/uint twins, absent keys, extremes) through k in m, m.contains(k), m[k], m.k, "
                    "has(m.k), as context variable and as literal; all lists of length 0-5 with every "
                    "index in -2..len+1 and the i64 extremes; byte-offset string indexing; random "
                    "strings and lists for the additive laws (not exhaustive)",
    rule="a case is (form, map/list, key/index); non-trivial when the queried key is absent, its "
         "int/uint twin is present, or the index is out of range; distinct by program and context",
)


def classify_c01(case, model, why):
    imp = case[1]
    if case[0].startswith("(posfor"):
        m = re.match(r"\(posfor \(str([ 0-9]*)\) (\d+)\)", case[0])
        mi = re.match(r"\(pos (-?\d+) (-?\d+)\)", imp)
        if m and mi:
            src = "".join(chr(int(x)) for x in m.group(1).split())
            l, c = int(mi.group(1)), int(mi.group(2))
            lines = src.split("\n")
            if l < 1 or l > len(lines) or c < 1 or c > len(lines[l - 1]) + 1:
                return dict(kind="failing-input",
                            why=f"the macro error is positioned at {l}:{c}, beyond the source text")
        return dict(kind="no-failing-input-found",
                    why="the position reported for a macro error differs from Position.pos_for at the "
                        "argument's byte offset: correspondence pos_for <-> SourceInfo::pos_for broken")
    if imp.startswith("(crash"):
        return dict(kind="failing-input", why="compiling this source panicked")
    if imp.startswith("(bad-errors"):
        return dict(kind="failing-input", why="reported error list violates the property: " + imp)
    if imp.startswith("(ok") and model.startswith("(reject"):
        return dict(kind="failing-input",
                    why="the implementation accepts a text the grammar model rejects")
    if imp.startswith("(ok") and model.startswith("(ok"):
        return dict(kind="no-failing-input-found",
                    why="accepted with a different tree: correspondence Parser.compile <-> Parser::parse broken (C04/C12/C13 decide whether a property fails)")
    return dict(kind="no-failing-input-found",
                why="the implementation rejects a text the model accepts (or the model ran out of fuel): correspondence broken, C01 itself not shown violated")


PROPS["C01"] = dict(
    streams=["C01"],
    compare=cmp_exact,
    classify=classify_c01,
    gate_imports="From Coq Require Import String Ascii.\nFrom Cel.Model Require Import Parser Position Grammar Surface.\nFrom Cel.Proofs Require Import ParserProofs LexerTotal GrammarProps.",
    exhaustive=True,
    exhaustive_note="all token strings of length <= 4 (thorough: <= 5) over a 16-token alphabet joined "
                    "by spaces, and of length <= 3 (4) over five further alphabets (operators, calls and "
                    "macros, number pieces, quote/escape pieces - the last two joined without "
                    "separator so that maximal munch decides); plus random characters, random token "
                    "sequences, generated valid expressions and their single-token mutations",
    rule="a case is a source text; non-trivial when it has >= 2 tokens or forces a lexing decision; "
         "distinct by text; accepted and rejected counted in input_distribution",
    assumptions=["ANTLR's adaptive prediction and error recovery are not modelled: the model decides "
                 "acceptance and the accepted tree; which errors are reported is only monitored "
                 "(non-empty list, non-empty text, positions inside the source)",
                 "absence of hangs in the runtime is observed (harness timeout), not proved"],
)


def classify_c04(case, model, why):
    tags = case[2]
    if "kind=law" in tags:
        return dict(kind="failing-input", why="compile(render(tree)) differs from the tree: " + case[1][:300])
    if case[1].startswith("(crash"):
        return dict(kind="failing-input", why="compiling this rendered tree panicked")
    if "kind=surface" in tags:
        # a tree of the round-trip theorem's domain (the model confirms it is well formed and that
        # these are its tokens) whose rendering the real parser turns into another tree
        return dict(kind="failing-input", why="the real parser's tree for this rendering is not the tree C04_roundtrip prescribes: " + why)
    return dict(kind="failing-input" if ("chain" in tags or "prefix" in tags or "macro" in tags) else "no-failing-input-found",
                why="the real parser and the model's parser disagree on this text: " + why)


def _c03_parts(s):
    """'(c03 STATUS EVAL (log ...) SEM)' -> (status, eval outcome, log, sem outcome) as texts"""
    try:
        x = check_parse(s)
        if isinstance(x, list) and x and x[0] == "c03" and len(x) == 5:
            return tuple(check_unparse(y) for y in x[1:])
    except Exception:
        pass
    return None


def check_parse(s):
    import check
    return check.parse_sexp(s)


def check_unparse(x):
    import check
    return check.unparse(x)


def cmp_c03(td, imp, model, case):
    if imp == model:
        return None
    m = _c03_parts(model)
    i = _c03_parts(imp)
    if m and i and m[0] == "typed" and "(err oracle)" in (m[1], m[3]) and m[2] == "(log)":
        return None      # an uninterpreted library call inside the program: any non-crash outcome agrees
    return "implementation, operational model and reference semantics do not all agree"


def classify_c03(case, model, why):
    m = _c03_parts(model)
    i = _c03_parts(case[1])
    if not m:
        return dict(kind="no-failing-input-found", why="the model could not answer: " + model[:200])
    if m[0] != "typed":
        return dict(kind="no-failing-input-found",
                    why="the generated term is outside what the theorem covers (" + m[0][:200] + "): generator/lowering out of step")
    if not i:
        return dict(kind="failing-input", why="execution did not return a value or an error: " + case[1][:100])
    if i[1] != m[3]:
        return dict(kind="failing-input", why=f"execution yields {i[1][:200]} but the reference semantics prescribe {m[3][:200]}")
    return dict(kind="no-failing-input-found",
                why=f"execution agrees with the reference semantics but the operational model says {m[1][:200]}: correspondence broken")


PROPS["C03"] = dict(
    streams=["C03"],
    compare=cmp_c03,
    classify=classify_c03,
    gate_imports="From Coq Require Import String.\nFrom Cel.Model Require Import Spec.\nFrom Cel.Proofs Require Import EvalBase NoCrash SpecProofs.",
    exhaustive=False,
    rule="a case is a well-typed term of the core fragment generated as a tree (depth <= 6) from the typed grammar - "
         "arithmetic on int/uint/double, comparison within and across numeric types, equality on containers, && || ! "
         "?:, list/map literals, concatenation, index, in, field selection, has, size/contains/startsWith/endsWith/"
         "string/bytes/double/int/uint/max/min in function and receiver style, all/exists/exists_one/map/filter with "
         "iteration variables that shadow context names - with leaves from boundary-biased literals and the variables "
         "of a generated context; the source text goes to the real parser and interpreter, the tree to the model, "
         "which compiles the source itself, requires the parser's AST to be the lowering of the tree, type-checks "
         "the tree and the environment, and answers with the operational model's outcome and the reference "
         "semantics' outcome; all three must be equal; non-trivial when the term has >= 2 operators",
    assumptions=["the typing discipline is Spec.type_of (booleans where the language branches, strings as receivers of "
                 "startsWith/endsWith, typed iteration variables, 'any' for index / selection results); CEL-typable "
                 "programs it rejects are compared with the operational model only (streams C02/evalmix)"],
    release_too=True,
)

PROPS["C04"] = dict(
    streams=["C04"],
    compare=cmp_laws,
    classify=classify_c04,
    gate_imports="From Coq Require Import String Ascii.\nFrom Cel.Model Require Import Parser Surface.\nFrom Cel.Proofs Require Import PrecedenceProofs ParserRoundtrip MacroTrees ParserFuel LexerRoundtrip.",
    exhaustive=True,
    exhaustive_note="every tree with <= 2 (thorough: <= 3) operators from the complete operator set "
                    "(?:, ||, &&, 7 relations, 5 arithmetic, !, -, select, index, receiver call, global "
                    "call, list, map) over 2 leaf kinds, rendered fully and minimally parenthesised; "
                    "every && / || chain of length 2-64 (plain and mixed); every prefix run 1-6 on 12 "
                    "operand shapes; each macro around receivers/arguments containing macros; plus "
                    "random trees of depth <= 7",
    rule="a case is a rendered tree (or chain / prefix run / macro text); non-trivial when the tree has "
         ">= 2 operators, so that relative precedence or associativity decides the parse; distinct by text",
    assumptions=["the round trip itself is checked on the implementation (law cases), not yet proved "
                 "about the model's parser"],
)


def classify_c12(case, model, why):
    if "kind=law" in case[2]:
        return dict(kind="failing-input", why="the literal does not denote the characters written: " + case[1][:300])
    if case[1].startswith("(crash"):
        return dict(kind="failing-input", why="compiling this literal panicked")
    return dict(kind="failing-input", why="the real literal decoding and the model's differ: " + why)


PROPS["C12"] = dict(
    streams=["C12"],
    compare=cmp_laws,
    classify=classify_c12,
    gate_imports="From Coq Require Import String Ascii.\nFrom Cel.Model Require Import Literals Surface.\nFrom Cel.Proofs Require Import LiteralProofs LexerRoundtrip RawLiterals.\nOpen Scope N_scope.",
    exhaustive=True,
    exhaustive_note="every single-character escape, all 256 \\x, \\X and octal escapes, a 1/16 sample plus "
                    "all boundaries of the 65536 \\u escapes (thorough: all of them), \\U plane boundaries and "
                    "a random sample, invalid escapes - each in the 8 non-raw string and bytes styles, alone "
                    "and between other characters; plus random strings and byte sequences rendered in all "
                    "16 styles with random per-character spelling choices, and quote/newline edge cases",
    rule="a case is a literal text (with the string it must denote for the law cases); every case is "
         "non-trivial (contains an escape, a quote or a non-ASCII/control character); distinct by text",
)

PROPS["C13"] = dict(
    streams=["C13"],
    compare=cmp_laws,
    classify=lambda case, model, why: dict(kind="failing-input", why=(case[1][:300] if "kind=law" in case[2] else why)),
    gate_imports=EVAL_GATE + "From Cel.Model Require Import Builtins.\nFrom Cel.Proofs Require Import LiteralProofs NumericProofs.\nOpen Scope Z_scope.",
    exhaustive=False,
    rule="a case is a literal text or a conversion program over a boundary or random number; every "
         "case is at or beyond a range boundary, needs rounding, or is a random 64-bit pattern; "
         "distinct by text and context; law cases evaluate 'denotes the number' / 'corresponding "
         "value or error' / the string round trips on the implementation's own answers",
    release_too=True,
    trusted_extra=["Coq.Floats.SpecFloat (binary_normalize, SFdiv_core_binary, binary_round_aux) as the "
                   "definition of correct rounding to binary64; checked against Rust's str::parse / Display by this run"],
)


def classify_c02(case, model, why):
    if case[1].startswith("(crash") or "(crash)" in case[1].split("(log")[0]:
        return dict(kind="failing-input", why="the implementation panicked on this input")
    return dict(kind="no-failing-input-found",
                why="no panic, but implementation and model differ (correspondence Eval.eval/Arith <-> interpreter broken): " + why)


PROPS["C02"] = dict(
    streams=["C02"],
    compare=cmp_eval,
    classify=classify_c02,
    release_too=True,
    gate_imports=EVAL_GATE + "From Cel.Proofs Require Import NoCrash.",
    exhaustive=True,
    exhaustive_note="all ordered pairs of the ~110-value boundary set (i64/u64 extremes, NaN, infinities, "
                    "strings, bytes, lists, maps, durations and timestamps at chrono's limits, function "
                    "values) under + - * / % applied directly to Value; plus generated programs (typed and "
                    "untyped, depth <= 8, every operator, macro, built-in and literal form) over contexts "
                    "holding those values - not exhaustive",
    rule="a case is a (operator, value pair) or a (program, context); a program is non-trivial when it "
         "contains at least two operator/call/macro characters; distinct by text and context",
)

PROPS["C20"] = dict(
    streams=["C20"],
    compare=cmp_laws,
    classify=lambda case, model, why: dict(kind="failing-input", why=(case[1][:300] if "kind=law" in case[2] else why)),
    gate_imports=EVAL_GATE + "From Cel.Proofs Require Import MacroProofs CallProofs.",
    exhaustive=True,
    exhaustive_note="every receiver-style built-in (19) x every value of the ~100-value boundary set as "
                    "receiver (x 9 argument values for the binary ones, half of them sampled in the quick "
                    "tier) in both call styles, with the equivalence evaluated on the implementation; "
                    "every host-function signature of the 41-entry menu (arity 0-9; Value, every typed "
                    "parameter, This<T>, This<Option<T>>, Arguments, Identifier, Expression, with and "
                    "without &FunctionContext) x 0..arity+2 arguments drawn from 14 argument kinds, in "
                    "both call styles, registered under a fresh name and under the built-in name 'size'",
    rule="a case is (signature or built-in, call style, argument-kind vector); every case is "
         "non-trivial; distinct by program text and context",
)

PROPS["C07"] = dict(
    streams=["C07"],
    compare=cmp_eval,
    classify=classify_logs,
    gate_imports=EVAL_GATE + "From Cel.Proofs Require Import NoCrash OrderProofs CostProofs.\nOpen Scope nat_scope.",
    exhaustive=False,
    rule="a case is a program in which every leaf and (about half of) the calls are wrapped by a "
         "logging host function with a unique id, so the ordered log shows order and multiplicity of "
         "every evaluation; non-trivial when some non-operator call has a logged argument; nested "
         "chains f(f(...f(x))) up to depth 14 (thorough: 22), function and receiver style, make the "
         "log length observable (it is the depth; the defect fixed earlier made it 2^depth)",
    assumptions=["invocation counts stand in for running time"],
)

def cmp_data(td, imp, model, case):
    if imp == model:
        return None
    if td.get("kind", "").startswith("law"):
        return "a law of the property fails on the implementation's own answers: " + imp
    if model == "(err oracle)":
        return None if (imp.startswith("(ok") or imp.startswith("(err")) else "crash where the model has an uninterpreted call"
    return "implementation and model answers differ"


DATA_GATE = ("From Coq Require Import String Ascii.\nFrom Cel.Model Require Import Json.\n"
             "From Cel.Proofs Require Import SerdeProofs JsonProofs.\nOpen Scope Z_scope.")

PROPS["C17"] = dict(
    streams=["C17"],
    compare=cmp_data,
    classify=lambda case, model, why: dict(kind="failing-input", why=(case[1][:300] if "kind=law" in case[2] else why)),
    gate_imports=DATA_GATE,
    exhaustive=False,
    rule="a case is a value of the 'any serde type' generator (one constructor per Serializer entry point: every "
         "integer width, 128-bit, f32/f64, bool, char, str, bytes, none/some, unit, unit struct, the four variant "
         "kinds, newtype, seq (with/without length hint), tuple, tuple struct, map (serialize_entry and "
         "serialize_key+serialize_value; keys of supported and unsupported kinds), struct, the Duration and "
         "Timestamp wrappers; depth <= 5) sent through cel_interpreter::to_value and through serde_json::to_value, "
         "or a serde_json document sent through to_value; non-trivial always (nt=1): each exercises a Serializer "
         "method; the commutation law (to_value then Value::json equals serde_json::to_value) is evaluated on the "
         "implementation's answers for JSON-representable data, and export-after-import on every JSON document",
    trusted_extra=["serde_json's own serializer is modelled (json_direct), not verified; float map keys, 128-bit integers and "
                   "chrono's textual form of a timestamp used as a map key are uninterpreted (oracle) in the model",
                   "chrono's Serialize/FromStr for DateTime (the Timestamp wrapper travels as RFC 3339 text with the offset "
                   "rounded to the minute) is modelled, not verified"],
)

PROPS["C18"] = dict(
    streams=["C18"],
    compare=cmp_data,
    classify=lambda case, model, why: dict(kind="failing-input", why=(case[1][:300] if "kind=law" in case[2] else why)),
    gate_imports=DATA_GATE,
    exhaustive=False,
    rule="a case is a CEL value (the C02/C09 boundary value set alone and nested in a list and a map; maps with "
         "text-colliding keys; a recursive generator of depth <= 5 with functions inside collections, durations on "
         "both sides of 2^63 ns, NaN/inf, empty collections, int/uint/bool/string keys rendering to the same text) "
         "sent through Value::json, the model being told the iteration order of the implementation's hash maps; "
         "the totality law (Ok exactly when no function / oversized duration occurs) and the import-after-export "
         "law (JSON-native values, text-distinct keys) are evaluated on the implementation's answers",
    trusted_extra=["base64 (crate) and chrono::DateTime::to_rfc3339 are modelled, not verified; both are compared with the "
                   "model's base64 / rfc3339 on every case that contains bytes / a timestamp"],
)

PROPS["C19"] = dict(
    streams=["C19"],
    compare=cmp_laws,
    classify=lambda case, model, why: dict(kind="failing-input", why=(case[1][:300] if "kind=law" in case[2] else why)),
    gate_imports=EVAL_GATE + "From Cel.Model Require Import Refs.\nFrom Cel.Proofs Require Import NoCrash RefsProofs RefsComplete.\nFrom Cel.Model Require Import Macros Refs.",
    exhaustive=False,
    rule="a case is a generated program with random variable and function names in every syntactic "
         "position (operands, receivers, arguments, indices, map keys and values, list elements, "
         "struct fields, select chains, macro ranges, variables and bodies, has() arguments): its "
         "reference sets are compared with the model's, it is executed against contexts defining "
         "random subsets of the names (outcome compared), and the property's clauses are evaluated on "
         "the implementation's own answers; non-trivial when some referenced name is undefined",
)

PROPS["C15"] = dict(
    streams=["C15"],
    compare=cmp_laws,
    classify=lambda case, model, why: dict(kind="failing-input", why=(case[1][:300] if "kind=law" in case[2] else why)),
    gate_imports=EVAL_GATE + "From Coq Require Import Ascii.\nFrom Cel.Model Require Import Builtins.\nFrom Cel.Proofs Require Import NumericProofs DurationProofs DurationRoundtrip.\nOpen Scope Z_scope.",
    exhaustive=False,
    rule="a case is a duration (boundary set: 0, +-1ns ... i64::MIN/MAX and neighbours; log-uniform random "
         "nanosecond counts of both signs) observed through string(d), duration(string(d)), +, -, comparisons, "
         "or a text passed to duration() (hand-written malformed spellings and single-character mutations of "
         "valid renderings); non-trivial when the duration is negative or has a sub-second part, or the text "
         "is malformed; the laws (rendering equals an independent implementation of Go's Duration.String, round "
         "trip, exact add/sub or overflow error, comparison) are evaluated on the implementation's answers",
)

PROPS["C16"] = dict(
    streams=["C16"],
    compare=cmp_laws,
    classify=lambda case, model, why: dict(kind="failing-input", why=(case[1][:300] if "kind=law" in case[2] else why)),
    gate_imports=EVAL_GATE + "From Coq Require Import Ascii.\nFrom Cel.Model Require Import Builtins.\nFrom Cel.Proofs Require Import TimestampProofs TimestampRoundtrip DayOfYear.\nOpen Scope Z_scope.",
    exhaustive=False,
    rule="a case is a timestamp (first/last day of every month of 18 chosen years x 3 times x offsets "
         "-12:00..+14:00, +-23:59, half-hour offsets; uniformly random dates, nanoseconds and offsets) "
         "observed through the 10 accessors, string(t), timestamp(string(t)), or an arithmetic/comparison "
         "program over (t, d, u), or a text passed to timestamp(); non-trivial when the offset is non-zero, "
         "the local date differs from the UTC date or lies on a month boundary; the laws (fields equal an "
         "independent calendar computation in the harness, text round trip, instant, t+d-d==t, (t+d)-t==d, "
         "order by instant) are evaluated on the implementation's answers",
    trusted_extra=["chrono (DateTime, TimeDelta, RFC 3339) is modelled, not verified; leap-second texts (:60) are outside the model"],
)
