#!/usr/bin/env python3
"""Confirm a seeded mutation in a scratch worktree and run the checks against it.
usage: seedtest.py <worktree> <mutation dir> <name> <pid> [<pid>...]
Steps: (scratch worktree) suite passes with patch; demo fails with patch, passes without;
(/repo) apply patch, run ./check <pid> for each pid, undo.  Writes /verif/seeded/<name>/."""
import json, os, shutil, subprocess, sys, time
wt, mdir, name, pids = sys.argv[1], sys.argv[2], sys.argv[3], sys.argv[4:]
ROOT = "/verif"
env = dict(os.environ, CARGO_NET_OFFLINE="true")

def sh(cmd, cwd=None, timeout=1800):
    p = subprocess.run(cmd, shell=True, cwd=cwd, env=env, stdout=subprocess.PIPE, stderr=subprocess.STDOUT, text=True, timeout=timeout)
    return p.returncode, p.stdout

patch = os.path.join(mdir, "patch.diff")
demo = os.path.join(mdir, "demo.rs")
meta = dict(name=name, properties=pids, ran=[])
# SEEDTEST_STAGE=confirm: only the scratch-worktree confirmation (result kept under /tmp/seedmeta);
# SEEDTEST_STAGE=check: only the run against /repo, reusing that confirmation
STAGE = os.environ.get("SEEDTEST_STAGE", "both")
KEEP = f"/tmp/seedmeta/{name}.json"
if STAGE == "check":
    meta = json.load(open(KEEP))
    meta["properties"] = pids
def confirm():
  global meta
  sh("git checkout -- antlr interpreter", wt)
  os.makedirs(os.path.join(wt, "interpreter/tests"), exist_ok=True)
  shutil.copy(demo, os.path.join(wt, "interpreter/tests/demo.rs"))
  rc, out = sh("cargo test --offline -p cel-interpreter --features json --test demo 2>&1 | tail -5", wt)
  meta["demo_passes_without_patch"] = ("test result: ok" in out)
  meta["ran"].append("cargo test -p cel-interpreter --test demo (unpatched): " + ("pass" if meta["demo_passes_without_patch"] else "FAIL"))
  rc, out = sh(f"git apply {patch}", wt)
  assert rc == 0, out
  rc, out = sh("cargo test --offline -p cel-interpreter --features json --test demo 2>&1 | tail -5", wt)
  meta["demo_fails_with_patch"] = ("test result: FAILED" in out or "error" in out.lower())
  meta["ran"].append("cargo test -p cel-interpreter --test demo (patched): " + ("fails as expected" if meta["demo_fails_with_patch"] else "PASSES?"))
  os.remove(os.path.join(wt, "interpreter/tests/demo.rs"))
  rc, out = sh("cargo test --workspace --no-fail-fast --offline 2>&1 | grep -E '^test result|FAILED|panicked' ", wt)
  meta["suite_passes_with_patch"] = ("FAILED" not in out and "test result: ok" in out)
  meta["ran"].append("cargo test --workspace --offline (patched): " + ("all pass" if meta["suite_passes_with_patch"] else "FAIL " + out[-300:]))
  sh("git checkout -- antlr interpreter", wt)
if STAGE != "check":
    confirm()
if STAGE == "confirm":
    os.makedirs("/tmp/seedmeta", exist_ok=True)
    json.dump(meta, open(KEEP, "w"), indent=1)
    print(json.dumps({k: meta[k] for k in ("demo_passes_without_patch", "demo_fails_with_patch", "suite_passes_with_patch")}))
    sys.exit(0)
# now against /repo
rc, out = sh("git -C /repo status --porcelain")
assert out.strip() == "", "repo dirty: " + out
rc, out = sh(f"git -C /repo apply {patch}")
assert rc == 0, out
meta["checks"] = {}
try:
    for pid in pids:
        t = time.time()
        rc, out = sh(f"./check {pid} --tier quick", ROOT, timeout=3600)
        viol = [l for l in out.split("\n") if l.startswith("VIOLATION")]
        rp = None
        detail = ""
        if viol:
            try:
                rp = viol[0].split("replay=")[1].split()[0]
                d = json.load(open(rp))
                detail = f"{d.get('kind')}: {str(d.get('input'))[:160]} | impl {str(d.get('impl'))[:80]} | model {str(d.get('model'))[:80]}"
            except Exception as e:
                detail = str(e)
        meta["checks"][pid] = dict(exit=rc, violation=viol[:1], detail=detail, wall_s=round(time.time() - t, 1))
        print(pid, "exit", rc, viol[:1], detail)
finally:
    sh("git -C /repo checkout -- .")
    shutil.rmtree(os.path.join(ROOT, "replay"), ignore_errors=True)
    # the runs above rewrote evidence/<pid>.json from the PATCHED tree: restore the committed files
    sh("git -C /verif checkout -- " + " ".join(f"evidence/{p}.json" for p in pids))
out_dir = os.path.join(ROOT, "seeded", name)
os.makedirs(out_dir, exist_ok=True)
shutil.copy(patch, out_dir)
shutil.copy(demo, out_dir)
if os.path.exists(os.path.join(mdir, "notes.md")):
    shutil.copy(os.path.join(mdir, "notes.md"), out_dir)
meta["caught_by"] = [p for p, c in meta["checks"].items() if c["exit"] == 1]
json.dump(meta, open(os.path.join(out_dir, "meta.json"), "w"), indent=1)
print(json.dumps({k: meta[k] for k in ("demo_passes_without_patch", "demo_fails_with_patch", "suite_passes_with_patch", "caught_by")}))
