#!/usr/bin/env python3
"""Per-property check driver.

  ./check Cnn [--tier quick|thorough] [--replay PATH]

1. proof gate   - builds the property's theorem file through the generated Makefile (full .vo
                  build), re-checks every pinned statement with `Check name : stmt.` and reads
                  `Print Assumptions` for every pinned theorem in a fresh coqc run, scans the
                  sources for Admitted/Axiom/... ;
2. correspondence - rebuilds the Rust harness against /repo's working tree, runs the
                  property's case stream on the implementation, the extracted model on the same
                  requests, compares per case; a sample is re-evaluated inside Coq (vm_compute);
3. violation search / reporting, evidence, known findings.
"""
import fcntl
import hashlib
import json
import os
import re
import subprocess
import sys
import time

ROOT = os.path.dirname(os.path.dirname(os.path.abspath(__file__)))
COQ = os.path.join(ROOT, "coq")
CACHE = os.path.join(ROOT, ".cache")
TARGET = os.path.join(CACHE, "target")
DRIVER = os.path.join(ROOT, "driver", "modeldriver")
EVID = os.path.join(ROOT, "evidence")
REPLAY = os.path.join(ROOT, "replay")
GUARD = "cel_rust_verif"

sys.path.insert(0, os.path.join(ROOT, "tools"))
import props  # noqa: E402

FORBIDDEN = re.compile(
    r"\b(Admitted|admit|Axiom|Axioms|Parameter|Parameters|Conjecture|Conjectures|"
    r"Admit Obligations|bypass_check|Unset Guard Checking|Unset Positivity Checking|"
    r"Unset Universe Checking|type-in-type|impredicative-set)\b"
)
# section-less Variable/Hypothesis is checked separately
ALLOWED_AXIOMS = set(json.load(open(os.path.join(ROOT, "tools", "assumptions_allow.json"))))

BASE_TRUSTED = [
    "Coq 8.16.1 kernel and coqc; vm_compute (no native_compute)",
    "hand-written Gallina model (coq/Model/*.v) tied to /repo only by this correspondence run",
    "extraction: Require Extraction + ExtrOcamlBasic only (no Extract Constant / Extract Inductive of our own); driver/main.ml glue (ascii<->char)",
    "Rust harness (/verif/harness): generators, structural printers, error-class mapping",
    "rustc/std, chrono, nom, regex, serde, antlr4rust as linked by /repo/Cargo.lock",
]


def log(*a):
    print(*a, flush=True)


class Lock:
    def __init__(self, name):
        os.makedirs(CACHE, exist_ok=True)
        self.path = os.path.join(CACHE, name + ".lock")

    def __enter__(self):
        self.f = open(self.path, "w")
        fcntl.flock(self.f, fcntl.LOCK_EX)

    def __exit__(self, *a):
        fcntl.flock(self.f, fcntl.LOCK_UN)
        self.f.close()


def run(cmd, cwd=None, timeout=None, env=None, inp=None):
    e = dict(os.environ)
    if env:
        e.update(env)
    p = subprocess.run(
        cmd, cwd=cwd, timeout=timeout, env=e, input=inp, stdout=subprocess.PIPE,
        stderr=subprocess.STDOUT, text=True, shell=isinstance(cmd, str),
    )
    return p.returncode, p.stdout


# --------------------------------------------------------------------------- proof gate

def scan_sources():
    bad = []
    for d, _, fs in os.walk(COQ):
        for f in fs:
            if not f.endswith(".v"):
                continue
            path = os.path.join(d, f)
            txt = open(path).read()
            # strip comments (nested)
            out, depth, i = [], 0, 0
            while i < len(txt):
                if txt.startswith("(*", i):
                    depth += 1
                    i += 2
                elif txt.startswith("*)", i) and depth > 0:
                    depth -= 1
                    i += 2
                else:
                    if depth == 0:
                        out.append(txt[i])
                    i += 1
            code = "".join(out)
            # strip string literals
            code = re.sub(r'"(?:[^"]|"")*"', '""', code)
            for m in FORBIDDEN.finditer(code):
                bad.append(f"{os.path.relpath(path, ROOT)}: {m.group(0)}")
            # Variable/Hypothesis outside a section
            depth = 0
            for line in code.split("\n"):
                s = line.strip()
                if re.match(r"Section\b", s):
                    depth += 1
                elif re.match(r"End\b", s) and depth > 0:
                    depth -= 1
                elif depth == 0 and re.match(r"(Variable|Variables|Hypothesis|Hypotheses|Context)\b", s):
                    bad.append(f"{os.path.relpath(path, ROOT)}: section-less {s.split()[0]}")
    return bad


def coq_build(targets, timeout=1500):
    with Lock("coq"):
        if not os.path.exists(os.path.join(COQ, "Makefile")):
            rc, out = run("coq_makefile -f _CoqProject -o Makefile", cwd=COQ)
            if rc != 0:
                return rc, out
        return run(["timeout", str(timeout), "make", "-j16"] + targets, cwd=COQ, timeout=timeout + 30)


def proof_gate(pid):
    """Returns dict(ok, obligations, discharged, axioms, detail)."""
    P = props.PROPS[pid]
    res = dict(ok=True, obligations=0, discharged=0, axioms=[], detail=[], theorems=[])
    bad = scan_sources()
    if bad:
        res["ok"] = False
        res["detail"].append("forbidden constructs: " + "; ".join(bad))
    rc, out = coq_build([f"Properties/{pid}.vo"])
    if rc != 0:
        res["ok"] = False
        res["detail"].append("coq build failed:\n" + out[-3000:])
        res["broken"] = f"Properties/{pid}.v does not compile"
        # still count obligations
        pins = props.pinned(pid)
        res["obligations"] = len(pins)
        res["theorems"] = [n for n, _ in pins]
        return res
    pins = props.pinned(pid)
    res["obligations"] = len(pins)
    res["theorems"] = [n for n, _ in pins]
    gate = os.path.join(CACHE, f"gate_{pid}.v")
    os.makedirs(CACHE, exist_ok=True)
    with open(gate, "w") as f:
        f.write(P.get("gate_imports", "") + "\n")
        f.write(f"From Cel.Properties Require Import {pid}.\n")
        for name, stmt in pins:
            f.write(f'Goal True. idtac "@@BEGIN {name}". Abort.\n')
            f.write(f"Check ({name} : {stmt}).\n")
            f.write(f'Goal True. idtac "@@ASSUME {name}". Abort.\n')
            f.write(f"Print Assumptions {name}.\n")
            f.write(f'Goal True. idtac "@@END {name}". Abort.\n')
    rc, out = run(["timeout", "600", "coqc", "-noglob", "-Q", COQ, "Cel", gate], cwd=CACHE)
    for ext in (".vo", ".vok", ".vos", ".glob"):
        try:
            os.remove(gate[:-2] + ext)
        except OSError:
            pass
    # parse per theorem
    for name, stmt in pins:
        m = re.search(rf"@@BEGIN {re.escape(name)}\n(.*?)@@END {re.escape(name)}", out, re.S)
        if not m:
            res["ok"] = False
            res["detail"].append(f"{name}: statement no longer checks against its pin "
                                 f"(or coqc failed): {out[-1500:]}")
            res.setdefault("broken", f"theorem {name} (pinned statement does not check)")
            continue
        body = m.group(1)
        a = body.split(f"@@ASSUME {name}\n", 1)
        if len(a) != 2:
            res["ok"] = False
            res["detail"].append(f"{name}: Check failed")
            res.setdefault("broken", f"theorem {name}")
            continue
        assum = a[1].strip()
        if assum.startswith("Closed under the global context"):
            res["discharged"] += 1
            continue
        axs = re.findall(r"^([A-Za-z_][\w.']*)\s*:", assum, re.M)
        notallowed = [x for x in axs if x not in ALLOWED_AXIOMS]
        for x in axs:
            if x not in res["axioms"]:
                res["axioms"].append(x)
        if notallowed or not axs:
            res["ok"] = False
            res["detail"].append(f"{name}: depends on {notallowed or assum[:200]}")
            res.setdefault("broken", f"theorem {name} (assumptions not allowed)")
        else:
            res["discharged"] += 1
    if rc != 0 and res["ok"]:
        res["ok"] = False
        res["detail"].append("gate coqc failed: " + out[-1500:])
        res.setdefault("broken", "proof gate")
    return res


# --------------------------------------------------------------------------- builds

def build_driver():
    """(Re)build the extracted driver when model.ml is newer than the binary."""
    with Lock("driver"):
        rc, out = coq_build(["Extract.vo"])
        if rc != 0:
            return rc, out
        src = os.path.join(COQ, "model.ml")
        ddir = os.path.join(ROOT, "driver")
        if (not os.path.exists(DRIVER)
                or os.path.getmtime(src) > os.path.getmtime(DRIVER)
                or os.path.getmtime(os.path.join(ddir, "main.ml")) > os.path.getmtime(DRIVER)):
            run(["cp", src, os.path.join(COQ, "model.mli"), ddir])
            return run("ocamlfind ocamlopt -O3 -w -a model.mli model.ml main.ml -o modeldriver 2>&1",
                       cwd=ddir, timeout=600)
        return 0, ""


def build_harness(release=False, sync=True):
    """sync=False: without the thread-sharing stream (C05), for a tree whose Program / Context /
    Value are no longer Send + Sync - a violation of C05 alone; the other properties still get a
    verdict from a harness built without that stream."""
    with Lock("cargo"):
        hd = os.path.join(ROOT, "harness")
        run(["cp", "/repo/Cargo.lock", os.path.join(hd, "Cargo.lock")])
        env = dict(CARGO_NET_OFFLINE="true", CARGO_TARGET_DIR=TARGET,
                   RUSTFLAGS=f"--cfg {GUARD} -Awarnings")
        cmd = ["cargo", "build", "--offline", "-q"] + (["--release"] if release else []) + ([] if sync else ["--no-default-features"])
        rc, out = run(cmd, cwd=hd, env=env, timeout=1800)
        return rc, out


def harness_bin(release=False):
    return os.path.join(TARGET, "release" if release else "debug", "harness")


# --------------------------------------------------------------------------- streams

def run_harness(stream, tier, seed, release=False, extra=None):
    cmd = [harness_bin(release), stream, tier, str(seed)] + (extra or [])
    p = subprocess.run(cmd, stdout=subprocess.PIPE, stderr=subprocess.PIPE, text=True,
                       timeout=3600, errors="replace")
    lines = p.stdout.split("\n")
    if lines and lines[-1] == "":
        lines.pop()
    cases = []
    for ln in lines:
        parts = ln.split("\t")
        if len(parts) < 4:
            continue
        cases.append(parts[:4])
    return p.returncode, cases, p.stderr


def run_model(requests, shards=16):
    """Feed request lines to the extracted driver (sharded over processes)."""
    if not requests:
        return []
    n = len(requests)
    shards = max(1, min(shards, n // 2000 + 1))
    chunk = (n + shards - 1) // shards
    procs = []
    for i in range(shards):
        part = requests[i * chunk:(i + 1) * chunk]
        p = subprocess.Popen(["bash", "-c", f"ulimit -s unlimited 2>/dev/null || ulimit -s 1000000; exec {DRIVER}"],
                             stdin=subprocess.PIPE, stdout=subprocess.PIPE, text=True)
        procs.append((p, part))
    # write/read concurrently using threads to avoid pipe deadlock
    import threading
    outs = [None] * len(procs)

    def work(i, p, part):
        o, _ = p.communicate("\n".join(part) + "\n")
        outs[i] = o.split("\n")[:len(part)]

    ths = [threading.Thread(target=work, args=(i, p, part)) for i, (p, part) in enumerate(procs)]
    for t in ths:
        t.start()
    for t in ths:
        t.join()
    res = []
    for o in outs:
        res.extend(o)
    return res


def coq_crosscheck(pairs, tag):
    """Re-evaluate (request, driver answer) pairs inside Coq with vm_compute."""
    if not pairs:
        return 0, 0, ""
    path = os.path.join(CACHE, f"cases_{tag}.v")
    with open(path, "w") as f:
        f.write("From Cel.Model Require Import Driver.\nFrom Coq Require Import String.\n"
                "Open Scope string_scope.\n")
        for i, (req, ans) in enumerate(pairs):
            r = req.replace('"', '""')
            a = ans.replace('"', '""')
            f.write(f'Goal True. idtac "@@CASE {i}". Abort.\n')
            f.write(f'Eval vm_compute in String.eqb (handle_line "{r}") "{a}".\n')
    # vm_compute over long request strings recurses deeply: give coqc all the stack there is
    rc, out = run(f"ulimit -s unlimited 2>/dev/null || ulimit -s 1000000 2>/dev/null; "
                  f"exec timeout 900 coqc -noglob -Q {COQ} Cel {path}", cwd=CACHE)
    for ext in (".vo", ".vok", ".vos", ".glob"):
        try:
            os.remove(path[:-2] + ext)
        except OSError:
            pass
    ok = len(re.findall(r"= true\s*:\s*bool", out))
    return ok, len(pairs), ("" if ok == len(pairs) and rc == 0 else out[-2000:])


# --------------------------------------------------------------------------- sexp utils

def parse_sexp(s):
    toks = re.findall(r"\(|\)|[^\s()]+", s)
    stack = [[]]
    for t in toks:
        if t == "(":
            stack.append([])
        elif t == ")":
            x = stack.pop()
            stack[-1].append(x)
        else:
            stack[-1].append(t)
    return stack[0][0] if stack[0] else None


def unparse(x):
    if isinstance(x, list):
        return "(" + " ".join(unparse(y) for y in x) + ")"
    return x


def canon(x):
    """Canonical form: maps sorted by entry text, (crash n) -> (crash)."""
    if isinstance(x, list):
        if x and x[0] == "crash":
            return ["crash"]
        y = [canon(e) for e in x]
        if y and y[0] in ("map", "obj"):
            y = [y[0]] + sorted(y[1:], key=unparse)
        return y
    return x


def canon_str(s):
    if "(map" not in s and "(crash" not in s and "(obj" not in s:
        return s
    try:
        return unparse(canon(parse_sexp(s)))
    except Exception:
        return s


# --------------------------------------------------------------------------- known findings

def load_known(pid):
    path = os.path.join(ROOT, "known_findings.json")
    if not os.path.exists(path):
        return []
    return [k for k in json.load(open(path)) if k.get("property") == pid and k.get("status") == "known"]


def match_known(known, case):
    req, imp, tags, disp = case
    for k in known:
        m = k.get("matcher", {})
        if "kind_regex" in m and not re.search(m["kind_regex"], tags):
            continue
        if "request_regex" in m and not re.search(m["request_regex"], req):
            continue
        if "display_regex" in m and not re.search(m["display_regex"], disp):
            continue
        if "impl_regex" in m and not re.search(m["impl_regex"], imp):
            continue
        return k
    return None


# --------------------------------------------------------------------------- main

def tags_dict(t):
    d = {}
    for kv in t.split(";"):
        if "=" in kv:
            k, v = kv.split("=", 1)
            d[k] = v
    return d


def write_evidence(pid, ev):
    os.makedirs(EVID, exist_ok=True)
    with open(os.path.join(EVID, f"{pid}.json"), "w") as f:
        json.dump(ev, f, indent=1)


def write_replay(pid, obj):
    os.makedirs(REPLAY, exist_ok=True)
    h = hashlib.sha256(json.dumps(obj, sort_keys=True).encode()).hexdigest()[:12]
    path = os.path.join(REPLAY, f"{pid}_{h}.json")
    with open(path, "w") as f:
        json.dump(obj, f, indent=1)
    return path


def main():
    args = sys.argv[1:]
    if not args:
        print(__doc__)
        sys.exit(2)
    pid = args[0]
    tier = os.environ.get("VERIF_TIER", "quick")
    replay = None
    i = 1
    while i < len(args):
        if args[i] == "--tier":
            tier = args[i + 1]
            i += 2
        elif args[i] == "--replay":
            replay = args[i + 1]
            i += 2
        else:
            i += 1
    if tier not in ("quick", "thorough"):
        tier = "quick"
    seed = int(os.environ.get("VERIF_SEED", "1") or "1")
    if pid not in props.PROPS:
        log(f"unknown property {pid}")
        sys.exit(2)
    P = props.PROPS[pid]
    t0 = time.time()
    replay_obj = None
    if replay:
        replay_obj = json.load(open(replay))
        seed = replay_obj.get("seed", seed)
        tier = replay_obj.get("tier", tier)

    # 1. proof gate
    gate = proof_gate(pid)
    log(f"[{pid}] proof gate: {gate['discharged']}/{gate['obligations']} theorems, "
        f"{'ok' if gate['ok'] else 'BROKEN'}")
    for d in gate["detail"]:
        log("   " + d.replace("\n", "\n   "))

    # 2. builds
    rc, out = build_driver()
    if rc != 0:
        log("model/driver build failed:\n" + out[-3000:])
        gate["ok"] = False
        gate.setdefault("broken", "model does not build")
    rc, out = build_harness(False)
    nosync = False
    if rc != 0 and not P.get("build_failure_is_violation") and props.c05_build_failure(out):
        log("harness: Program / Context / Value are not Send + Sync on this tree (C05's concern); building without the thread-sharing stream")
        rc, out = build_harness(False, sync=False)
        nosync = True
    if rc != 0:
        if P.get("build_failure_is_violation") and P["build_failure_is_violation"](out):
            path = write_replay(pid, dict(property=pid, kind="failing-input",
                                          what="harness compile-time assertion failed",
                                          compiler_output=out[-4000:]))
            log(f"VIOLATION property={pid} replay={path}")
            sys.exit(1)
        log("harness does not build against /repo (unusable tree, no verdict):\n" + out[-4000:])
        sys.exit(2)
    profiles = [False]
    if tier == "thorough" and P.get("release_too"):
        rc, out = build_harness(True, sync=not nosync)
        if rc != 0:
            log("release harness build failed:\n" + out[-3000:])
            sys.exit(2)
        profiles.append(True)

    # 3. correspondence
    known = load_known(pid)
    all_cases = []
    stderr_all = ""
    for rel in profiles:
        for stream in P["streams"]:
            rc, cases, err = run_harness(stream, tier, seed, rel)
            if rc != 0:
                # abnormal exit (abort / stack overflow): the case after the last printed one
                stderr_all += err[-2000:]
                cases.append([f"(harness-died {stream})", "(crash)", "nt=1;kind=harness-abort",
                              f"harness exited with status {rc} after {len(cases)} cases: {err[-300:]}"])
            for c in cases:
                c.append("release" if rel else "debug")
            all_cases.extend(cases)
    corpus = props.corpus_cases(pid)
    requests = [c[0] for c in all_cases]
    model = run_model(requests) if gate.get("broken") != "model does not build" else ["(no-model)"] * len(requests)

    cmp_fn = P.get("compare", props.cmp_exact)
    disagreements = []
    known_hits = {}
    seen = set()
    nontrivial = set()
    kinds = {}
    outcomes = {}
    for c, m in zip(all_cases, model):
        req, imp, tags, disp, prof = c
        td = tags_dict(tags)
        kinds[td.get("kind", "?")] = kinds.get(td.get("kind", "?"), 0) + 1
        oc = imp.split(" ", 1)[0].strip("()")
        outcomes[oc] = outcomes.get(oc, 0) + 1
        key = hashlib.md5((req + "\x00" + disp).encode()).digest()
        if td.get("nt") == "1" and key not in nontrivial:
            nontrivial.add(key)
        seen.add(key)
        if req.startswith("(harness-died"):
            disagreements.append((c, m, "harness process died (abort/stack overflow/hang)"))
            continue
        verdict = cmp_fn(td, canon_str(imp), canon_str(m), c)
        if verdict is not None:
            k = match_known(known, c[:4])
            if k is not None:
                known_hits.setdefault(k["id"], (k, c, m))
            else:
                disagreements.append((c, m, verdict))

    # property predicates evaluated directly on the implementation's answers
    pred = P.get("predicate")
    pred_fail = []
    if pred:
        for c in all_cases:
            v = pred(tags_dict(c[2]), c)
            if v is not None:
                k = match_known(known, c[:4])
                if k is not None:
                    known_hits.setdefault(k["id"], (k, c, None))
                else:
                    pred_fail.append((c, v))

    # in-Coq cross-check of a sample (and of every disagreement)
    step = max(1, len(all_cases) // (50 if tier == "quick" else 400))
    # the sample takes, from every stride, the first case of moderate size (a request of tens of
    # kilobytes is a Coq string literal of that size: slow to read, nothing to do with the model)
    sample = []
    for j in range(0, len(all_cases), step):
        for k in range(j, min(j + step, len(all_cases))):
            if all_cases[k][0].startswith("(harness-died"):
                continue
            if len(all_cases[k][0]) + len(model[k]) <= 12000:
                sample.append((all_cases[k][0], model[k]))
                break
    sample = sample[:500]
    sample += [(c[0], m) for (c, m, _) in disagreements[:20] if not c[0].startswith("(harness")]
    xok, xn, xerr = coq_crosscheck(sample, pid)
    log(f"[{pid}] correspondence: {len(all_cases)} cases, {len(disagreements)} disagreements, "
        f"{len(pred_fail)} predicate failures; in-Coq cross-check {xok}/{xn}")
    extraction_ok = (xok == xn)
    if not extraction_ok:
        log("   extraction cross-check FAILED (driver and vm_compute differ):\n" + xerr)

    # 4. verdicts
    exit_code = 0
    violations = 0
    for kid, (k, c, m) in sorted(known_hits.items()):
        log(f"KNOWN-FINDING: property={pid} {k['description']} [e.g. {c[3]}]")
    if pred_fail or disagreements:
        violations = len(pred_fail) + len(disagreements)
        if pred_fail:
            c, why = pred_fail[0]
            obj = dict(property=pid, kind="failing-input", seed=seed, tier=tier,
                       input=c[3], request=c[0], impl=c[1], profile=c[4], tags=c[2],
                       failed_predicate=why, stream=P["streams"])
        else:
            c, m, why = disagreements[0]
            shr = props.describe_disagreement(pid, c, m, why)
            obj = dict(property=pid, kind=shr["kind"], seed=seed, tier=tier,
                       input=c[3], request=c[0], impl=c[1], model=m, profile=c[4], tags=c[2],
                       why=shr["why"], stream=P["streams"],
                       more=[dict(input=d[0][3], impl=d[0][1], model=d[1]) for d in disagreements[1:10]])
        path = write_replay(pid, obj)
        suffix = "" if obj["kind"] == "failing-input" else " no-failing-input-found"
        log(f"VIOLATION property={pid} replay={path}{suffix}")
        exit_code = 1
    elif not gate["ok"] or not extraction_ok:
        # the proof (or the model/extraction) no longer checks; the search above found no
        # failing input on this run
        violations = 1
        obj = dict(property=pid, kind="no-failing-input-found", seed=seed, tier=tier,
                   broken=gate.get("broken", "extraction cross-check"),
                   detail=gate["detail"][:5], searched_cases=len(all_cases))
        path = write_replay(pid, obj)
        log(f"VIOLATION property={pid} replay={path} no-failing-input-found")
        exit_code = 1

    # 5. evidence
    samples = []
    stepn = max(1, len(all_cases) // 6)
    for j in range(0, len(all_cases), stepn):
        c = all_cases[j]
        samples.append(dict(input=c[3], request=c[0], impl=c[1], model=model[j], profile=c[4]))
    ev = dict(
        property_id=pid, tier=tier, seed=seed, level="proof",
        coverage=dict(
            obligations=gate["obligations"], discharged=gate["discharged"],
            theorems=gate["theorems"],
            checker_cmd=f"make -C coq Properties/{pid}.vo && coqc gate_{pid}.v "
                        f"(Check <pinned statement> + Print Assumptions per theorem) && "
                        f"harness {' '.join(P['streams'])} | modeldriver | compare",
            trusted_base=BASE_TRUSTED + P.get("trusted_extra", []) +
            [f"axioms reported by Print Assumptions: {gate['axioms'] or 'none (Closed under the global context)'}"],
            evaluations=len(all_cases),
            distinct_nontrivial=len(nontrivial),
            rule=P["rule"],
            exhaustive=bool(P.get("exhaustive")),
            exhaustive_note=P.get("exhaustive_note", ""),
            traces_validated_against_impl=len(all_cases),
            disagreements_checked=len(disagreements),
            incoq_crosscheck=dict(agree=xok, of=xn),
            input_distribution=dict(kinds=dict(sorted(kinds.items())[:60]), impl_outcomes=outcomes),
            known_findings_hit=sorted(known_hits.keys()),
            corpus_cases=len(corpus),
            samples=samples[:8],
            profiles=["release" if r else "debug" for r in profiles],
        ),
        assumptions=P.get("assumptions", []),
        wall_s=round(time.time() - t0, 2),
        violations=violations,
    )
    write_evidence(pid, ev)
    log(f"[{pid}] {tier} done in {ev['wall_s']}s: exit {exit_code}")
    sys.exit(exit_code)


if __name__ == "__main__":
    main()
