#!/usr/bin/env python3
"""Re-run checks against an already confirmed seeded mutation.
usage: seedrun.py <name> <pid> [<pid>...]   (updates seeded/<name>/meta.json)"""
import json, os, shutil, subprocess, sys, time
name, pids = sys.argv[1], sys.argv[2:]
ROOT = "/verif"
d = os.path.join(ROOT, "seeded", name)
meta = json.load(open(os.path.join(d, "meta.json")))
def sh(cmd, cwd=None):
    p = subprocess.run(cmd, shell=True, cwd=cwd, stdout=subprocess.PIPE, stderr=subprocess.STDOUT, text=True)
    return p.returncode, p.stdout
rc, out = sh("git -C /repo status --porcelain")
assert out.strip() == "", "repo dirty"
rc, out = sh(f"git -C /repo apply {d}/patch.diff")
assert rc == 0, out
try:
    for pid in pids:
        t = time.time()
        rc, out = sh(f"./check {pid} --tier quick", ROOT)
        viol = [l for l in out.split("\n") if l.startswith("VIOLATION")]
        detail = ""
        if viol:
            try:
                rp = viol[0].split("replay=")[1].split()[0]
                r = json.load(open(rp))
                detail = f"{r.get('kind')}: {str(r.get('input'))[:160]} | impl {str(r.get('impl'))[:80]} | model {str(r.get('model'))[:80]}"
            except Exception as e:
                detail = str(e)
        meta.setdefault("checks", {})[pid] = dict(exit=rc, violation=viol[:1], detail=detail, wall_s=round(time.time() - t, 1))
        print(pid, "exit", rc, viol[:1], detail)
finally:
    sh("git -C /repo checkout -- .")
    shutil.rmtree(os.path.join(ROOT, "replay"), ignore_errors=True)
meta["caught_by"] = [p for p, c in meta["checks"].items() if c["exit"] == 1]
json.dump(meta, open(os.path.join(d, "meta.json"), "w"), indent=1)
# the runs above rewrote evidence/<pid>.json from the PATCHED tree: restore the committed files
sh("git -C /verif checkout -- " + " ".join(f"evidence/{p}.json" for p in pids))
