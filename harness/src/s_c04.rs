//! C04: parsing preserves precedence, associativity and grouping.  Trees are rendered fully
//! and minimally parenthesised, parsed by the real parser, and compared with the tree.
use crate::rng::Rng;
use crate::s_c01::parse_impl;
use crate::wire::*;
use crate::Emit;

#[derive(Clone, Debug)]
pub enum T {
    Id(&'static str),
    Int(i64),
    /// a double literal: source spelling (with its sign, if any)
    Dbl(&'static str),
    /// a string literal: (source spelling, value)
    Str(&'static str, &'static str),
    /// a bytes literal: (source spelling, value)
    Bytes(&'static str, &'static [u8]),
    Cond(Box<T>, Box<T>, Box<T>),
    Bin(&'static str, Box<T>, Box<T>),
    Not(Box<T>),
    Neg(Box<T>),
    Sel(Box<T>, &'static str),
    Idx(Box<T>, Box<T>),
    MCall(Box<T>, &'static str, Vec<T>),
    GCall(&'static str, Vec<T>),
    List(Vec<T>),
    Map(Vec<(T, T)>),
    /// a message literal: leading dot, dotted type name, fields
    Msg(bool, Vec<&'static str>, Vec<(&'static str, T)>),
    /// a list, map or message literal written with the optional trailing comma
    Trail(Box<T>),
    /// `.x`: an identifier with a leading dot
    DotId(&'static str),
    /// `.f(args)`: a global call with a leading dot (kept in the name)
    DotCall(&'static str, Vec<T>),
    /// a.`f`: selection of a back-quoted field (the name keeps its back quotes)
    SelEsc(Box<T>, &'static str),
}

const REL: [&str; 7] = ["<", "<=", ">=", ">", "==", "!=", "in"];
const ADD: [&str; 2] = ["+", "-"];
const MUL: [&str; 3] = ["*", "/", "%"];

fn prec(t: &T) -> u32 {
    match t {
        T::Cond(..) => 1,
        T::Bin(op, ..) => match *op {
            "||" => 2,
            "&&" => 3,
            o if REL.contains(&o) => 4,
            o if ADD.contains(&o) => 5,
            _ => 6,
        },
        T::Not(_) | T::Neg(_) => 7,
        T::Int(i) if *i < 0 => 7, // a signed literal behaves like a prefix form after '-'
        T::Dbl(t) if t.starts_with('-') => 7,
        T::Sel(..) | T::Idx(..) | T::MCall(..) | T::SelEsc(..) => 8,
        _ => 9,
    }
}

fn op_name(op: &str) -> String {
    match op {
        "in" => "@in".to_string(),
        o => format!("_{}_", o),
    }
}

/// The parse-time macro expansions, written out from the CEL macro definitions: the expected
/// tree of `r.m(x, args...)`; None when (m, argument count) is not a macro.
fn macro_expected(r: &T, m: &str, args: &[T]) -> Option<String> {
    let arity_ok = match m {
        "all" | "exists" | "exists_one" | "existsOne" | "filter" => args.len() == 2,
        "map" => args.len() == 2 || args.len() == 3,
        _ => false,
    };
    if !arity_ok {
        return None;
    }
    let x = match &args[0] {
        T::Id(x) => *x,
        _ => panic!("macro variable must be a name"),
    };
    let accu = "(id 64 114 101 115 117 108 116)".to_string();
    let call = |f: &str, a: &[String]| format!("(call {} none {})", sx_str(f), a.join(" "));
    let t = "(lit (bool true))".to_string();
    let p = expected(&args[1]);
    let (init, cond, step, res) = match m {
        "all" => (t.clone(), call("@not_strictly_false", &[accu.clone()]), call("_&&_", &[accu.clone(), p]), accu.clone()),
        "exists" => ("(lit (bool false))".to_string(), call("@not_strictly_false", &[call("!_", &[accu.clone()])]),
                     call("_||_", &[accu.clone(), p]), accu.clone()),
        "exists_one" | "existsOne" => ("(lit (int 0))".to_string(), t.clone(),
                     call("_?_:_", &[p, call("_+_", &[accu.clone(), "(lit (int 1))".to_string()]), accu.clone()]),
                     call("_==_", &[accu.clone(), "(lit (int 1))".to_string()])),
        "filter" => ("(list)".to_string(), t.clone(),
                     call("_?_:_", &[p, call("_+_", &[accu.clone(), format!("(list {})", expected(&args[0]))]), accu.clone()]), accu.clone()),
        _ => {
            let f = expected(&args[args.len() - 1]);
            let step = call("_+_", &[accu.clone(), format!("(list {})", f)]);
            let step = if args.len() == 3 { call("_?_:_", &[p, step, accu.clone()]) } else { step };
            ("(list)".to_string(), t.clone(), step, accu.clone())
        }
    };
    Some(format!("(comp {} {} {} {} {} {} {})", expected(r), sx_str(x), sx_str("@result"), init, cond, step, res))
}

pub fn expected(t: &T) -> String {
    match t {
        T::Id(n) => {
            let mut o = String::from("(id");
            str_cps(n, &mut o);
            o.push(')');
            o
        }
        T::Int(i) => format!("(lit (int {}))", i),
        T::Dbl(t) => format!("(lit {})", sx_f64(t.parse::<f64>().unwrap())),
        T::Str(_, v) => format!("(lit {})", sx_str(v)),
        T::Bytes(_, v) => format!("(lit (bytes{}))", v.iter().map(|b| format!(" {}", b)).collect::<String>()),
        T::Cond(c, a, b) => format!("(call {} none {} {} {})", sx_str("_?_:_"), expected(c), expected(a), expected(b)),
        T::Bin(op, a, b) => format!("(call {} none {} {})", sx_str(&op_name(op)), expected(a), expected(b)),
        T::Not(a) => format!("(call {} none {})", sx_str("!_"), expected(a)),
        T::Neg(a) => format!("(call {} none {})", sx_str("-_"), expected(a)),
        T::Sel(a, f) => format!("(sel {} {} false)", expected(a), sx_str(f)),
        T::Idx(a, i) => format!("(call {} none {} {})", sx_str("_[_]"), expected(a), expected(i)),
        T::MCall(r, f, args) if macro_expected(r, f, args).is_some() => macro_expected(r, f, args).unwrap(),
        T::GCall("has", args) if args.len() == 1 => match &args[0] {
            T::Sel(a, f) => format!("(sel {} {} true)", expected(a), sx_str(f)),
            _ => panic!("has() needs a field selection"),
        },
        T::MCall(r, f, args) => {
            let mut o = format!("(call {} (some {})", sx_str(f), expected(r));
            for a in args {
                o.push(' ');
                o.push_str(&expected(a));
            }
            o.push(')');
            o
        }
        T::GCall(f, args) => {
            let mut o = format!("(call {} none", sx_str(f));
            for a in args {
                o.push(' ');
                o.push_str(&expected(a));
            }
            o.push(')');
            o
        }
        T::List(es) => {
            let mut o = String::from("(list");
            for a in es {
                o.push(' ');
                o.push_str(&expected(a));
            }
            o.push(')');
            o
        }
        T::Map(es) => {
            let mut o = String::from("(map");
            for (k, v) in es {
                o.push_str(&format!(" ({} {})", expected(k), expected(v)));
            }
            o.push(')');
            o
        }
        T::Trail(a) => expected(a),
        T::DotId(n) => expected(&T::Id(n)),
        T::DotCall(f, args) => {
            let mut o = format!("(call {} none", sx_str(&format!(".{}", f)));
            for a in args {
                o.push(' ');
                o.push_str(&expected(a));
            }
            o.push(')');
            o
        }
        T::SelEsc(a, f) => format!("(sel {} {} false)", expected(a), sx_str(&format!("`{}`", f))),
        T::Msg(lead, names, fields) => {
            let name = format!("{}{}", if *lead { "." } else { "" }, names.join("."));
            let mut o = format!("(struct {}", sx_str(&name));
            for (n, v) in fields {
                o.push_str(&format!(" ({} {})", sx_str(n), expected(v)));
            }
            o.push(')');
            o
        }
    }
}

fn commas(ts: &[T], f: &dyn Fn(&T) -> String) -> String {
    ts.iter().map(|t| f(t)).collect::<Vec<_>>().join(", ")
}

/// every operand wrapped in parentheses
pub fn print_full(t: &T) -> String {
    let p = |x: &T| format!("({})", print_full(x));
    match t {
        T::Id(n) => n.to_string(),
        T::Int(i) => format!("{}", i),
        T::Dbl(t) => t.to_string(),
        T::Str(src, _) | T::Bytes(src, _) => src.to_string(),
        T::Cond(c, a, b) => format!("{} ? {} : {}", p(c), p(a), p(b)),
        T::Bin(op, a, b) => format!("{} {} {}", p(a), op, p(b)),
        T::Not(a) => format!("!{}", p(a)),
        T::Neg(a) => format!("-{}", p(a)),
        T::Sel(a, f) => format!("{}.{}", p(a), f),
        T::Idx(a, i) => format!("{}[{}]", p(a), p(i)),
        T::MCall(r, f, args) => format!("{}.{}({})", p(r), f, commas(args, &|x| p(x))),
        T::GCall(f, args) => format!("{}({})", f, commas(args, &|x| p(x))),
        T::List(es) => format!("[{}]", commas(es, &|x| p(x))),
        T::Map(es) => format!("{{{}}}", es.iter().map(|(k, v)| format!("{}: {}", p(k), p(v))).collect::<Vec<_>>().join(", ")),
        T::Msg(lead, names, fields) => format!("{}{}{{{}}}", if *lead { "." } else { "" }, names.join("."),
                                               fields.iter().map(|(n, v)| format!("{}: {}", n, p(v))).collect::<Vec<_>>().join(", ")),
        T::Trail(a) => with_trailing_comma(print_full(a)),
        T::DotId(n) => format!(".{}", n),
        T::DotCall(f, args) => format!(".{}({})", f, commas(args, &|x| p(x))),
        T::SelEsc(a, f) => format!("{}.`{}`", p(a), f),
    }
}

/// `[a, b]` -> `[a, b,]`, `[]` -> `[,]` (the same for braces)
fn with_trailing_comma(mut s: String) -> String {
    let close = s.pop().unwrap();
    s.push(',');
    s.push(close);
    s
}

/// minimal parentheses under CEL's precedence table
pub fn print_min(t: &T) -> String {
    let at = |x: &T, need: u32| -> String {
        if prec(x) < need {
            format!("({})", print_min(x))
        } else {
            print_min(x)
        }
    };
    match t {
        T::Id(n) => n.to_string(),
        T::Int(i) => format!("{}", i),
        T::Dbl(t) => t.to_string(),
        T::Str(src, _) | T::Bytes(src, _) => src.to_string(),
        // condition and then-branch are conditionalOr; the else-branch is a full expr
        T::Cond(c, a, b) => format!("{} ? {} : {}", at(c, 2), at(a, 2), at(b, 1)),
        T::Bin(op, a, b) => {
            let l = prec(t);
            if l <= 3 {
                // a logical-operator child of the same operator is parenthesised
                format!("{} {} {}", at(a, l + 1), op, at(b, l + 1))
            } else {
                format!("{} {} {}", at(a, l), op, at(b, l + 1))
            }
        }
        // a prefix-operator (or signed literal) child of a prefix operator is parenthesised
        T::Not(a) => format!("!{}", if matches!(**a, T::Int(i) if i < 0) || matches!(**a, T::Dbl(t) if t.starts_with('-')) { print_min(a) } else { at(a, 8) }),
        // '-' directly before a number belongs to the literal, so such an operand is parenthesised
        T::Neg(a) => {
            if starts_with_number(a) {
                format!("-({})", print_min(a))
            } else {
                format!("-{}", at(a, 8))
            }
        }
        T::Sel(a, f) => format!("{}.{}", at(a, 8), f),
        T::Idx(a, i) => format!("{}[{}]", at(a, 8), print_min(i)),
        T::MCall(r, f, args) => format!("{}.{}({})", at(r, 8), f, commas(args, &|x| print_min(x))),
        T::GCall(f, args) => format!("{}({})", f, commas(args, &|x| print_min(x))),
        T::List(es) => format!("[{}]", commas(es, &|x| print_min(x))),
        T::Map(es) => format!("{{{}}}", es.iter().map(|(k, v)| format!("{}: {}", print_min(k), print_min(v))).collect::<Vec<_>>().join(", ")),
        T::Msg(lead, names, fields) => format!("{}{}{{{}}}", if *lead { "." } else { "" }, names.join("."),
                                               fields.iter().map(|(n, v)| format!("{}: {}", n, print_min(v))).collect::<Vec<_>>().join(", ")),
        T::Trail(a) => with_trailing_comma(print_min(a)),
        T::DotId(n) => format!(".{}", n),
        T::DotCall(f, args) => format!(".{}({})", f, commas(args, &|x| print_min(x))),
        T::SelEsc(a, f) => format!("{}.`{}`", at(a, 8), f),
    }
}

fn starts_with_number(t: &T) -> bool {
    match t {
        T::Int(i) => *i >= 0,
        T::Dbl(t) => !t.starts_with('-'),
        T::Sel(a, _) | T::Idx(a, _) | T::MCall(a, _, _) | T::SelEsc(a, _) => prec(a) >= 8 && starts_with_number(a),
        _ => false,
    }
}

fn leaves() -> Vec<T> {
    vec![T::Id("a"), T::Int(1)]
}

/// all trees with exactly n operators
fn trees(n: u32, memo: &mut Vec<Option<Vec<T>>>) -> Vec<T> {
    if let Some(Some(v)) = memo.get(n as usize) {
        return v.clone();
    }
    let mut res = Vec::new();
    if n == 0 {
        res = leaves();
    } else {
        let m = n - 1;
        // unary shapes
        for a in trees(m, memo) {
            res.push(T::Not(Box::new(a.clone())));
            res.push(T::Neg(Box::new(a.clone())));
            res.push(T::Sel(Box::new(a.clone()), "f"));
            res.push(T::GCall("g", vec![a.clone()]));
            res.push(T::List(vec![a.clone()]));
        }
        // binary shapes
        for i in 0..=m {
            let ls = trees(i, memo);
            let rs = trees(m - i, memo);
            for l in &ls {
                for r in &rs {
                    for op in ["||", "&&"].iter().chain(REL.iter()).chain(ADD.iter()).chain(MUL.iter()) {
                        res.push(T::Bin(op, Box::new(l.clone()), Box::new(r.clone())));
                    }
                    res.push(T::Idx(Box::new(l.clone()), Box::new(r.clone())));
                    res.push(T::MCall(Box::new(l.clone()), "m", vec![r.clone()]));
                    res.push(T::Map(vec![(l.clone(), r.clone())]));
                }
            }
        }
        // ternary
        for i in 0..=m {
            for j in 0..=(m - i) {
                let k = m - i - j;
                for c in trees(i, memo) {
                    for a in trees(j, memo) {
                        for b in trees(k, memo) {
                            res.push(T::Cond(Box::new(c.clone()), Box::new(a.clone()), Box::new(b.clone())));
                        }
                    }
                }
            }
        }
    }
    while memo.len() <= n as usize {
        memo.push(None);
    }
    memo[n as usize] = Some(res.clone());
    res
}

fn random_tree(rng: &mut Rng, depth: u32) -> T {
    if depth == 0 || rng.chance(1, 6) {
        return match rng.below(5) {
            0 => T::Id("a"),
            1 => T::Id("bb"),
            2 => match rng.below(4) {
                0 => rng.pick(&[T::Str("'s'", "s"), T::Str("\"a\\n\\u00e9\"", "a\né"), T::Str("''", ""), T::Str("'\\x41\\101\\\\'", "AA\\"),
                                 T::Str("\"it's\"", "it's"), T::Str("'\\U0001F600 é'", "😀 é")]).clone(),
                1 => rng.pick(&[T::Bytes("b'ab'", b"ab"), T::Bytes("B\"\\xff\\377é\"", &[255, 255, 0xc3, 0xa9]), T::Bytes("b''", b"")]).clone(),
                _ => T::Int(rng.range(0, 9)),
            },
            3 => if rng.chance(1, 2) { T::Int(-rng.range(1, 9)) } else { T::Dbl(*rng.pick(&["1.5", "-1.5", "0.0", "2e3", "-2.5e-3", ".5", "1e10", "-0.0", "3.14159"])) },
            _ => if rng.chance(1, 6) { T::DotId(*rng.pick(&["x", "a"])) } else { T::Id("x") },
        };
    }
    let d = depth - 1;
    let b = |rng: &mut Rng| Box::new(random_tree(rng, d));
    match rng.below(14) {
        0 => T::Cond(b(rng), b(rng), b(rng)),
        1 => T::Bin("||", b(rng), b(rng)),
        2 => T::Bin("&&", b(rng), b(rng)),
        3 | 4 => T::Bin(*rng.pick(&REL[..]), b(rng), b(rng)),
        5 => T::Bin(*rng.pick(&ADD[..]), b(rng), b(rng)),
        6 => T::Bin(*rng.pick(&MUL[..]), b(rng), b(rng)),
        7 => T::Not(b(rng)),
        8 => T::Neg(b(rng)),
        9 => if rng.chance(1, 5) { T::SelEsc(b(rng), *rng.pick(&["f", "a.b", "x-y z", "0"])) } else { T::Sel(b(rng), "f") },
        10 => T::Idx(b(rng), b(rng)),
        11 => {
            if rng.chance(1, 3) {
                // a macro call: the expander runs around the receiver's and the arguments' trees
                let m = *rng.pick(&["all", "exists", "exists_one", "existsOne", "filter", "map", "map3"]);
                let x = T::Id(*rng.pick(&["x", "a", "it"]));
                if m == "map3" {
                    T::MCall(b(rng), "map", vec![x, random_tree(rng, d), random_tree(rng, d)])
                } else {
                    T::MCall(b(rng), m, vec![x, random_tree(rng, d)])
                }
            } else {
                // macro names at other argument counts are plain calls
                let n = rng.below(3);
                let f = if n != 2 && rng.chance(1, 4) { *rng.pick(&["all", "exists", "filter", "has"]) } else { "m" };
                T::MCall(b(rng), f, (0..n).map(|_| random_tree(rng, d)).collect())
            }
        }
        12 => {
            if rng.chance(1, 4) {
                T::GCall("has", vec![T::Sel(b(rng), "f")])
            } else if rng.chance(1, 5) {
                let n = rng.below(3);
                T::DotCall(*rng.pick(&["g", "has", "size"]), (0..n).map(|_| random_tree(rng, d)).collect())
            } else {
                let n = rng.below(3);
                let f = if n != 1 && rng.chance(1, 4) { "has" } else if rng.chance(1, 6) { *rng.pick(&["all", "map"]) } else { "g" };
                T::GCall(f, (0..n).map(|_| random_tree(rng, d)).collect())
            }
        }
        _ => {
            let trail = rng.chance(1, 4);
            let lit = if rng.chance(1, 4) {
                let n = rng.below(3);
                let names: Vec<&'static str> = match rng.below(3) { 0 => vec!["T"], 1 => vec!["pkg", "T"], _ => vec!["a", "b", "Msg"] };
                T::Msg(rng.chance(1, 3), names, (0..n).map(|i| (["f", "g", "h"][i as usize], random_tree(rng, d))).collect())
            } else if rng.chance(1, 2) {
                let n = rng.below(3);
                T::List((0..n).map(|_| random_tree(rng, d)).collect())
            } else {
                let n = rng.below(3);
                T::Map((0..n).map(|_| (random_tree(rng, d), random_tree(rng, d))).collect())
            };
            if trail { T::Trail(Box::new(lit)) } else { lit }
        }
    }
}

fn ops(t: &T) -> u32 {
    match t {
        T::Id(_) | T::Int(_) | T::Dbl(_) | T::Str(..) | T::Bytes(..) => 0,
        T::Cond(a, b, c) => 1 + ops(a) + ops(b) + ops(c),
        T::Bin(_, a, b) | T::Idx(a, b) => 1 + ops(a) + ops(b),
        T::Not(a) | T::Neg(a) | T::Sel(a, _) => 1 + ops(a),
        T::MCall(r, _, args) => 1 + ops(r) + args.iter().map(ops).sum::<u32>(),
        T::GCall(_, args) | T::List(args) => 1 + args.iter().map(ops).sum::<u32>(),
        T::Map(es) => 1 + es.iter().map(|(k, v)| ops(k) + ops(v)).sum::<u32>(),
        T::Msg(_, _, fs) => 1 + fs.iter().map(|(_, v)| ops(v)).sum::<u32>(),
        T::Trail(a) => ops(a),
        T::DotId(_) => 0,
        T::DotCall(_, args) => 1 + args.iter().map(ops).sum::<u32>(),
        T::SelEsc(a, _) => 1 + ops(a),
    }
}

/// Trees have a counterpart in the model's surface syntax (the round-trip theorem's domain):
/// its wire form, without / with the redundant parentheses of the fully parenthesised
/// rendering.  None: a '!' directly before a negative literal (print_min writes no parentheses there).
fn st_wire(t: &T, full: bool) -> Option<String> {
    let sub = |x: &T| -> Option<String> {
        let w = st_wire(x, full)?;
        Some(if full { format!("(paren {})", w) } else { w })
    };
    Some(match t {
        T::Id(n) => format!("(id {})", sx_str(n)),
        T::Cond(c, a, b) => format!("(cond {} {} {})", sub(c)?, sub(a)?, sub(b)?),
        T::Int(i) if *i >= 0 => format!("(lint {})", i),
        T::Int(i) => format!("(lneg {})", i),
        T::Dbl(t) if t.starts_with('-') => format!("(lnegdbl {})", sx_str(&t[1..])),
        T::Dbl(t) => format!("(ldbl {})", sx_str(t)),
        // print_min writes "!-1" without parentheses: not the minimal rendering of a surface tree
        T::Not(a) if !full && (matches!(**a, T::Int(i) if i < 0) || matches!(**a, T::Dbl(t) if t.starts_with('-'))) => return None,
        T::Str(src, v) => format!("(lstr {} {})", sx_str(src), sx_str(v)),
        T::Bytes(src, v) => format!("(lbytes {} (str{}))", sx_str(src), v.iter().map(|b| format!(" {}", b)).collect::<String>()),
        T::Not(a) => format!("(not 0 {})", sub(a)?),
        // '-' directly before a number would belong to the literal: print_min parenthesises it
        T::Neg(a) if !full && starts_with_number(a) => format!("(neg 0 (paren {}))", st_wire(a, full)?),
        T::Neg(a) => format!("(neg 0 {})", sub(a)?),
        T::Sel(a, f) => format!("(sel {} {})", sub(a)?, sx_str(f)),
        T::Idx(a, i) => format!("(idx {} {})", sub(a)?, sub(i)?),
        T::MCall(r, f, args) => {
            let mut o = format!("(mcall {} {}", sub(r)?, sx_str(f));
            for a in args {
                o.push(' ');
                o.push_str(&sub(a)?);
            }
            o.push(')');
            o
        }
        T::GCall(f, args) => {
            let mut o = format!("(call {}", sx_str(f));
            for a in args {
                o.push(' ');
                o.push_str(&sub(a)?);
            }
            o.push(')');
            o
        }
        T::List(es) => {
            let mut o = String::from("(list");
            for a in es {
                o.push(' ');
                o.push_str(&sub(a)?);
            }
            o.push(')');
            o
        }
        T::Map(es) => {
            let mut o = String::from("(map");
            for (k, v) in es {
                o.push_str(&format!(" ({} {})", sub(k)?, sub(v)?));
            }
            o.push(')');
            o
        }
        T::Trail(a) => {
            // the same form under the tag of the trailing-comma constructor
            let w = st_wire(a, full)?;
            let (tag, rest) = w[1..].split_once(|c| c == ' ' || c == ')').map(|(t, _)| (t.to_string(), w[1 + t.len()..].to_string()))?;
            format!("({}t{}", tag, rest)
        }
        T::DotId(n) => format!("(dotid {})", sx_str(n)),
        T::DotCall(f, args) => {
            let mut o = format!("(dotcall {}", sx_str(f));
            for a in args {
                o.push(' ');
                o.push_str(&sub(a)?);
            }
            o.push(')');
            o
        }
        T::SelEsc(a, f) => format!("(selesc {} {})", sub(a)?, sx_str(&format!("`{}`", f))),
        T::Msg(lead, names, fields) => {
            let mut o = format!("(msg {} (names{})", lead, names.iter().map(|n| format!(" {}", sx_str(n))).collect::<String>());
            for (n, v) in fields {
                o.push_str(&format!(" ({} {})", sx_str(n), sub(v)?));
            }
            o.push(')');
            o
        }
        T::Bin(op, a, b) => {
            let (a, b) = (sub(a)?, sub(b)?);
            match *op {
                "||" => format!("(or {} {})", a, b),
                "&&" => format!("(and {} {})", a, b),
                "*" => format!("(mul star {} {})", a, b),
                "/" => format!("(mul slash {} {})", a, b),
                "%" => format!("(mul percent {} {})", a, b),
                "+" => format!("(add plus {} {})", a, b),
                "-" => format!("(add minus {} {})", a, b),
                "<" => format!("(rel lt {} {})", a, b),
                "<=" => format!("(rel le {} {})", a, b),
                ">=" => format!("(rel ge {} {})", a, b),
                ">" => format!("(rel gt {} {})", a, b),
                "==" => format!("(rel eq {} {})", a, b),
                "!=" => format!("(rel ne {} {})", a, b),
                "in" => format!("(rel in {} {})", a, b),
                _ => return None,
            }
        }
        _ => return None,
    })
}

fn emit_tree(em: &mut Emit, t: &T, kind: &str) {
    let exp = format!("(ok {})", expected(t));
    let nt = (ops(t) >= 2) as u8;
    for (style, src) in [("full", print_full(t)), ("min", print_min(t))] {
        let got = parse_impl(&src);
        // the property itself, on the implementation: compile(render(tree)) == tree
        let law = if got == exp { "(bool true)".to_string() } else { format!("(law-violated roundtrip-{} got {})", style, got) };
        em.case("(echo (bool true))", &law, &format!("nt={};kind=law-{}-{}", nt, kind, style), &src);
        // and the correspondence of the model's parser on the same text
        em.case(&format!("(compile {})", sx_str(&src)), &got, &format!("nt={};kind={}-{}", nt, kind, style), &src);
        // the domain of the round-trip theorem: the real lexer's tokens are the model's rendering
        // of the tree, and the real parser's AST is the tree's AST
        if let Some(w) = st_wire(t, style == "full") {
            em.case(&format!("(c04 {} {})", w, sx_str(&src)), &format!("(c04 true {})", got), &format!("nt={};kind=surface-{}-{}", nt, kind, style), &src);
        }
    }
}

/// longer chains and prefix runs in the surface syntax
fn emit_surface_chains(em: &mut Emit) {
    for (op, tag) in [("&&", "and"), ("||", "or")] {
        for n in 2..=24usize {
            let src = (0..n).map(|i| format!("t{}", i)).collect::<Vec<_>>().join(&format!(" {} ", op));
            let w = format!("({}{})", tag, (0..n).map(|i| format!(" (id {})", sx_str(&format!("t{}", i)))).collect::<String>());
            em.case(&format!("(c04 {} {})", w, sx_str(&src)), &format!("(c04 true {})", parse_impl(&src)), "nt=1;kind=surface-chain", &src);
        }
    }
    for (op, tag) in [("!", "not"), ("-", "neg")] {
        for n in 1..=7usize {
            for (operand, ow) in [("a", format!("(id {})", sx_str("a"))), ("(a + b)", format!("(add plus (id {}) (id {}))", sx_str("a"), sx_str("b")))] {
                let src = format!("{}{}", op.repeat(n), operand);
                let w = format!("({} {} {})", tag, n - 1, ow);
                em.case(&format!("(c04 {} {})", w, sx_str(&src)), &format!("(c04 true {})", parse_impl(&src)), "nt=1;kind=surface-prefix-run", &src);
            }
        }
    }
    // left-associative chains of one level, mixed operators
    for (ops, tag, names) in [(vec!["+", "-"], "add", vec!["plus", "minus"]), (vec!["*", "/", "%"], "mul", vec!["star", "slash", "percent"]),
                              (vec!["<", "==", "in"], "rel", vec!["lt", "eq", "in"])] {
        for n in 2..=12usize {
            let mut src = "t0".to_string();
            let mut w = format!("(id {})", sx_str("t0"));
            for i in 1..n {
                let k = i % ops.len();
                src = format!("{} {} t{}", src, ops[k], i);
                w = format!("({} {} {} (id {}))", tag, names[k], w, sx_str(&format!("t{}", i)));
            }
            em.case(&format!("(c04 {} {})", w, sx_str(&src)), &format!("(c04 true {})", parse_impl(&src)), "nt=1;kind=surface-left-assoc", &src);
        }
    }
}

pub fn run(em: &mut Emit, thorough: bool, seed: u64) {
    emit_surface_chains(em);
    let mut memo = Vec::new();
    let maxops = if thorough { 3 } else { 2 };
    for n in 0..=maxops {
        for t in trees(n, &mut memo) {
            emit_tree(em, &t, "exh");
        }
    }
    // && / || chains of every length up to 64, operands in source order
    for op in ["&&", "||"] {
        for n in 2..=64usize {
            let terms: Vec<String> = (0..n).map(|i| format!("t{}", i)).collect();
            let src = terms.join(&format!(" {} ", op));
            em.case(&format!("(compile {})", sx_str(&src)), &parse_impl(&src), "nt=1;kind=chain", &src);
            // mixed chain: a || b && c || d ...
            let mixed: String = (0..n).map(|i| format!("t{}", i)).collect::<Vec<_>>().iter().enumerate()
                .map(|(i, t)| if i == 0 { t.clone() } else { format!(" {} {}", if i % 3 == 0 { "||" } else { op }, t) }).collect();
            em.case(&format!("(compile {})", sx_str(&mixed)), &parse_impl(&mixed), "nt=1;kind=chain-mixed", &mixed);
        }
    }
    // prefix runs 1..6 on identifier, literal and parenthesised operands
    for op in ["!", "-"] {
        for n in 1..=6usize {
            for operand in ["a", "1", "(a)", "(1)", "a.b", "f(a)", "[a]", "(a + 1)", "1u", "1.5", "-1", "(-1)"] {
                for sep in ["", " "] {
                    let src = format!("{}{}", vec![op; n].join(sep), operand);
                    em.case(&format!("(compile {})", sx_str(&src)), &parse_impl(&src), "nt=1;kind=prefix-run", &src);
                }
            }
        }
    }
    // macros around receivers and arguments that themselves contain macros
    for r in ["l", "l.map(y, y + 1)", "l.filter(y, y > 0)", "[l.all(z, z)]", "a ? l : m", "(l + m)"] {
        for b in ["x", "x > 1", "l.exists(y, y == x)", "m.map(z, z.all(w, w))", "has(x.f)", "x ? a : b", "x || y && z"] {
            for m in ["all", "exists", "exists_one", "map", "filter"] {
                let src = format!("{}.{}(x, {})", r, m, b);
                em.case(&format!("(compile {})", sx_str(&src)), &parse_impl(&src), "nt=1;kind=macro-around", &src);
            }
            let src = format!("{}.map(x, {}, {})", r, b, b);
            em.case(&format!("(compile {})", sx_str(&src)), &parse_impl(&src), "nt=1;kind=macro-around", &src);
        }
    }
    let mut rng = Rng::new(seed ^ 0xC04);
    for _ in 0..(if thorough { 200_000 } else { 10_000 }) {
        let d = 1 + rng.below(7) as u32;
        let t = random_tree(&mut rng, d);
        emit_tree(em, &t, "rnd");
    }
}
