//! C17: host data -> CEL values.  Every value of the "any serde type" generator goes through
//! cel_interpreter::to_value (model: to_value) and through serde_json::to_value (model:
//! json_direct); every serde_json document goes through to_value (model: unjson).  The
//! commutation law is evaluated on the implementation's own answers whenever the data is
//! JSON-representable (no bytes, no duration wrapper, text-distinct keys).
use crate::rng::Rng;
use crate::sdata::*;
use crate::wire::*;
use crate::{guarded, Emit};
use cel_interpreter::{to_value, Value};

pub fn sx_ser(r: &Result<Value, cel_interpreter::SerializationError>) -> String {
    match r {
        Ok(v) => format!("(ok {})", sx_value_iter_order(v)),
        Err(_) => "(err invalid)".into(),
    }
}

pub fn sx_json_result<E>(r: &Result<serde_json::Value, E>, err: &str) -> String {
    match r {
        Ok(j) => format!("(ok {})", json_wire(j)),
        Err(_) => format!("(err {})", err),
    }
}

fn kind_of(d: &SData) -> &'static str {
    match d {
        SData::Bool(_) => "bool",
        SData::I8(_) | SData::I16(_) | SData::I32(_) | SData::I64(_) => "int",
        SData::U8(_) | SData::U16(_) | SData::U32(_) | SData::U64(_) => "uint",
        SData::I128(_) | SData::U128(_) => "big",
        SData::F32(_) | SData::F64(_) => "float",
        SData::Char(_) => "char",
        SData::Str(_) => "str",
        SData::Bytes(_) => "bytes",
        SData::None | SData::Some(_) => "option",
        SData::Unit | SData::UnitStruct(_) => "unit",
        SData::UnitVariant(..) => "unitvariant",
        SData::NewtypeStruct(..) => "newtype",
        SData::NewtypeVariant(..) => "newtypevariant",
        SData::Seq(..) => "seq",
        SData::Tuple(_) => "tuple",
        SData::TupleStruct(..) => "tuplestruct",
        SData::TupleVariant(..) => "tuplevariant",
        SData::Map(..) => "map",
        SData::Struct(..) => "struct",
        SData::StructVariant(..) => "structvariant",
        SData::Duration(_) => "duration",
        SData::Timestamp(_) => "timestamp",
    }
}

/// Keys the two key serializers render; None when either rejects.
fn key_text(d: &SData) -> Option<String> {
    match d {
        SData::Bool(b) => Some(b.to_string()),
        SData::I8(v) => Some(v.to_string()),
        SData::I16(v) => Some(v.to_string()),
        SData::I32(v) => Some(v.to_string()),
        SData::I64(v) => Some(v.to_string()),
        SData::U8(v) => Some(v.to_string()),
        SData::U16(v) => Some(v.to_string()),
        SData::U32(v) => Some(v.to_string()),
        SData::U64(v) => Some(v.to_string()),
        SData::Char(c) => Some(c.to_string()),
        SData::Str(s) => Some(s.clone()),
        SData::UnitVariant(_, _, v) => Some(v.to_string()),
        SData::NewtypeStruct(_, d) => key_text(d),
        _ => None,
    }
}

/// JSON-representable: no bytes, 128-bit integers or duration / timestamp wrapper anywhere, every map key
/// of a kind both serializers accept, and key texts distinct within each map / struct.
pub fn json_representable(d: &SData) -> bool {
    let distinct = |ks: Vec<String>| {
        let mut s = ks.clone();
        s.sort();
        s.dedup();
        s.len() == ks.len()
    };
    match d {
        SData::Bytes(_) | SData::I128(_) | SData::U128(_) | SData::Duration(_) | SData::Timestamp(_) => false,
        SData::Some(x) | SData::NewtypeStruct(_, x) | SData::NewtypeVariant(_, _, _, x) => json_representable(x),
        SData::Seq(l, _) | SData::Tuple(l) | SData::TupleStruct(_, l) | SData::TupleVariant(_, _, _, l) => {
            l.iter().all(json_representable)
        }
        SData::Map(es, _, _) => {
            let ks: Option<Vec<String>> = es.iter().map(|(k, _)| key_text(k)).collect();
            match ks {
                Some(ks) => distinct(ks) && es.iter().all(|(_, v)| json_representable(v)),
                None => false,
            }
        }
        SData::Struct(_, fs) | SData::StructVariant(_, _, _, fs) => {
            distinct(fs.iter().map(|(k, _)| k.to_string()).collect()) && fs.iter().all(|(_, v)| json_representable(v))
        }
        _ => true,
    }
}

fn emit_sdata(em: &mut Emit, d: &SData, tag: &str) {
    let wire = sdata_wire(d);
    let disp = format!("{:?}", d);
    let d1 = d.clone();
    let imp = guarded(move || sx_ser(&to_value(&d1)));
    em.case(&format!("(ser {})", wire), &imp, &format!("nt=1;kind=ser-{};top={}", tag, kind_of(d)), &disp);
    let d2 = d.clone();
    let direct = guarded(move || sx_json_result(&serde_json::to_value(&d2), "invalid"));
    em.case(&format!("(serjson {})", wire), &direct, &format!("nt=1;kind=serjson-{};top={}", tag, kind_of(d)), &disp);
    if json_representable(d) {
        let d3 = d.clone();
        let law = guarded(move || {
            let via = to_value(&d3).map_err(|e| e.to_string()).and_then(|v| v.json().map_err(|e| e.to_string()));
            let dir = serde_json::to_value(&d3).map_err(|e| e.to_string());
            match (via, dir) {
                (Ok(a), Ok(b)) if a == b => "(bool true)".into(),
                (a, b) => format!("(law-violated commute via={:?} direct={:?})", a, b),
            }
        });
        em.case("(echo (bool true))", &law, &format!("nt=1;kind=law-commute-{}", tag), &disp);
    }
}

const PATH: &str = "user.address.city";

pub fn run(em: &mut Emit, thorough: bool, seed: u64) {
    let mut rng = Rng::new(seed ^ 0xC17);
    // every scalar constructor at its boundaries
    let mut fixed: Vec<SData> = vec![
        SData::Bool(true), SData::Bool(false), SData::I8(i8::MIN), SData::I8(i8::MAX), SData::I16(i16::MIN),
        SData::I16(i16::MAX), SData::I32(i32::MIN), SData::I32(i32::MAX), SData::I64(i64::MIN), SData::I64(i64::MAX),
        SData::U8(u8::MAX), SData::U16(u16::MAX), SData::U32(u32::MAX), SData::U64(u64::MAX), SData::U64(0),
        SData::I128(0), SData::I128(i128::MAX), SData::U128(u128::MAX), SData::U128(7),
        SData::F32(1.5), SData::F32(f32::NAN), SData::F32(f32::MAX), SData::F32(0.1), SData::F64(0.1),
        SData::F64(f64::NAN), SData::F64(f64::INFINITY), SData::F64(-0.0), SData::Char('a'), SData::Char('\u{10ffff}'),
        SData::Str(String::new()), SData::Str("héllo 😀".into()), SData::Bytes(vec![]), SData::Bytes(vec![0, 255, 97]),
        SData::None, SData::Some(Box::new(SData::None)), SData::Some(Box::new(SData::I8(3))), SData::Unit,
        SData::UnitStruct("Name"), SData::UnitVariant("E", 0, "A"), SData::NewtypeStruct("N", Box::new(SData::U8(1))),
        SData::NewtypeVariant("E", 1, "B", Box::new(SData::Str("x".into()))),
        SData::Seq(vec![], true), SData::Seq(vec![SData::I8(1), SData::Str("a".into())], false),
        SData::Tuple(vec![SData::Bool(true), SData::Unit]), SData::TupleStruct("T", vec![SData::F64(2.0)]),
        SData::TupleVariant("E", 2, "C", vec![SData::I64(1), SData::I64(2)]), SData::TupleVariant("E", 2, "C", vec![]),
        SData::Map(vec![], true, true),
        SData::Map(vec![(SData::Str("k".into()), SData::I64(1)), (SData::Str("k".into()), SData::I64(2))], true, true),
        SData::Map(vec![(SData::I64(1), SData::I64(1)), (SData::U64(1), SData::I64(2)), (SData::Str("1".into()), SData::I64(3))], false, false),
        SData::Map(vec![(SData::U8(1), SData::I64(1)), (SData::U16(2), SData::I64(2)), (SData::U32(3), SData::I64(3)), (SData::U64(4), SData::I64(4))], true, true),
        SData::Map(vec![(SData::I8(-1), SData::I64(1)), (SData::I16(-2), SData::I64(2)), (SData::I32(-3), SData::I64(3)), (SData::I64(-4), SData::I64(4))], true, false),
        SData::Map(vec![(SData::Char('k'), SData::U8(1)), (SData::UnitVariant("E", 0, "v"), SData::U8(2)), (SData::Bool(false), SData::U8(3))], true, false),
        SData::Map(vec![(SData::F64(1.0), SData::I64(1))], true, true),
        SData::Map(vec![(SData::Bytes(vec![1]), SData::I64(1))], true, true),
        SData::Map(vec![(SData::None, SData::I64(1))], true, true),
        SData::Map(vec![(SData::Unit, SData::I64(1))], true, false),
        SData::Map(vec![(SData::Seq(vec![], true), SData::I64(1))], true, false),
        SData::Map(vec![(SData::Some(Box::new(SData::Bool(true))), SData::I64(1))], true, false),
        SData::Map(vec![(SData::NewtypeVariant("E", 0, "A", Box::new(SData::I64(1))), SData::I64(1))], true, false),
        SData::Map(vec![(SData::Str("a".into()), SData::Map(vec![(SData::F32(1.0), SData::Unit)], true, true))], true, true),
        // every remaining kind of key the key serializer is asked about (the compound ones it refuses)
        SData::Map(vec![(SData::Tuple(vec![SData::I64(1), SData::I64(2)]), SData::I64(1))], true, true),
        SData::Map(vec![(SData::Tuple(vec![]), SData::I64(1))], true, false),
        SData::Map(vec![(SData::TupleStruct("P", vec![SData::Bool(true)]), SData::I64(1))], true, true),
        SData::Map(vec![(SData::TupleVariant("E", 2, "T", vec![SData::Str("a".into())]), SData::I64(1))], true, false),
        SData::Map(vec![(SData::Map(vec![(SData::Str("k".into()), SData::I64(1))], true, true), SData::I64(1))], true, true),
        SData::Map(vec![(SData::Map(vec![], false, false), SData::I64(1))], false, false),
        SData::Map(vec![(SData::StructVariant("E", 3, "S", vec![("f", SData::I64(1))]), SData::I64(1))], true, true),
        SData::Map(vec![(SData::Struct("S", vec![("f", SData::I64(1))]), SData::I64(1))], true, false),
        SData::Map(vec![(SData::Struct("S", vec![]), SData::I64(1))], true, true),
        SData::Map(vec![(SData::UnitStruct("U"), SData::I64(1))], true, true),
        SData::Map(vec![(SData::NewtypeStruct("N", Box::new(SData::I64(7))), SData::I64(1)), (SData::NewtypeStruct("N", Box::new(SData::Str("7".into()))), SData::I64(2))], true, false),
        SData::Map(vec![(SData::NewtypeStruct("N", Box::new(SData::Tuple(vec![SData::I64(1)]))), SData::I64(1))], true, true),
        SData::Map(vec![(SData::I128(5), SData::I64(1))], true, true),
        SData::Map(vec![(SData::U128(5), SData::I64(1))], true, false),
        SData::Map(vec![(SData::F32(0.5), SData::I64(1))], true, true),
        SData::Map(vec![(SData::Seq(vec![SData::I64(1)], false), SData::I64(1))], true, true),
        SData::Map(vec![(SData::Some(Box::new(SData::Tuple(vec![SData::I64(1)]))), SData::I64(1))], true, true),
        SData::Map(vec![(SData::Duration(chrono::Duration::seconds(1)), SData::I64(1))], true, true),
        SData::Map(vec![(SData::Timestamp(chrono::DateTime::parse_from_rfc3339("2000-01-01T00:00:00+01:00").unwrap()), SData::I64(1))], true, false),
        // field and variant names that are slices of one static text (same address, different lengths)
        SData::Struct("S", vec![(&PATH[..4], SData::I64(1)), (&PATH[..12], SData::I64(2)), (PATH, SData::I64(3))]),
        SData::Struct("S", vec![(PATH, SData::I64(1)), (&PATH[..4], SData::I64(2))]),
        SData::StructVariant("E", 0, &PATH[..4], vec![(&PATH[..12], SData::U64(9)), (&PATH[..4], SData::U64(8))]),
        SData::Seq(vec![SData::Struct("A", vec![(&PATH[5..12], SData::I64(1))]), SData::Struct("B", vec![(&PATH[5..], SData::I64(2))]),
                        SData::UnitVariant("E", 0, &PATH[..4]), SData::NewtypeVariant("E", 1, PATH, Box::new(SData::I64(3)))], true),
        // an unsupported key after supported ones, and nested below supported data
        SData::Map(vec![(SData::Str("a".into()), SData::I64(1)), (SData::Tuple(vec![SData::I64(1)]), SData::I64(2)), (SData::Str("b".into()), SData::I64(3))], true, true),
        SData::Seq(vec![SData::I64(1), SData::Map(vec![(SData::StructVariant("E", 0, "S", vec![]), SData::Unit)], true, true)], true),
        SData::Struct("S", vec![]), SData::Struct("S", vec![("a", SData::I64(1)), ("b", SData::Seq(vec![SData::None], true))]),
        SData::Struct("S", vec![("a", SData::I64(1)), ("a", SData::I64(2))]),
        SData::Struct("Duration", vec![("secs", SData::I64(1)), ("nanos", SData::I64(2))]),
        SData::NewtypeStruct("Duration", Box::new(SData::I64(1))),
        SData::StructVariant("E", 3, "D", vec![("x", SData::F64(1.0)), ("y", SData::U128(1))]),
        SData::StructVariant("E", 3, "D", vec![]),
    ];
    // long and deep data: sizes around buffer / chunk thresholds, nesting to depth 40
    for &n in &[15usize, 16, 17, 31, 32, 33, 64, 65, 255, 256, 257, 1000] {
        fixed.push(SData::Seq((0..n).map(|i| SData::I64(i as i64)).collect(), n % 2 == 0));
        fixed.push(SData::Tuple((0..n).map(|i| SData::U8((i % 256) as u8)).collect()));
        fixed.push(SData::Str("é".repeat(n)));
        fixed.push(SData::Bytes((0..n).map(|i| (i % 256) as u8).collect()));
        fixed.push(SData::Map((0..n).map(|i| (SData::I64(i as i64), SData::Str(format!("v{}", i)))).collect(), true, n % 2 == 1));
        fixed.push(SData::Map((0..n).map(|i| (SData::Str(format!("k{}", i % (n - 1))), SData::U64(i as u64))).collect(), false, true));
    }
    for depth in [8usize, 16, 32, 40] {
        let mut d = SData::I8(1);
        for i in 0..depth {
            d = match i % 5 {
                0 => SData::Seq(vec![d], true),
                1 => SData::Some(Box::new(d)),
                2 => SData::Map(vec![(SData::Str("k".into()), d)], true, true),
                3 => SData::NewtypeVariant("E", 1, "B", Box::new(d)),
                _ => SData::Struct("S", vec![("f", d)]),
            };
        }
        fixed.push(d);
    }
    for _ in 0..40 {
        fixed.push(SData::Duration(rand_duration(&mut rng)));
        fixed.push(SData::Timestamp(rand_timestamp(&mut rng)));
    }
    for d in &fixed {
        emit_sdata(em, d, "fixed");
    }
    // Data that reuses the private marker names of the Duration / Timestamp wrappers (any
    // `Serialize` implementation may emit them): never a panic; a value only for what the wrappers
    // themselves send (a struct `Duration {secs, nanos}` in range, an RFC 3339 string), an error
    // for everything else.  A law on the implementation: the Coq data model has no marker names.
    {
        const DUR: &str = "$__cel_private_Duration";
        const TS: &str = "$__cel_private_Timestamp";
        let dur = |secs: SData, nanos: SData| SData::Struct("Duration", vec![("secs", secs), ("nanos", nanos)]);
        let mut inner: Vec<(SData, Option<Value>, Option<Value>)> = vec![
            (dur(SData::I64(5), SData::I64(7)), Some(Value::Duration(chrono::Duration::seconds(5) + chrono::Duration::nanoseconds(7))), None),
            (dur(SData::I64(-5), SData::I64(-7)), Some(Value::Duration(chrono::Duration::seconds(-5) + chrono::Duration::nanoseconds(-7))), None),
            (dur(SData::I64(i64::MAX / 1000), SData::I64(0)), Some(Value::Duration(chrono::Duration::seconds(i64::MAX / 1000))), None),
            (SData::Str("2000-01-01T00:00:00+01:00".into()), None, Some(Value::Timestamp(chrono::DateTime::parse_from_rfc3339("2000-01-01T00:00:00+01:00").unwrap()))),
        ];
        for bad in [
            dur(SData::I64(i64::MAX), SData::I64(0)), dur(SData::I64(i64::MIN), SData::I64(0)), dur(SData::I64(i64::MAX / 1000 + 1), SData::I64(0)),
            dur(SData::I64(i64::MAX / 1000), SData::I64(999_999_999)), dur(SData::I64(1), SData::I64(i64::MAX)), dur(SData::U64(1), SData::I64(0)),
            dur(SData::Str("1".into()), SData::I64(0)), dur(SData::I64(1), SData::F64(0.0)),
            SData::Struct("Duration", vec![("secs", SData::I64(1))]), SData::Struct("Duration", vec![("secs", SData::I64(1)), ("nanos", SData::I64(1)), ("x", SData::I64(1))]),
            SData::Struct("Duration", vec![("seconds", SData::I64(1)), ("nanos", SData::I64(1))]), SData::Struct("Other", vec![("secs", SData::I64(1)), ("nanos", SData::I64(1))]),
            SData::Struct("Duration", vec![]), SData::Str("not a time".into()), SData::Str(String::new()),
            SData::Bool(true), SData::I8(1), SData::I16(1), SData::I32(1), SData::I64(5), SData::U8(1), SData::U16(1), SData::U32(1), SData::U64(1),
            SData::I128(1), SData::U128(1), SData::F32(1.0), SData::F64(1.0), SData::Char('c'), SData::Bytes(vec![1]), SData::None,
            SData::Some(Box::new(SData::I64(1))), SData::Some(Box::new(SData::Str("2000-01-01T00:00:00Z".into()))), SData::Unit, SData::UnitStruct("U"),
            SData::UnitVariant("E", 0, "A"), SData::NewtypeStruct("N", Box::new(SData::I64(1))), SData::NewtypeStruct(DUR, Box::new(SData::I64(1))),
            SData::NewtypeVariant("E", 0, "A", Box::new(SData::I64(1))), SData::Seq(vec![SData::I64(1)], true), SData::Seq(vec![], false),
            SData::Tuple(vec![SData::I64(1)]), SData::TupleStruct("T", vec![SData::I64(1)]), SData::TupleVariant("E", 0, "A", vec![SData::I64(1)]),
            SData::Map(vec![(SData::Str("secs".into()), SData::I64(1))], true, true), SData::Map(vec![], false, false),
            SData::StructVariant("E", 0, "A", vec![("secs", SData::I64(1))]), SData::Duration(chrono::Duration::seconds(1)),
        ] {
            inner.push((bad, None, None));
        }
        for (d, as_dur, as_ts) in inner {
            for (name, want) in [(DUR, &as_dur), (TS, &as_ts)] {
                for nest in 0..3 {
                    let marked = SData::NewtypeStruct(name, Box::new(d.clone()));
                    let data = match nest {
                        0 => marked,
                        1 => SData::Seq(vec![SData::I64(1), marked], true),
                        _ => SData::Struct("S", vec![("f", SData::Some(Box::new(marked)))]),
                    };
                    let disp = format!("{:?}", data);
                    let (want, data2) = (want.clone(), data.clone());
                    let law = guarded(move || match (to_value(&data2), want) {
                        (Ok(v), Some(w)) => {
                            let got = match (nest, &v) {
                                (0, _) => Some(v.clone()),
                                (1, Value::List(l)) => l.get(1).cloned(),
                                (_, Value::Map(m)) => m.get(&"f".to_string().into()).cloned(),
                                _ => None,
                            };
                            if got.as_ref() == Some(&w) { "(bool true)".into() } else { format!("(law-violated marker-value {:?} instead of {:?})", v, w) }
                        }
                        (Ok(v), None) => format!("(law-violated marker-misuse-accepted {:?})", v),
                        (Err(e), Some(w)) => format!("(law-violated marker-refused {:?} instead of {:?})", e, w),
                        (Err(_), None) => "(bool true)".into(),
                    });
                    em.case("(echo (bool true))", &law, "nt=1;kind=law-marker", &disp);
                }
            }
        }
    }
    // The documented way of handing host data to a context, `Context::add_variable`, converts like
    // `to_value` (in a root context and in an inner scope), and the `From` conversions a host builds
    // values with give the value of the same shape.  Laws on the implementation.
    {
        let mut data: Vec<SData> = fixed.clone();
        for _ in 0..200 {
            data.push(rand_sdata(&mut rng, 3));
        }
        for d in data {
            let disp = format!("{:?}", d);
            let d1 = d.clone();
            let law = guarded(move || {
                let render = |r: &Result<Value, String>| match r {
                    Ok(v) => format!("(ok {})", sx_value(v)),
                    Err(_) => "(err invalid)".to_string(),
                };
                let direct = render(&to_value(&d1).map_err(|e| e.to_string()));
                let mut root = cel_interpreter::Context::default();
                let via_root = render(&root.add_variable("v", d1.clone()).map_err(|e| e.to_string()).and_then(|_| root.get_variable("v").map_err(|e| e.to_string())));
                let outer = cel_interpreter::Context::default();
                let mut inner = outer.new_inner_scope();
                let via_inner = render(&inner.add_variable("v", &d1).map_err(|e| e.to_string()).and_then(|_| inner.get_variable("v").map_err(|e| e.to_string())));
                if via_root == direct && via_inner == direct { "(bool true)".to_string() }
                else { format!("(law-violated add-variable-differs-from-to-value to_value {} root {} inner scope {})", direct, via_root, via_inner) }
            });
            em.case("(echo (bool true))", &law, "nt=1;kind=law-add-variable", &disp);
        }
        let law = guarded(|| {
            use cel_interpreter::objects::Key;
            use std::sync::Arc;
            let list = |v: Vec<Value>| Value::List(Arc::new(v));
            let s = |t: &str| Value::String(Arc::new(t.to_string()));
            let checks: Vec<(&str, Value, Value)> = vec![
                ("Vec<i64>", Value::from(vec![1i64, -2, i64::MIN]), list(vec![Value::Int(1), Value::Int(-2), Value::Int(i64::MIN)])),
                ("Vec<u64>", Value::from(vec![u64::MAX]), list(vec![Value::UInt(u64::MAX)])),
                ("empty Vec<bool>", Value::from(Vec::<bool>::new()), list(vec![])),
                ("Vec<Vec<f64>>", Value::from(vec![vec![1.5f64], vec![]]), list(vec![list(vec![Value::Float(1.5)]), list(vec![])])),
                ("Vec<u8>", Value::from(vec![0u8, 255, 7]), Value::Bytes(Arc::new(vec![0, 255, 7]))),
                ("String", Value::from("héllo 😀".to_string()), s("héllo 😀")),
                ("&str", Value::from("é"), s("é")),
                ("empty &str", Value::from(""), s("")),
                ("&str with blanks", Value::from(" a\n\t"), s(" a\n\t")),
                ("String with blanks and NUL", Value::from("\u{0} b \u{a0}".to_string()), s("\u{0} b \u{a0}")),
                ("Some(i64)", Value::from(Some(5i64)), Value::Int(5)),
                ("None", Value::from(None::<i64>), Value::Null),
                ("Some(None)", Value::from(Some(None::<bool>)), Value::Null),
                ("Some(Some(&str))", Value::from(Some(Some("x"))), s("x")),
                ("Vec<Option<u64>>", Value::from(vec![Some(1u64), None]), list(vec![Value::UInt(1), Value::Null])),
                ("&Key::Int", Value::from(&Key::Int(-3)), Value::Int(-3)),
                ("&Key::Uint", Value::from(&Key::Uint(u64::MAX)), Value::UInt(u64::MAX)),
                ("&Key::Bool", Value::from(&Key::Bool(true)), Value::Bool(true)),
                ("&Key::String", Value::from(&Key::String(Arc::new("k".to_string()))), s("k")),
                ("Key::Uint", Value::from(Key::Uint(9223372036854775808)), Value::UInt(9223372036854775808)),
                ("&Value", Value::from(&Value::UInt(3)), Value::UInt(3)),
                ("i64", Value::from(i64::MIN), Value::Int(i64::MIN)),
                ("u64", Value::from(u64::MAX), Value::UInt(u64::MAX)),
                ("f64", Value::from(-0.0f64), Value::Float(-0.0)),
                ("bool", Value::from(false), Value::Bool(false)),
            ];
            let mut bad = Vec::new();
            for (what, got, want) in checks {
                if sx_value(&got) != sx_value(&want) {
                    bad.push(format!("{}: {} instead of {}", what, sx_value(&got), sx_value(&want)));
                }
            }
            let keys = [(Key::from(&Key::Uint(7)), Key::Uint(7)), (Key::from("k"), Key::String(Arc::new("k".to_string()))),
                        (Key::from("k".to_string()), Key::String(Arc::new("k".to_string()))), (Key::from(-1i64), Key::Int(-1)),
                        (Key::from(1u64), Key::Uint(1)), (Key::from(true), Key::Bool(true))];
            for (got, want) in keys {
                if got != want {
                    bad.push(format!("key {:?} instead of {:?}", got, want));
                }
            }
            if bad.is_empty() { "(bool true)".to_string() } else { format!("(law-violated from-conversion {})", bad.join("; ")) }
        });
        em.case("(echo (bool true))", &law, "nt=1;kind=law-from", "From conversions into Value and Key");
    }
    // The lengths a Serialize implementation announces (sequences, tuples, tuple structs and
    // variants, maps, struct variants) are hints and need not be true: the conversion is the same
    // whatever is announced - never a panic or an abort from trusting the hint for an allocation.
    {
        let mut data: Vec<SData> = fixed.iter().filter(|d| matches!(d, SData::Seq(..) | SData::Tuple(_) | SData::TupleStruct(..) | SData::TupleVariant(..)
            | SData::Map(..) | SData::StructVariant(..) | SData::Struct(..) | SData::Some(_))).take(60).cloned().collect();
        for _ in 0..60 {
            data.push(rand_sdata(&mut rng, 3));
        }
        for d in data {
            let disp = format!("{:?}", d);
            let d1 = d.clone();
            let law = guarded(move || {
                // maps are compared as sets of entries (two conversions hash differently)
                let sx_ser = |r: &Result<Value, cel_interpreter::SerializationError>| match r {
                    Ok(v) => format!("(ok {})", sx_value(v)),
                    Err(_) => "(err invalid)".to_string(),
                };
                let honest = sx_ser(&to_value(&d1));
                for mode in 1..=5u8 {
                    HINT_MODE.with(|m| m.set(mode));
                    let r = std::panic::catch_unwind(std::panic::AssertUnwindSafe(|| sx_ser(&to_value(&d1))));
                    HINT_MODE.with(|m| m.set(0));
                    match r {
                        Ok(got) if got == honest => {}
                        Ok(got) => return format!("(law-violated hint-changes-result mode {} {} instead of {})", mode, got, honest),
                        Err(_) => return format!("(law-violated hint-panics mode {})", mode),
                    }
                }
                "(bool true)".to_string()
            });
            em.case("(echo (bool true))", &law, "nt=1;kind=law-hint", &disp);
        }
    }
    let n = if thorough { 300_000 } else { 12_000 };
    for _ in 0..n {
        let depth = 1 + rng.below(5) as u32;
        let d = rand_sdata(&mut rng, depth);
        emit_sdata(em, &d, "rnd");
    }
    // every serde_json document
    let n = if thorough { 150_000 } else { 6_000 };
    for _ in 0..n {
        let depth = rng.below(6) as u32;
        let j = rand_json(&mut rng, depth);
        let j1 = j.clone();
        let imp = guarded(move || sx_ser(&to_value(&j1)));
        em.case(&format!("(unjson {})", json_wire(&j)), &imp, "nt=1;kind=unjson", &j.to_string());
        // a document exported again is the document itself
        let j2 = j.clone();
        let law = guarded(move || match to_value(&j2).map_err(|e| e.to_string()).and_then(|v| v.json().map_err(|e| e.to_string())) {
            Ok(back) if back == j2 => "(bool true)".into(),
            other => format!("(law-violated json-roundtrip {:?})", other),
        });
        em.case("(echo (bool true))", &law, "nt=1;kind=law-json-roundtrip", &j.to_string());
    }
}
