//! C03: well-typed programs of the core fragment, generated as trees (the surface syntax of
//! the reference semantics), printed as fully parenthesised source for the real parser and as
//! a tree for the model.  The model compiles the source itself, checks that the parser's AST
//! is the lowering of the tree, type-checks the tree, and answers with both the operational
//! model's outcome and the reference semantics' outcome; the implementation must agree with
//! both.
use crate::ctxgen::*;
use crate::gen::{extreme_ctx, lit_b, lit_d, lit_i, Ty, D_BOUND, I_BOUND, S_ALPHA, U_BOUND};
use crate::rng::Rng;
use crate::wire::*;
use crate::{guarded, Emit};
use cel_interpreter::{Context, Program};

#[derive(Clone, Debug, PartialEq)]
pub enum CT {
    I,
    U,
    D,
    B,
    S,
    Y,
    N,
    L(Box<CT>),
    M(Box<CT>, Box<CT>),
    Any,
}

fn ct_wire(t: &CT) -> String {
    match t {
        CT::I => "int".into(),
        CT::U => "uint".into(),
        CT::D => "dbl".into(),
        CT::B => "bool".into(),
        CT::S => "str".into(),
        CT::Y => "bytes".into(),
        CT::N => "null".into(),
        CT::Any => "any".into(),
        CT::L(a) => format!("(list {})", ct_wire(a)),
        CT::M(k, v) => format!("(map {} {})", ct_wire(k), ct_wire(v)),
    }
}

fn of_ty(t: &Ty) -> Option<CT> {
    Some(match t {
        Ty::Int => CT::I,
        Ty::Uint => CT::U,
        Ty::Dbl => CT::D,
        Ty::Bool => CT::B,
        Ty::Str => CT::S,
        Ty::Bytes => CT::Y,
        Ty::Null => CT::N,
        Ty::List(a) => CT::L(Box::new(of_ty(a)?)),
        Ty::Map(k, v) => CT::M(Box::new(of_ty(k)?), Box::new(of_ty(v)?)),
        Ty::Dur | Ty::Ts => return None,
    })
}

/// (source text, wire form of the tree)
#[derive(Clone)]
pub struct T {
    pub src: String,
    pub wire: String,
    pub ops: u32,
}

fn t(src: String, wire: String, ops: u32) -> T {
    T { src, wire, ops }
}

struct G<'a> {
    rng: &'a mut Rng,
    vars: Vec<(String, CT)>,
    boundary_pct: u64,
}

const BINOPS: [(&str, &str); 5] = [("+", "add"), ("-", "sub"), ("*", "mul"), ("/", "div"), ("%", "rem")];
const RELS: [(&str, &str); 6] = [("==", "eq"), ("!=", "ne"), ("<", "lt"), ("<=", "le"), (">", "gt"), (">=", "ge")];

impl<'a> G<'a> {
    fn vars_of(&self, ty: &CT) -> Vec<String> {
        // the innermost binding of a name is the visible one
        let mut out = Vec::new();
        for (i, (n, t)) in self.vars.iter().enumerate() {
            if t == ty && !self.vars[i + 1..].iter().any(|(m, _)| m == n) {
                out.push(n.clone());
            }
        }
        out
    }
    /// an int key with a uint query, or the other way round, from the boundary sets
    fn cross_keys(&mut self) -> (T, T) {
        const IK: &[i64] = &[-1, -2, i64::MIN, i64::MIN + 1, 0, 1, i64::MAX, -9223372036854775807];
        const UQ: &[u64] = &[u64::MAX, u64::MAX - 1, 9223372036854775808, 9223372036854775809, 0, 1, 9223372036854775807, 9223372036854775809];
        let i = *self.rng.pick(IK);
        let u = if self.rng.chance(1, 2) { *self.rng.pick(UQ) } else { i as u64 };
        let it = t(lit_i(i), format!("(lit (int {}))", i), 0);
        let ut = t(format!("{}u", u), format!("(lit (uint {}))", u), 0);
        if self.rng.chance(1, 2) { (it, ut) } else { (ut, it) }
    }
    fn var(&self, n: &str) -> T {
        t(n.to_string(), format!("(var {})", sx_str(n)), 0)
    }
    fn lit(&mut self, ty: &CT) -> T {
        match ty {
            CT::I => {
                let v = if self.rng.chance(self.boundary_pct, 100) { *self.rng.pick(I_BOUND) } else { self.rng.range(-5, 12) };
                t(lit_i(v), format!("(lit (int {}))", v), 0)
            }
            CT::U => {
                let v = if self.rng.chance(self.boundary_pct, 100) { *self.rng.pick(U_BOUND) } else { self.rng.below(12) };
                t(format!("{}u", v), format!("(lit (uint {}))", v), 0)
            }
            CT::D => {
                let v = if self.rng.chance(self.boundary_pct, 100) { *self.rng.pick(D_BOUND) } else { (self.rng.range(-8, 16) as f64) / 2.0 };
                t(lit_d(v), format!("(lit {})", sx_f64(v)), 0)
            }
            CT::B => {
                let b = self.rng.chance(1, 2);
                t(b.to_string(), format!("(lit (bool {}))", b), 0)
            }
            CT::S => {
                // characters verbatim or through an escape of the literal syntax
                const SPELLED: &[(&str, &str)] = &[("\\u00e9", "é"), ("\\x41", "A"), ("\\n", "\n"), ("\\101", "A"), ("\\U0001F600", "😀"),
                                                   ("\\u0080", "\u{80}"), ("\\'", "'"), ("\\\\", "\\"), ("\\xe9", "é")];
                let n = self.rng.below(4);
                let (mut src, mut s) = (String::new(), String::new());
                for _ in 0..n {
                    if self.rng.chance(1, 4) {
                        let (sp, v) = *self.rng.pick(SPELLED);
                        src.push_str(sp);
                        s.push_str(v);
                    } else {
                        let v = *self.rng.pick(S_ALPHA);
                        src.push_str(v);
                        s.push_str(v);
                    }
                }
                t(format!("'{}'", src), format!("(lit {})", sx_str(&s)), 0)
            }
            CT::Y => {
                // bytes through \x, octal, and characters (verbatim or escaped) that stand for their UTF-8
                const SPELLED: &[(&str, &[u8])] = &[("\\u00e9", &[0xc3, 0xa9]), ("é", &[0xc3, 0xa9]), ("\\u0080", &[0xc2, 0x80]), ("\\377", &[255]),
                                                    ("\\xe9", &[0xe9]), ("\\X80", &[0x80]), ("\\u20ac", &[0xe2, 0x82, 0xac]),
                                                    ("\\U0001F600", &[0xf0, 0x9f, 0x98, 0x80]), ("\\u007f", &[0x7f]), ("a", &[97])];
                let n = self.rng.below(4);
                let (mut src, mut b) = (String::new(), Vec::<u8>::new());
                for _ in 0..n {
                    if self.rng.chance(1, 3) {
                        let (sp, v) = *self.rng.pick(SPELLED);
                        src.push_str(sp);
                        b.extend_from_slice(v);
                    } else {
                        let x = *self.rng.pick(&[0u8, 1, 97, 98, 127, 128, 255]);
                        src.push_str(&format!("\\x{:02x}", x));
                        b.push(x);
                    }
                }
                let mut w = String::from("(lit (bytes");
                for x in &b {
                    w.push_str(&format!(" {}", x));
                }
                w.push_str("))");
                t(format!("b'{}'", src), w, 0)
            }
            CT::N | CT::Any => t("null".into(), "(lit null)".into(), 0),
            CT::L(e) => {
                // a non-empty literal list of element type e (the empty literal is list(any))
                let n = if **e == CT::Any { self.rng.below(3) } else { 1 + self.rng.below(3) };
                let xs: Vec<T> = (0..n).map(|_| self.lit(e)).collect();
                self.mk_list(xs)
            }
            CT::M(_, _) => t("{}".into(), "(tmap)".into(), 0),
        }
    }
    fn mk_list(&self, xs: Vec<T>) -> T {
        let ops = xs.iter().map(|x| x.ops).sum::<u32>();
        t(
            format!("[{}]", xs.iter().map(|x| x.src.clone()).collect::<Vec<_>>().join(", ")),
            format!("(tlist{})", xs.iter().map(|x| format!(" {}", x.wire)).collect::<String>()),
            ops,
        )
    }
    fn leaf(&mut self, ty: &CT) -> T {
        let vs = self.vars_of(ty);
        if !vs.is_empty() && self.rng.chance(1, 2) {
            let n = self.rng.pick(&vs).clone();
            return self.var(&n);
        }
        match ty {
            CT::M(_, _) => {
                if !vs.is_empty() {
                    let n = self.rng.pick(&vs).clone();
                    self.var(&n)
                } else {
                    // no variable of this map type: only list(any)-style literal maps exist
                    self.lit(ty)
                }
            }
            CT::Any => {
                // something whose type is `any`: an index into a literal list
                let l = self.lit(&CT::L(Box::new(CT::I)));
                let i = self.lit(&CT::I);
                self.bin("index", &l, &i, |a, b| format!("({})[{}]", a, b))
            }
            _ => self.lit(ty),
        }
    }
    fn bin<F: Fn(&str, &str) -> String>(&self, op: &str, a: &T, b: &T, f: F) -> T {
        t(f(&a.src, &b.src), format!("(bin {} {} {})", op, a.wire, b.wire), a.ops + b.ops + 1)
    }
    fn scalar(&mut self) -> CT {
        match self.rng.below(5) {
            0 => CT::I,
            1 => CT::U,
            2 => CT::D,
            3 => CT::S,
            _ => CT::B,
        }
    }
    fn any_ty(&mut self, depth: u32) -> CT {
        match self.rng.below(if depth > 0 { 10 } else { 8 }) {
            0 => CT::I,
            1 => CT::U,
            2 => CT::D,
            3 => CT::B,
            4 => CT::S,
            5 => CT::Y,
            6 => CT::N,
            7 => CT::Any,
            8 => CT::L(Box::new(self.scalar())),
            _ => {
                let cands: Vec<CT> = self.vars.iter().filter(|(_, t)| matches!(t, CT::M(_, _))).map(|(_, t)| t.clone()).collect();
                if cands.is_empty() {
                    CT::I
                } else {
                    self.rng.pick(&cands).clone()
                }
            }
        }
    }
    fn fresh_var(&mut self) -> String {
        self.rng.pick(&["x", "y", "z", "vi0", "vl0"]).to_string()
    }
    /// a macro range and the type its iteration variable gets
    fn range(&mut self, elem: &CT, d: u32) -> (T, CT) {
        if matches!(elem, CT::I | CT::U | CT::S | CT::B) && self.rng.chance(1, 4) {
            let cands: Vec<String> = self
                .vars
                .iter()
                .enumerate()
                .filter(|(i, (n, t))| matches!(t, CT::M(k, _) if **k == *elem) && !self.vars[i + 1..].iter().any(|(m, _)| m == n))
                .map(|(_, (n, _))| n.clone())
                .collect();
            if !cands.is_empty() {
                let n = self.rng.pick(&cands).clone();
                return (self.var(&n), elem.clone());
            }
        }
        (self.gen(&CT::L(Box::new(elem.clone())), d), elem.clone())
    }
    fn with_var<R, F: FnOnce(&mut Self) -> R>(&mut self, name: &str, ty: CT, f: F) -> R {
        self.vars.push((name.to_string(), ty));
        let r = f(self);
        self.vars.pop();
        r
    }
    fn macro3(&self, name: &str, wname: &str, r: &T, x: &str, body: &T) -> T {
        t(
            format!("({}).{}({}, {})", r.src, name, x, body.src),
            format!("({} {} {} {})", wname, sx_str(x), r.wire, body.wire),
            r.ops + body.ops + 1,
        )
    }
    fn call(&mut self, f: &str, args: Vec<T>, allow_recv: bool) -> T {
        let ops = args.iter().map(|a| a.ops).sum::<u32>() + 1;
        let recv = allow_recv && self.rng.chance(1, 2);
        let w = format!("(call {} {}{})", f, if recv { "recv" } else { "fn" }, args.iter().map(|a| format!(" {}", a.wire)).collect::<String>());
        let src = if recv {
            format!("({}).{}({})", args[0].src, f, args[1..].iter().map(|a| a.src.clone()).collect::<Vec<_>>().join(", "))
        } else {
            format!("{}({})", f, args.iter().map(|a| a.src.clone()).collect::<Vec<_>>().join(", "))
        };
        t(src, w, ops)
    }

    /// A term whose type (by the model's checker) is exactly `ty`.
    fn gen(&mut self, ty: &CT, depth: u32) -> T {
        if depth == 0 || self.rng.chance(1, 8) {
            return self.leaf(ty);
        }
        let d = depth - 1;
        if self.rng.chance(1, 10) {
            // conditional: both branches of the target type
            let c = self.gen(&CT::B, d);
            let (a, b) = if *ty == CT::Any {
                let t1 = self.any_ty(0);
                let mut t2 = self.any_ty(0);
                if t1 == t2 {
                    t2 = CT::Any;
                }
                (self.gen(&t1, d), self.gen(&t2, d))
            } else {
                (self.gen(ty, d), self.gen(ty, d))
            };
            return t(
                format!("({} ? {} : {})", c.src, a.src, b.src),
                format!("(cond {} {} {})", c.wire, a.wire, b.wire),
                c.ops + a.ops + b.ops + 1,
            );
        }
        match ty {
            CT::I => match self.rng.below(9) {
                0..=4 => {
                    let (o, w) = *self.rng.pick(&BINOPS);
                    let a = self.gen(&CT::I, d);
                    let b = self.gen(&CT::I, d);
                    self.bin(w, &a, &b, |x, y| format!("({} {} {})", x, o, y))
                }
                5 => {
                    let a = self.gen_nonlit(&CT::I, d);
                    t(format!("(-{})", a.src), format!("(un neg {})", a.wire), a.ops + 1)
                }
                6 => {
                    let tt = match self.rng.below(4) {
                        0 => CT::S,
                        1 => CT::Y,
                        2 => CT::L(Box::new(self.scalar())),
                        _ => self.any_ty(1),
                    };
                    let x = self.gen(&tt, d);
                    self.call("size", vec![x], true)
                }
                _ => {
                    let tt = match self.rng.below(4) {
                        0 => CT::U,
                        1 => CT::D,
                        2 => CT::S,
                        _ => CT::I,
                    };
                    let x = self.gen(&tt, d);
                    self.call("int", vec![x], true)
                }
            },
            CT::U => match self.rng.below(7) {
                0..=4 => {
                    let (o, w) = *self.rng.pick(&BINOPS);
                    let a = self.gen(&CT::U, d);
                    let b = self.gen(&CT::U, d);
                    self.bin(w, &a, &b, |x, y| format!("({} {} {})", x, o, y))
                }
                _ => {
                    let tt = match self.rng.below(3) {
                        0 => CT::I,
                        1 => CT::D,
                        _ => CT::U,
                    };
                    let x = self.gen(&tt, d);
                    self.call("uint", vec![x], true)
                }
            },
            CT::D => match self.rng.below(7) {
                0..=3 => {
                    let (o, w) = *self.rng.pick(&BINOPS[..4]);
                    let a = self.gen(&CT::D, d);
                    let b = self.gen(&CT::D, d);
                    self.bin(w, &a, &b, |x, y| format!("({} {} {})", x, o, y))
                }
                4 => {
                    let a = self.gen_nonlit(&CT::D, d);
                    t(format!("(-{})", a.src), format!("(un neg {})", a.wire), a.ops + 1)
                }
                _ => {
                    let tt = match self.rng.below(4) {
                        0 => CT::I,
                        1 => CT::U,
                        2 => CT::S,
                        _ => CT::D,
                    };
                    let x = self.gen(&tt, d);
                    self.call("double", vec![x], true)
                }
            },
            CT::B => match self.rng.below(16) {
                0 | 1 => {
                    let and = self.rng.chance(1, 2);
                    let a = self.gen(&CT::B, d);
                    let b = self.gen(&CT::B, d);
                    t(
                        format!("({} {} {})", a.src, if and { "&&" } else { "||" }, b.src),
                        format!("({} {} {})", if and { "and" } else { "or" }, a.wire, b.wire),
                        a.ops + b.ops + 1,
                    )
                }
                2 => {
                    let a = self.gen(&CT::B, d);
                    t(format!("(!{})", a.src), format!("(un not {})", a.wire), a.ops + 1)
                }
                3 | 4 | 5 => {
                    let (o, w) = *self.rng.pick(&RELS);
                    let (t1, t2) = if self.rng.chance(1, 3) {
                        let n = [CT::I, CT::U, CT::D, CT::Any];
                        (self.rng.pick(&n).clone(), self.rng.pick(&n).clone())
                    } else {
                        let tt = self.scalar();
                        (tt.clone(), tt)
                    };
                    let a = self.gen(&t1, d);
                    let b = self.gen(&t2, d);
                    self.bin(w, &a, &b, |x, y| format!("({} {} {})", x, o, y))
                }
                6 => {
                    let tt = self.any_ty(1);
                    let (o, w) = if self.rng.chance(1, 2) { ("==", "eq") } else { ("!=", "ne") };
                    let a = self.gen(&tt, d);
                    let b = self.gen(&tt, d);
                    self.bin(w, &a, &b, |x, y| format!("({} {} {})", x, o, y))
                }
                7 => {
                    let tt = self.scalar();
                    let x = self.gen(&tt, d);
                    let l = self.gen(&CT::L(Box::new(tt)), d);
                    self.bin("in", &x, &l, |a, b| format!("({} in {})", a, b))
                }
                8 => {
                    let maps: Vec<CT> = self.vars.iter().filter(|(_, t)| matches!(t, CT::M(_, _))).map(|(_, t)| t.clone()).collect();
                    let mt = if maps.is_empty() { CT::M(Box::new(CT::Any), Box::new(CT::Any)) } else { self.rng.pick(&maps).clone() };
                    let kt = match &mt {
                        CT::M(k, _) if **k != CT::Any => (**k).clone(),
                        _ => CT::S,
                    };
                    let k = self.gen(&kt, d);
                    let m = self.gen(&mt, d);
                    if self.rng.chance(1, 2) {
                        self.bin("in", &k, &m, |a, b| format!("({} in {})", a, b))
                    } else {
                        self.call("contains", vec![m, k], true)
                    }
                }
                9 => {
                    let a = self.gen(&CT::S, d);
                    let b = self.gen(&CT::S, d);
                    match self.rng.below(4) {
                        0 => self.call("startsWith", vec![a, b], true),
                        1 => self.call("endsWith", vec![a, b], true),
                        2 => self.call("contains", vec![a, b], true),
                        _ => self.bin("in", &a, &b, |x, y| format!("({} in {})", x, y)),
                    }
                }
                10 | 11 => {
                    let et = self.scalar();
                    let (r, xt) = self.range(&et, d);
                    let v = self.fresh_var();
                    let (m, w) = *self.rng.pick(&[("all", "all"), ("exists", "exists"), ("exists_one", "exists1"), ("existsOne", "exists1")]);
                    let body = self.with_var(&v, xt, |g| g.gen(&CT::B, d));
                    self.macro3(m, w, &r, &v, &body)
                }
                12 => {
                    let maps: Vec<(String, CT)> = self.vars.iter().filter(|(_, t)| matches!(t, CT::M(_, _))).cloned().collect();
                    let m = if !maps.is_empty() && self.rng.chance(2, 3) {
                        let n = self.rng.pick(&maps).0.clone();
                        if self.vars_of(&self.vars.iter().find(|(m, _)| *m == n).unwrap().1.clone()).contains(&n) {
                            self.var(&n)
                        } else {
                            self.map_lit(d)
                        }
                    } else {
                        self.map_lit(d)
                    };
                    // field names that are also names of registered functions: presence is about the map alone
                    let f = *self.rng.pick(&["a", "b", "c", "ab", "zz", "size", "min", "max", "contains", "string", "matches", "int"]);
                    t(format!("has(({}).{})", m.src, f), format!("(has {} {})", m.wire, sx_str(f)), m.ops + 1)
                }
                13 => {
                    let tt = self.scalar();
                    let l = self.gen(&CT::L(Box::new(tt.clone())), d);
                    let x = self.gen(&tt, d);
                    self.call("contains", vec![l, x], true)
                }
                14 => {
                    // presence of a numeric key's twin of the other integer kind, asked with `in`
                    // and with contains() in both call styles (a one- or two-entry map literal)
                    let (k, q) = self.cross_keys();
                    let vt = self.scalar();
                    let v = self.gen(&vt, d.min(1));
                    let m = if self.rng.chance(1, 2) {
                        t(format!("{{{}: {}}}", k.src, v.src), format!("(tmap ({} {}))", k.wire, v.wire), k.ops + v.ops)
                    } else {
                        t(format!("{{'z': 0, {}: {}}}", k.src, v.src),
                          format!("(tmap ((lit (str 122)) (lit (int 0))) ({} {}))", k.wire, v.wire), k.ops + v.ops)
                    };
                    if self.rng.chance(1, 3) {
                        self.bin("in", &q, &m, |a, b| format!("({} in {})", a, b))
                    } else {
                        self.call("contains", vec![m, q], true)
                    }
                }
                _ => {
                    let a = self.gen(&CT::Y, d);
                    let b = self.gen(&CT::Y, d);
                    self.call("contains", vec![a, b], true)
                }
            },
            CT::S => match self.rng.below(4) {
                0 | 1 => {
                    let a = self.gen(&CT::S, d);
                    let b = self.gen(&CT::S, d);
                    self.bin("add", &a, &b, |x, y| format!("({} + {})", x, y))
                }
                _ => {
                    let tt = match self.rng.below(5) {
                        0 => CT::I,
                        1 => CT::U,
                        2 => CT::S,
                        3 => CT::D,
                        _ => CT::Y,
                    };
                    let x = self.gen(&tt, d);
                    self.call("string", vec![x], true)
                }
            },
            CT::Y => {
                let x = self.gen(&CT::S, d);
                self.call("bytes", vec![x], false)
            }
            CT::N => self.leaf(ty),
            CT::L(e) => match self.rng.below(6) {
                0 if **e != CT::Any => {
                    let n = 1 + self.rng.below(3);
                    let xs: Vec<T> = (0..n).map(|_| self.gen(e, d)).collect();
                    self.mk_list(xs)
                }
                1 | 2 => {
                    let a = self.gen(ty, d);
                    let b = self.gen(ty, d);
                    self.bin("add", &a, &b, |x, y| format!("({} + {})", x, y))
                }
                3 if **e != CT::Any => {
                    let (r, xt) = self.range(e, d);
                    if xt != **e {
                        return self.leaf(ty);
                    }
                    let v = self.fresh_var();
                    let body = self.with_var(&v, xt, |g| g.gen(&CT::B, d));
                    self.macro3("filter", "filter", &r, &v, &body)
                }
                4 => {
                    let st = self.scalar();
                    let (r, xt) = self.range(&st, d);
                    let v = self.fresh_var();
                    let et = (**e).clone();
                    if self.rng.chance(1, 3) {
                        let (flt, body) = self.with_var(&v, xt, |g| (g.gen(&CT::B, d), g.gen(&et, d)));
                        t(
                            format!("({}).map({}, {}, {})", r.src, v, flt.src, body.src),
                            format!("(mapf {} {} {} {})", sx_str(&v), r.wire, flt.wire, body.wire),
                            r.ops + flt.ops + body.ops + 1,
                        )
                    } else {
                        let body = self.with_var(&v, xt, |g| g.gen(&et, d));
                        self.macro3("map", "mapm", &r, &v, &body)
                    }
                }
                _ => self.leaf(ty),
            },
            CT::M(_, _) => self.leaf(ty),
            CT::Any => match self.rng.below(7) {
                6 => {
                    // a map literal with a numeric key, asked for the key's twin of the other
                    // integer kind, at the boundaries (an absent index is null)
                    let (k, q) = self.cross_keys();
                    let vt = self.scalar();
                    let v = self.gen(&vt, d.min(1));
                    let m = t(format!("{{{}: {}}}", k.src, v.src), format!("(tmap ({} {}))", k.wire, v.wire), k.ops + v.ops);
                    self.bin("index", &m, &q, |a, b| format!("({})[{}]", a, b))
                }
                0 | 1 => {
                    // index into a list or a map
                    if self.rng.chance(1, 2) {
                        let et = self.scalar();
                        let l = self.gen(&CT::L(Box::new(et)), d);
                        let i = self.gen(&CT::I, d.min(1));
                        self.bin("index", &l, &i, |a, b| format!("({})[{}]", a, b))
                    } else {
                        let maps: Vec<CT> = self.vars.iter().filter(|(_, t)| matches!(t, CT::M(_, _))).map(|(_, t)| t.clone()).collect();
                        if maps.is_empty() {
                            return self.leaf(ty);
                        }
                        let mt = self.rng.pick(&maps).clone();
                        let kt = match &mt {
                            CT::M(k, _) => (**k).clone(),
                            _ => CT::S,
                        };
                        let m = self.gen(&mt, d);
                        let k = self.gen(&kt, d.min(1));
                        self.bin("index", &m, &k, |a, b| format!("({})[{}]", a, b))
                    }
                }
                2 => {
                    let m = if self.rng.chance(1, 2) { self.map_lit(d) } else { self.gen(&CT::M(Box::new(CT::S), Box::new(CT::I)), d) };
                    let f = *self.rng.pick(&["a", "b", "c", "ab", "zz"]);
                    t(format!("({}).{}", m.src, f), format!("(sel {} {})", m.wire, sx_str(f)), m.ops + 1)
                }
                3 => {
                    let n = self.rng.below(4);
                    let tt = if self.rng.chance(1, 2) { CT::I } else { self.scalar() };
                    let args: Vec<T> = (0..n).map(|_| self.gen(&tt, d)).collect();
                    let f = if self.rng.chance(1, 2) { "max" } else { "min" };
                    self.call(f, args, false)
                }
                4 => {
                    // arithmetic with an operand of type any
                    let (o, w) = *self.rng.pick(&BINOPS);
                    let a = self.gen(&CT::Any, d);
                    let tt = *self.rng.pick(&[&CT::I, &CT::U, &CT::D, &CT::S, &CT::Any]);
                    let b = self.gen(tt, d);
                    if self.rng.chance(1, 2) {
                        self.bin(w, &a, &b, |x, y| format!("({} {} {})", x, o, y))
                    } else {
                        self.bin(w, &b, &a, |x, y| format!("({} {} {})", x, o, y))
                    }
                }
                _ => {
                    let a = self.gen(&CT::Any, d);
                    t(format!("(-{})", a.src), format!("(un neg {})", a.wire), a.ops + 1)
                }
            },
        }
    }
    /// like gen, but never a bare literal (a '-' before a literal is folded by the parser)
    fn gen_nonlit(&mut self, ty: &CT, d: u32) -> T {
        let vs = self.vars_of(ty);
        if d == 0 || self.rng.chance(1, 3) {
            if !vs.is_empty() {
                let n = self.rng.pick(&vs).clone();
                return self.var(&n);
            }
        }
        let (o, w) = ("+", "add");
        let a = self.gen(ty, d);
        let b = self.gen(ty, d);
        self.bin(w, &a, &b, |x, y| format!("({} {} {})", x, o, y))
    }
    fn map_lit(&mut self, d: u32) -> T {
        let n = self.rng.below(3);
        let kt = if self.rng.chance(2, 3) { CT::S } else { self.scalar() };
        let mut src = Vec::new();
        let mut wire = String::from("(tmap");
        let mut ops = 0;
        for _ in 0..n {
            let k = if kt == CT::S && self.rng.chance(1, 2) {
                let f = *self.rng.pick(&["a", "b", "ab"]);
                t(format!("'{}'", f), format!("(lit {})", sx_str(f)), 0)
            } else {
                self.gen(&kt, d.min(1))
            };
            let vt = self.scalar();
            let v = self.gen(&vt, d);
            src.push(format!("{}: {}", k.src, v.src));
            wire.push_str(&format!(" ({} {})", k.wire, v.wire));
            ops += k.ops + v.ops;
        }
        wire.push(')');
        t(format!("{{{}}}", src.join(", ")), wire, ops)
    }
}

/// Left-to-right with the first error aborting: every two-operand construct with two failing
/// operands of different error classes, in both orders.
fn error_order(em: &mut Emit) {
    let fails: [(&str, &str); 4] = [
        ("(9223372036854775807 + 1)", "(bin add (lit (int 9223372036854775807)) (lit (int 1)))"),
        ("(1 / 0)", "(bin div (lit (int 1)) (lit (int 0)))"),
        ("({}).zz", "(sel (tmap) (str 122 122))"),
        ("int('x')", "(call int fn (lit (str 120)))"),
    ];
    let spec = CtxSpec { vars: vec![], funs: vec![] };
    let ctxw = spec.wire();
    let ctx: Context<'static> = spec.build();
    for (a, aw) in &fails {
        for (b, bw) in &fails {
            if a == b {
                continue;
            }
            let shapes: Vec<(String, String)> = vec![
                (format!("({} + {})", a, b), format!("(bin add {} {})", aw, bw)),
                (format!("({} == {})", a, b), format!("(bin eq {} {})", aw, bw)),
                (format!("({} < {})", a, b), format!("(bin lt {} {})", aw, bw)),
                (format!("[{}, {}]", a, b), format!("(tlist {} {})", aw, bw)),
                (format!("{{{}: {}}}", a, b), format!("(tmap ({} {}))", aw, bw)),
                (format!("{{1: 2, {}: {}}}", a, b), format!("(tmap ((lit (int 1)) (lit (int 2))) ({} {}))", aw, bw)),
                (format!("([{}])[{}]", a, b), format!("(bin index (tlist {}) {})", aw, bw)),
                (format!("({} in [{}])", a, b), format!("(bin in {} (tlist {}))", aw, bw)),
                (format!("contains([{}], {})", a, b), format!("(call contains fn (tlist {}) {})", aw, bw)),
                (format!("([{}]).contains({})", a, b), format!("(call contains recv (tlist {}) {})", aw, bw)),
                (format!("max({}, {})", a, b), format!("(call max fn {} {})", aw, bw)),
                (format!("(({} == 1) && ({} == 1))", a, b), format!("(and (bin eq {} (lit (int 1))) (bin eq {} (lit (int 1))))", aw, bw)),
                (format!("(({} == 1) ? {} : 1)", a, b), format!("(cond (bin eq {} (lit (int 1))) {} (lit (int 1)))", aw, bw)),
                (format!("([{}]).map(x, {})", a, b), format!("(mapm (str 120) (tlist {}) {})", aw, bw)),
                (format!("([1]).map(x, ({} + {}))", a, b), format!("(mapm (str 120) (tlist (lit (int 1))) (bin add {} {}))", aw, bw)),
            ];
            for (src, wire) in shapes {
                let s2 = src.clone();
                let ctxr = &ctx;
                let imp = guarded(std::panic::AssertUnwindSafe(move || match Program::compile(&s2) {
                    Err(_) => "(reject)".to_string(),
                    Ok(p) => sx_result(&p.execute(ctxr)),
                }));
                let imp = if imp == "(reject)" || imp == "(crash)" { imp } else { format!("(c03 typed {} (log) {})", imp, imp) };
                em.case(&format!("(c03 {} (tenv) {} {})", ctxw, wire, sx_str(&src)), &imp, "nt=1;kind=error-order", &src);
            }
        }
    }
}

pub fn run(em: &mut Emit, thorough: bool, seed: u64) {
    error_order(em);
    let mut rng = Rng::new(seed ^ 0xC03);
    let n = if thorough { 400_000 } else { 20_000 };
    let mut i = 0;
    while i < n {
        let (mut spec, tys) = extreme_ctx(&mut rng, false);
        spec.funs.clear();
        spec.vars.retain(|(n, _)| n != "vfn");
        let vars: Vec<(String, CT)> = tys.iter().filter_map(|(n, t)| of_ty(t).map(|c| (n.clone(), c))).collect();
        let tenv = format!(
            "(tenv{})",
            vars.iter().rev().map(|(n, t)| format!(" ({} {})", sx_str(n), ct_wire(t))).collect::<String>()
        );
        let ctxw = spec.wire();
        let ctx: Context<'static> = spec.build();
        for _ in 0..50 {
            if i >= n {
                break;
            }
            let mut g = G { rng: &mut rng, vars: vars.clone(), boundary_pct: 30 };
            let ty = g.any_ty(1);
            let depth = 1 + g.rng.below(6) as u32;
            let tr = g.gen(&ty, depth);
            let src = tr.src.clone();
            let ctxr = &ctx;
            let imp = guarded(std::panic::AssertUnwindSafe(move || match Program::compile(&src) {
                Err(_) => "(reject)".to_string(),
                Ok(p) => sx_result(&p.execute(ctxr)),
            }));
            let imp = if imp == "(reject)" || imp == "(crash)" { imp } else { format!("(c03 typed {} (log) {})", imp, imp) };
            em.case(
                &format!("(c03 {} {} {} {})", ctxw, tenv, tr.wire, sx_str(&tr.src)),
                &imp,
                &format!("nt={};kind=typed-{}", (tr.ops >= 2) as u8, ct_wire(&ty).replace(' ', "_")),
                &format!("{}  [ctx:{}]", tr.src, spec.describe()),
            );
            i += 1;
        }
    }
}
