//! Generated programs against generated contexts: the shared stream of the evaluator family.
use crate::gen::*;
use crate::prog::*;
use crate::rng::Rng;
use crate::Emit;

pub struct Profile {
    pub n: u64,
    pub depth: u32,
    pub typed_pct: u64,
    pub wrap_pct: u64,
    pub boundary_pct: u64,
    pub with_time: bool,
    pub kind: &'static str,
}

pub fn run_profile(em: &mut Emit, seed: u64, p: &Profile) {
    let mut rng = Rng::new(seed ^ 0xE7A1);
    let mut i = 0;
    while i < p.n {
        // a fresh context every 50 programs
        let (spec, tys) = extreme_ctx(&mut rng, p.with_time);
        for _ in 0..50 {
            if i >= p.n {
                break;
            }
            let typed = rng.chance(p.typed_pct, 100);
            let depth = 1 + rng.below(p.depth as u64) as u32;
            let src = {
                let mut g = Gen {
                    rng: &mut rng,
                    vars: tys.clone(),
                    idfns: vec!["idf".to_string()],
                    wrap_pct: p.wrap_pct,
                    boundary_pct: p.boundary_pct,
                    macros: true,
                };
                if typed {
                    let t = g.rand_ty(1);
                    g.typed(&t, depth)
                } else {
                    g.untyped(depth)
                }
            };
            let ops = src.matches(|c: char| "+-*/%<>=!&|?[.(".contains(c)).count();
            let tags = format!(
                "nt={};kind={}-{}",
                (ops >= 2) as u8,
                p.kind,
                if typed { "typed" } else { "untyped" }
            );
            emit_program(em, &src, &spec, &tags);
            i += 1;
        }
    }
}
