//! Contexts as data: variables plus host functions from a fixed menu of Rust closures, each
//! mirrored by an FDEF the model understands.  Host closures log every invocation.
use crate::wire::*;
use cel_interpreter::extractors::{Arguments, Identifier, This};
use cel_interpreter::{Context, ExecutionError, FunctionContext, Value};
use std::cell::RefCell;
use std::sync::Arc;

thread_local! {
    pub static LOG: RefCell<Vec<String>> = RefCell::new(Vec::new());
}

pub fn take_log() -> Vec<String> {
    LOG.with(|l| std::mem::take(&mut *l.borrow_mut()))
}

pub fn logcall(name: &str, args: &[Value]) {
    let mut s = format!("(call {}", sx_str(name));
    for a in args {
        s.push(' ');
        s.push_str(&sx_value(a));
    }
    s.push(')');
    LOG.with(|l| l.borrow_mut().push(s));
}

type R = Result<Value, ExecutionError>;

fn sum(vs: &[Value]) -> R {
    let mut it = vs.iter();
    match it.next() {
        None => Ok(Value::Null),
        Some(first) => {
            let mut acc = first.clone();
            for x in it {
                acc = (acc + x.clone())?;
            }
            Ok(acc)
        }
    }
}

fn fail(name: &str) -> R {
    Err(ExecutionError::function_error(name, "host failure"))
}

#[derive(Clone, Debug)]
pub struct HostFn {
    /// menu entry
    pub kind: &'static str,
    /// name it is registered under
    pub name: String,
}

/// (menu kind, params in wire form, body in wire form)
pub const MENU: &[(&str, &str, &str)] = &[
    ("h0", "", "(const (int 7))"),
    ("hfail0", "", "fail"),
    ("hv1", "(arg value)", "(arg 0)"),
    ("hfail1", "(arg value)", "fail"),
    ("hv2", "(arg value) (arg value)", "sum"),
    ("hv2b", "(arg value) (arg value)", "(arg 1)"),
    ("hv3", "(arg value) (arg value) (arg value)", "(arg 2)"),
    ("hv4", "(arg value) (arg value) (arg value) (arg value)", "sum"),
    ("hv5", "(arg value) (arg value) (arg value) (arg value) (arg value)", "(arg 4)"),
    ("hv6", "(arg value) (arg value) (arg value) (arg value) (arg value) (arg value)", "sum"),
    ("hv7", "(arg value) (arg value) (arg value) (arg value) (arg value) (arg value) (arg value)", "(arg 6)"),
    ("hv8", "(arg value) (arg value) (arg value) (arg value) (arg value) (arg value) (arg value) (arg value)", "sum"),
    ("hv9", "(arg value) (arg value) (arg value) (arg value) (arg value) (arg value) (arg value) (arg value) (arg value)", "(arg 8)"),
    ("hi1", "(arg int)", "(arg 0)"),
    ("hu1", "(arg uint)", "(arg 0)"),
    ("hd1", "(arg dbl)", "(arg 0)"),
    ("hs1", "(arg str)", "(arg 0)"),
    ("hb1", "(arg bytes)", "(arg 0)"),
    ("hbool1", "(arg bool)", "(arg 0)"),
    ("hl1", "(arg list)", "(arg 0)"),
    ("hdur1", "(arg dur)", "(arg 0)"),
    ("hts1", "(arg ts)", "(arg 0)"),
    ("hi2", "(arg int) (arg int)", "sum"),
    ("hs2", "(arg str) (arg str)", "sum"),
    ("his", "(arg int) (arg str)", "(arg 1)"),
    ("hthis", "(this value)", "(arg 0)"),
    ("hthis_v", "(this value) (arg value)", "(arg 1)"),
    ("hthis_vv", "(this value) (arg value) (arg value)", "sum"),
    ("hthis_i", "(this int)", "(arg 0)"),
    ("hthis_s_s", "(this str) (arg str)", "sum"),
    ("hthis_opt_i", "(thisopt int)", "(arg 0)"),
    ("hthis_opt_s_v", "(thisopt str) (arg value)", "(arg 0)"),
    ("hargs", "args", "(arg 0)"),
    ("hargs_fail", "args", "fail"),
    ("hident", "ident", "(arg 0)"),
    ("hident_v", "ident (arg value)", "(arg 1)"),
    ("hv_ident", "(arg value) ident", "(arg 1)"),
    ("hexpr", "expr", "(const (int 1))"),
    ("hexpr_v", "expr (arg value)", "(arg 1)"),
    ("hftx_v", "(arg value)", "(arg 0)"),
    ("hftx_this_v", "(this value) (arg value)", "sum"),
    // the receiver is not the first parameter
    ("hv_this", "(arg value) (this value)", "(arg 1)"),
    // the all-arguments extractor next to others: it yields every argument wherever it stands
    ("hv_args", "(arg value) args", "(arg 1)"),
    ("hthis_args", "(this value) args", "(arg 1)"),
    ("hargs_v", "args (arg value)", "(arg 1)"),
    ("hi_s_args", "(arg int) (arg str) args", "(arg 2)"),
    ("hi_this_i", "(arg int) (this int)", "(arg 1)"),
    ("hv_v_this", "(arg value) (arg value) (this value)", "(arg 2)"),
    // two receiver extractors in one signature: each takes the receiver, or its own argument
    ("hthis_this", "(this value) (this value)", "sum"),
    ("hthis_i_v_this", "(this int) (arg value) (this value)", "(arg 2)"),
];

pub fn menu_entry(kind: &str) -> (&'static str, &'static str, &'static str) {
    *MENU.iter().find(|m| m.0 == kind).expect("menu kind")
}

pub fn fdef_wire(kind: &str) -> String {
    let (_, ps, body) = menu_entry(kind);
    format!("(fn (params {}) {})", ps, body)
}

fn opt_i(o: Option<i64>) -> Value {
    o.map(Value::Int).unwrap_or(Value::Null)
}
fn opt_s(o: Option<Arc<String>>) -> Value {
    o.map(Value::String).unwrap_or(Value::Null)
}

pub fn register(ctx: &mut Context, f: &HostFn) {
    let n = f.name.clone();
    let name = f.name.as_str();
    macro_rules! vals {
        ($($a:ident),*) => { vec![$($a.clone()),*] };
    }
    match f.kind {
        "h0" => ctx.add_function(name, move || -> R {
            logcall(&n, &[]);
            Ok(Value::Int(7))
        }),
        "hfail0" => ctx.add_function(name, move || -> R {
            logcall(&n, &[]);
            fail(&n)
        }),
        "hv1" => ctx.add_function(name, move |a: Value| -> R {
            logcall(&n, &[a.clone()]);
            Ok(a)
        }),
        "hfail1" => ctx.add_function(name, move |a: Value| -> R {
            logcall(&n, &[a]);
            fail(&n)
        }),
        "hv2" => ctx.add_function(name, move |a: Value, b: Value| -> R {
            let v = vals!(a, b);
            logcall(&n, &v);
            sum(&v)
        }),
        "hv2b" => ctx.add_function(name, move |a: Value, b: Value| -> R {
            logcall(&n, &vals!(a, b));
            Ok(b)
        }),
        "hv3" => ctx.add_function(name, move |a: Value, b: Value, c: Value| -> R {
            logcall(&n, &vals!(a, b, c));
            Ok(c)
        }),
        "hv4" => ctx.add_function(name, move |a: Value, b: Value, c: Value, d: Value| -> R {
            let v = vals!(a, b, c, d);
            logcall(&n, &v);
            sum(&v)
        }),
        "hv5" => ctx.add_function(
            name,
            move |a: Value, b: Value, c: Value, d: Value, e: Value| -> R {
                logcall(&n, &vals!(a, b, c, d, e));
                Ok(e)
            },
        ),
        "hv6" => ctx.add_function(
            name,
            move |a: Value, b: Value, c: Value, d: Value, e: Value, f: Value| -> R {
                let v = vals!(a, b, c, d, e, f);
                logcall(&n, &v);
                sum(&v)
            },
        ),
        "hv7" => ctx.add_function(
            name,
            move |a: Value, b: Value, c: Value, d: Value, e: Value, f: Value, g: Value| -> R {
                logcall(&n, &vals!(a, b, c, d, e, f, g));
                Ok(g)
            },
        ),
        "hv8" => ctx.add_function(
            name,
            move |a: Value,
                  b: Value,
                  c: Value,
                  d: Value,
                  e: Value,
                  f: Value,
                  g: Value,
                  h: Value|
                  -> R {
                let v = vals!(a, b, c, d, e, f, g, h);
                logcall(&n, &v);
                sum(&v)
            },
        ),
        "hv9" => ctx.add_function(
            name,
            move |a: Value,
                  b: Value,
                  c: Value,
                  d: Value,
                  e: Value,
                  f: Value,
                  g: Value,
                  h: Value,
                  i: Value|
                  -> R {
                logcall(&n, &vals!(a, b, c, d, e, f, g, h, i));
                Ok(i)
            },
        ),
        "hi1" => ctx.add_function(name, move |a: i64| -> R {
            logcall(&n, &[Value::Int(a)]);
            Ok(Value::Int(a))
        }),
        "hu1" => ctx.add_function(name, move |a: u64| -> R {
            logcall(&n, &[Value::UInt(a)]);
            Ok(Value::UInt(a))
        }),
        "hd1" => ctx.add_function(name, move |a: f64| -> R {
            logcall(&n, &[Value::Float(a)]);
            Ok(Value::Float(a))
        }),
        "hs1" => ctx.add_function(name, move |a: Arc<String>| -> R {
            logcall(&n, &[Value::String(a.clone())]);
            Ok(Value::String(a))
        }),
        "hb1" => ctx.add_function(name, move |a: Arc<Vec<u8>>| -> R {
            logcall(&n, &[Value::Bytes(a.clone())]);
            Ok(Value::Bytes(a))
        }),
        "hbool1" => ctx.add_function(name, move |a: bool| -> R {
            logcall(&n, &[Value::Bool(a)]);
            Ok(Value::Bool(a))
        }),
        "hl1" => ctx.add_function(name, move |a: Arc<Vec<Value>>| -> R {
            logcall(&n, &[Value::List(a.clone())]);
            Ok(Value::List(a))
        }),
        "hdur1" => ctx.add_function(name, move |a: chrono::Duration| -> R {
            logcall(&n, &[Value::Duration(a)]);
            Ok(Value::Duration(a))
        }),
        "hts1" => ctx.add_function(
            name,
            move |a: chrono::DateTime<chrono::FixedOffset>| -> R {
                logcall(&n, &[Value::Timestamp(a)]);
                Ok(Value::Timestamp(a))
            },
        ),
        "hi2" => ctx.add_function(name, move |a: i64, b: i64| -> R {
            let v = vec![Value::Int(a), Value::Int(b)];
            logcall(&n, &v);
            sum(&v)
        }),
        "hs2" => ctx.add_function(name, move |a: Arc<String>, b: Arc<String>| -> R {
            let v = vec![Value::String(a), Value::String(b)];
            logcall(&n, &v);
            sum(&v)
        }),
        "his" => ctx.add_function(name, move |a: i64, b: Arc<String>| -> R {
            logcall(&n, &[Value::Int(a), Value::String(b.clone())]);
            Ok(Value::String(b))
        }),
        "hthis" => ctx.add_function(name, move |This(t): This<Value>| -> R {
            logcall(&n, &[t.clone()]);
            Ok(t)
        }),
        "hthis_v" => ctx.add_function(name, move |This(t): This<Value>, a: Value| -> R {
            logcall(&n, &vals!(t, a));
            Ok(a)
        }),
        "hthis_vv" => ctx.add_function(
            name,
            move |This(t): This<Value>, a: Value, b: Value| -> R {
                let v = vals!(t, a, b);
                logcall(&n, &v);
                sum(&v)
            },
        ),
        "hthis_i" => ctx.add_function(name, move |This(t): This<i64>| -> R {
            logcall(&n, &[Value::Int(t)]);
            Ok(Value::Int(t))
        }),
        "hthis_s_s" => ctx.add_function(
            name,
            move |This(t): This<Arc<String>>, a: Arc<String>| -> R {
                let v = vec![Value::String(t), Value::String(a)];
                logcall(&n, &v);
                sum(&v)
            },
        ),
        "hthis_opt_i" => ctx.add_function(name, move |This(t): This<Option<i64>>| -> R {
            logcall(&n, &[opt_i(t)]);
            Ok(opt_i(t))
        }),
        "hthis_opt_s_v" => ctx.add_function(
            name,
            move |This(t): This<Option<Arc<String>>>, a: Value| -> R {
                logcall(&n, &[opt_s(t.clone()), a]);
                Ok(opt_s(t))
            },
        ),
        "hargs" => ctx.add_function(name, move |Arguments(a): Arguments| -> R {
            logcall(&n, &[Value::List(a.clone())]);
            Ok(Value::List(a))
        }),
        "hargs_fail" => ctx.add_function(name, move |Arguments(a): Arguments| -> R {
            logcall(&n, &[Value::List(a)]);
            fail(&n)
        }),
        "hident" => ctx.add_function(name, move |Identifier(i): Identifier| -> R {
            logcall(&n, &[Value::String(i.clone())]);
            Ok(Value::String(i))
        }),
        "hident_v" => ctx.add_function(name, move |Identifier(i): Identifier, a: Value| -> R {
            logcall(&n, &[Value::String(i), a.clone()]);
            Ok(a)
        }),
        "hv_ident" => ctx.add_function(name, move |a: Value, Identifier(i): Identifier| -> R {
            logcall(&n, &[a, Value::String(i.clone())]);
            Ok(Value::String(i))
        }),
        "hexpr" => ctx.add_function(name, move |_e: cel_parser::Expression| -> R {
            logcall(&n, &[Value::Null]);
            Ok(Value::Int(1))
        }),
        "hexpr_v" => ctx.add_function(name, move |_e: cel_parser::Expression, a: Value| -> R {
            logcall(&n, &[Value::Null, a.clone()]);
            Ok(a)
        }),
        "hftx_v" => ctx.add_function(name, move |_ftx: &FunctionContext, a: Value| -> R {
            logcall(&n, &[a.clone()]);
            Ok(a)
        }),
        "hftx_this_v" => ctx.add_function(
            name,
            move |_ftx: &FunctionContext, This(t): This<Value>, a: Value| -> R {
                let v = vals!(t, a);
                logcall(&n, &v);
                sum(&v)
            },
        ),
        "hv_this" => ctx.add_function(name, move |a: Value, This(t): This<Value>| -> R {
            logcall(&n, &[a, t.clone()]);
            Ok(t)
        }),
        "hi_this_i" => ctx.add_function(name, move |a: i64, This(t): This<i64>| -> R {
            logcall(&n, &[Value::Int(a), Value::Int(t)]);
            Ok(Value::Int(t))
        }),
        "hv_v_this" => ctx.add_function(name, move |a: Value, b: Value, This(t): This<Value>| -> R {
            logcall(&n, &[a, b, t.clone()]);
            Ok(t)
        }),
        "hthis_this" => ctx.add_function(name, move |This(a): This<Value>, This(b): This<Value>| -> R {
            let v = vec![a, b];
            logcall(&n, &v);
            sum(&v)
        }),
        "hthis_i_v_this" => ctx.add_function(name, move |This(a): This<i64>, b: Value, This(c): This<Value>| -> R {
            logcall(&n, &[Value::Int(a), b, c.clone()]);
            Ok(c)
        }),
        "hv_args" => ctx.add_function(name, move |a: Value, Arguments(all): Arguments| -> R {
            logcall(&n, &[a, Value::List(all.clone())]);
            Ok(Value::List(all))
        }),
        "hthis_args" => ctx.add_function(name, move |This(t): This<Value>, Arguments(all): Arguments| -> R {
            logcall(&n, &[t, Value::List(all.clone())]);
            Ok(Value::List(all))
        }),
        "hargs_v" => ctx.add_function(name, move |Arguments(all): Arguments, a: Value| -> R {
            logcall(&n, &[Value::List(all), a.clone()]);
            Ok(a)
        }),
        "hi_s_args" => ctx.add_function(name, move |a: i64, b: Arc<String>, Arguments(all): Arguments| -> R {
            logcall(&n, &[Value::Int(a), Value::String(b), Value::List(all.clone())]);
            Ok(Value::List(all))
        }),
        k => panic!("unknown menu kind {}", k),
    }
}

#[derive(Clone, Debug, Default)]
pub struct CtxSpec {
    pub vars: Vec<(String, Value)>,
    pub funs: Vec<HostFn>,
}

/// A copy whose list, string and bytes buffers are freshly allocated (maps are shared).
pub fn unshare(v: &Value) -> Value {
    match v {
        Value::List(l) => Value::List(Arc::new(l.iter().map(unshare).collect())),
        Value::String(s) => Value::String(Arc::new((**s).clone())),
        Value::Bytes(b) => Value::Bytes(Arc::new((**b).clone())),
        other => other.clone(),
    }
}

impl CtxSpec {
    pub fn build(&self) -> Context<'static> {
        let mut ctx = Context::default();
        for (n, v) in &self.vars {
            // the context is the only owner of its list / string / bytes buffers (as it is when a
            // host hands its data over): in-place shortcuts that look at owner counts must not be
            // masked by the handle this specification keeps.  Maps stay shared: a rebuilt hash map
            // would iterate in another order than the one written to the wire.
            ctx.add_variable_from_value(n.as_str(), unshare(v));
        }
        for f in &self.funs {
            register(&mut ctx, f);
        }
        ctx
    }

    /// Wire form.  Maps inside variables are written in the iteration order the
    /// implementation exhibits, so macros over context maps visit keys in the same order.
    pub fn wire(&self) -> String {
        let mut s = String::from("(ctx (scopes (scope");
        for (n, v) in &self.vars {
            s.push_str(&format!(" ({} {})", sx_str(n), sx_value_iter_order(v)));
        }
        s.push_str(")) (funs");
        for f in &self.funs {
            s.push_str(&format!(" ({} {})", sx_str(&f.name), fdef_wire(f.kind)));
        }
        s.push_str("))");
        s
    }

    /// Wire form with an inner scope (innermost first) holding `inner`.
    pub fn wire_with_inner(&self, inner: &[(String, Value)]) -> String {
        let mut s = String::from("(ctx (scopes (scope");
        for (n, v) in inner {
            s.push_str(&format!(" ({} {})", sx_str(n), sx_value_iter_order(v)));
        }
        s.push_str(") (scope");
        for (n, v) in &self.vars {
            s.push_str(&format!(" ({} {})", sx_str(n), sx_value_iter_order(v)));
        }
        s.push_str(")) (funs");
        for f in &self.funs {
            s.push_str(&format!(" ({} {})", sx_str(&f.name), fdef_wire(f.kind)));
        }
        s.push_str("))");
        s
    }

    pub fn describe(&self) -> String {
        let mut s = String::new();
        for (n, v) in &self.vars {
            s.push_str(&format!(" {}={}", n, sx_value(v)));
        }
        for f in &self.funs {
            s.push_str(&format!(" fn {}:{}", f.name, f.kind));
        }
        s
    }
}
