//! "Any serde type": a value of the serde data model whose Serialize impl drives exactly the
//! Serializer entry point its constructor names (every width, both map protocols), its wire
//! form for the model (widths collapsed: the model works on mathematical integers), the
//! wire form of serde_json documents, and generators for both.
use crate::rng::Rng;
use crate::wire::*;
use serde::ser::{
    Serialize, SerializeMap, SerializeSeq, SerializeStruct, SerializeStructVariant, SerializeTuple,
    SerializeTupleStruct, SerializeTupleVariant, Serializer,
};
use std::fmt::Write;

pub const NAMES: [&str; 12] = ["a", "b", "key", "Name", "x y", "", "ünï", "0", "1", "true", "-1", "😀"];

#[derive(Clone, Debug)]
pub enum SData {
    Bool(bool),
    I8(i8),
    I16(i16),
    I32(i32),
    I64(i64),
    U8(u8),
    U16(u16),
    U32(u32),
    U64(u64),
    I128(i128),
    U128(u128),
    F32(f32),
    F64(f64),
    Char(char),
    Str(String),
    Bytes(Vec<u8>),
    None,
    Some(Box<SData>),
    Unit,
    UnitStruct(&'static str),
    UnitVariant(&'static str, u32, &'static str),
    NewtypeStruct(&'static str, Box<SData>),
    NewtypeVariant(&'static str, u32, &'static str, Box<SData>),
    Seq(Vec<SData>, bool),
    Tuple(Vec<SData>),
    TupleStruct(&'static str, Vec<SData>),
    TupleVariant(&'static str, u32, &'static str, Vec<SData>),
    /// entries, length hint given, use serialize_entry (else serialize_key + serialize_value)
    Map(Vec<(SData, SData)>, bool, bool),
    Struct(&'static str, Vec<(&'static str, SData)>),
    StructVariant(&'static str, u32, &'static str, Vec<(&'static str, SData)>),
    Duration(chrono::Duration),
    Timestamp(chrono::DateTime<chrono::FixedOffset>),
}

thread_local! {
    /// How the lengths announced to the serializer relate to the true ones (they are only hints):
    /// 0 true, 1 usize::MAX, 2 2^40, 3 a thousand too many, 4 zero, 5 usize::MAX / 8.
    pub static HINT_MODE: std::cell::Cell<u8> = std::cell::Cell::new(0);
}
fn announced(len: usize) -> usize {
    match HINT_MODE.with(|m| m.get()) {
        1 => usize::MAX,
        2 => 1 << 40,
        3 => len + 1000,
        4 => 0,
        5 => usize::MAX / 8,
        _ => len,
    }
}

impl Serialize for SData {
    fn serialize<S: Serializer>(&self, s: S) -> Result<S::Ok, S::Error> {
        match self {
            SData::Bool(b) => s.serialize_bool(*b),
            SData::I8(v) => s.serialize_i8(*v),
            SData::I16(v) => s.serialize_i16(*v),
            SData::I32(v) => s.serialize_i32(*v),
            SData::I64(v) => s.serialize_i64(*v),
            SData::U8(v) => s.serialize_u8(*v),
            SData::U16(v) => s.serialize_u16(*v),
            SData::U32(v) => s.serialize_u32(*v),
            SData::U64(v) => s.serialize_u64(*v),
            SData::I128(v) => s.serialize_i128(*v),
            SData::U128(v) => s.serialize_u128(*v),
            SData::F32(v) => s.serialize_f32(*v),
            SData::F64(v) => s.serialize_f64(*v),
            SData::Char(c) => s.serialize_char(*c),
            SData::Str(x) => s.serialize_str(x),
            SData::Bytes(b) => s.serialize_bytes(b),
            SData::None => s.serialize_none(),
            SData::Some(d) => s.serialize_some(&**d),
            SData::Unit => s.serialize_unit(),
            SData::UnitStruct(n) => s.serialize_unit_struct(n),
            SData::UnitVariant(n, i, v) => s.serialize_unit_variant(n, *i, v),
            SData::NewtypeStruct(n, d) => s.serialize_newtype_struct(n, &**d),
            SData::NewtypeVariant(n, i, v, d) => s.serialize_newtype_variant(n, *i, v, &**d),
            SData::Seq(l, hint) => {
                let mut q = s.serialize_seq(if *hint { Some(announced(l.len())) } else { None })?;
                for x in l {
                    q.serialize_element(x)?;
                }
                q.end()
            }
            SData::Tuple(l) => {
                let mut q = s.serialize_tuple(announced(l.len()))?;
                for x in l {
                    q.serialize_element(x)?;
                }
                q.end()
            }
            SData::TupleStruct(n, l) => {
                let mut q = s.serialize_tuple_struct(n, announced(l.len()))?;
                for x in l {
                    q.serialize_field(x)?;
                }
                q.end()
            }
            SData::TupleVariant(n, i, v, l) => {
                let mut q = s.serialize_tuple_variant(n, *i, v, announced(l.len()))?;
                for x in l {
                    q.serialize_field(x)?;
                }
                q.end()
            }
            SData::Map(es, hint, entry_api) => {
                let mut q = s.serialize_map(if *hint { Some(announced(es.len())) } else { None })?;
                for (k, v) in es {
                    if *entry_api {
                        q.serialize_entry(k, v)?;
                    } else {
                        q.serialize_key(k)?;
                        q.serialize_value(v)?;
                    }
                }
                q.end()
            }
            SData::Struct(n, fs) => {
                let mut q = s.serialize_struct(n, fs.len())?;
                for (k, v) in fs {
                    q.serialize_field(k, v)?;
                }
                q.end()
            }
            SData::StructVariant(n, i, v, fs) => {
                let mut q = s.serialize_struct_variant(n, *i, v, announced(fs.len()))?;
                for (k, x) in fs {
                    q.serialize_field(k, x)?;
                }
                q.end()
            }
            SData::Duration(d) => cel_interpreter::Duration(*d).serialize(s),
            SData::Timestamp(t) => cel_interpreter::Timestamp(*t).serialize(s),
        }
    }
}

fn hexf(f: f64) -> String {
    let bits = if f.is_nan() { 0x7ff8000000000000u64 } else { f.to_bits() };
    format!("{:016x}", bits)
}

pub fn sx_sdata(d: &SData, o: &mut String) {
    let many = |tag: &str, l: &Vec<SData>, o: &mut String| {
        o.push('(');
        o.push_str(tag);
        for x in l {
            o.push(' ');
            sx_sdata(x, o);
        }
        o.push(')');
    };
    let fields = |fs: &Vec<(&'static str, SData)>, o: &mut String| {
        for (k, x) in fs {
            o.push_str(" (");
            o.push_str(&sx_str(k));
            o.push(' ');
            sx_sdata(x, o);
            o.push(')');
        }
    };
    match d {
        SData::Bool(b) => write!(o, "(sbool {})", b).unwrap(),
        SData::I8(v) => write!(o, "(sint {})", v).unwrap(),
        SData::I16(v) => write!(o, "(sint {})", v).unwrap(),
        SData::I32(v) => write!(o, "(sint {})", v).unwrap(),
        SData::I64(v) => write!(o, "(sint {})", v).unwrap(),
        SData::U8(v) => write!(o, "(suint {})", v).unwrap(),
        SData::U16(v) => write!(o, "(suint {})", v).unwrap(),
        SData::U32(v) => write!(o, "(suint {})", v).unwrap(),
        SData::U64(v) => write!(o, "(suint {})", v).unwrap(),
        SData::I128(_) | SData::U128(_) => o.push_str("sbig"),
        SData::F32(v) => write!(o, "(sfloat {})", hexf(*v as f64)).unwrap(),
        SData::F64(v) => write!(o, "(sfloat {})", hexf(*v)).unwrap(),
        SData::Char(c) => write!(o, "(schar {})", *c as u32).unwrap(),
        SData::Str(x) => {
            o.push_str("(sstr");
            str_cps(x, o);
            o.push(')');
        }
        SData::Bytes(b) => {
            o.push_str("(sbytes");
            for x in b {
                write!(o, " {}", x).unwrap();
            }
            o.push(')');
        }
        SData::None => o.push_str("snone"),
        SData::Some(x) => {
            o.push_str("(ssome ");
            sx_sdata(x, o);
            o.push(')');
        }
        SData::Unit => o.push_str("sunit"),
        SData::UnitStruct(_) => o.push_str("sunitstruct"),
        SData::UnitVariant(_, _, v) => write!(o, "(sunitvariant {})", sx_str(v)).unwrap(),
        SData::NewtypeStruct(_, x) => {
            o.push_str("(snewtype ");
            sx_sdata(x, o);
            o.push(')');
        }
        SData::NewtypeVariant(_, _, v, x) => {
            write!(o, "(snewtypevariant {} ", sx_str(v)).unwrap();
            sx_sdata(x, o);
            o.push(')');
        }
        SData::Seq(l, _) => many("sseq", l, o),
        SData::Tuple(l) => many("stuple", l, o),
        SData::TupleStruct(_, l) => many("stuplestruct", l, o),
        SData::TupleVariant(_, _, v, l) => {
            write!(o, "(stuplevariant {}", sx_str(v)).unwrap();
            for x in l {
                o.push(' ');
                sx_sdata(x, o);
            }
            o.push(')');
        }
        SData::Map(es, _, _) => {
            o.push_str("(smap");
            for (k, x) in es {
                o.push_str(" (");
                sx_sdata(k, o);
                o.push(' ');
                sx_sdata(x, o);
                o.push(')');
            }
            o.push(')');
        }
        SData::Struct(_, fs) => {
            o.push_str("(sstruct");
            fields(fs, o);
            o.push(')');
        }
        SData::StructVariant(_, _, v, fs) => {
            write!(o, "(sstructvariant {}", sx_str(v)).unwrap();
            fields(fs, o);
            o.push(')');
        }
        SData::Duration(d) => write!(o, "(sduration {})", dur_ns(d)).unwrap(),
        SData::Timestamp(t) => write!(o, "(stimestamp {} {})", ts_ns(t), t.offset().local_minus_utc()).unwrap(),
    }
}

pub fn sdata_wire(d: &SData) -> String {
    let mut o = String::new();
    sx_sdata(d, &mut o);
    o
}

pub fn sx_json(j: &serde_json::Value, o: &mut String) {
    match j {
        serde_json::Value::Null => o.push_str("null"),
        serde_json::Value::Bool(b) => write!(o, "(bool {})", b).unwrap(),
        serde_json::Value::Number(n) => {
            if let Some(u) = n.as_u64() {
                write!(o, "(num {})", u).unwrap()
            } else if let Some(i) = n.as_i64() {
                write!(o, "(num {})", i).unwrap()
            } else {
                write!(o, "(fnum {})", hexf(n.as_f64().unwrap())).unwrap()
            }
        }
        serde_json::Value::String(s) => o.push_str(&sx_str(s)),
        serde_json::Value::Array(l) => {
            o.push_str("(arr");
            for x in l {
                o.push(' ');
                sx_json(x, o);
            }
            o.push(')');
        }
        serde_json::Value::Object(m) => {
            o.push_str("(obj");
            for (k, x) in m {
                o.push_str(" (");
                o.push_str(&sx_str(k));
                o.push(' ');
                sx_json(x, o);
                o.push(')');
            }
            o.push(')');
        }
    }
}

pub fn json_wire(j: &serde_json::Value) -> String {
    let mut o = String::new();
    sx_json(j, &mut o);
    o
}

// ------------------------------------------------------------------------------ generators

pub fn rand_string(rng: &mut Rng) -> String {
    const POOL: [&str; 14] = ["", "a", "b", "ab", "key", "0", "1", "-1", "true", "false", "é", "😀", "x y", "1.5"];
    if rng.chance(3, 4) {
        rng.pick(&POOL).to_string()
    } else {
        let n = rng.below(6);
        (0..n)
            .map(|_| match rng.below(5) {
                0 => char::from_u32(rng.below(0x80) as u32).unwrap(),
                1 => char::from_u32(0xa0 + rng.below(0x700) as u32).unwrap(),
                2 => char::from_u32(0x1f600 + rng.below(64) as u32).unwrap(),
                _ => (b'a' + rng.below(26) as u8) as char,
            })
            .collect()
    }
}

pub fn rand_f64(rng: &mut Rng) -> f64 {
    match rng.below(8) {
        0 => *rng.pick(&[0.0, -0.0, 1.0, -1.0, 0.5, 1e300, 5e-324, 9007199254740993.0, 1.5]),
        1 => *rng.pick(&[f64::NAN, f64::INFINITY, f64::NEG_INFINITY]),
        2 => rng.log_i64() as f64,
        3 => rng.range(-1000, 1000) as f64 / 8.0,
        _ => {
            let f = f64::from_bits(rng.next());
            if f.is_nan() {
                f64::NAN
            } else {
                f
            }
        }
    }
}

pub fn rand_duration(rng: &mut Rng) -> chrono::Duration {
    match rng.below(6) {
        0 => *rng.pick(&[
            chrono::Duration::zero(),
            chrono::Duration::MAX,
            chrono::Duration::MIN,
            chrono::Duration::nanoseconds(i64::MAX),
            chrono::Duration::nanoseconds(i64::MIN),
            chrono::Duration::nanoseconds(-1),
            chrono::Duration::nanoseconds(1),
            chrono::Duration::nanoseconds(-1_000_000_001),
            chrono::Duration::nanoseconds(-999_999_999),
        ]),
        1 => {
            // around the 2^63 ns limit
            let base = chrono::Duration::nanoseconds(if rng.chance(1, 2) { i64::MAX } else { i64::MIN });
            base.checked_add(&chrono::Duration::nanoseconds(rng.range(-3, 3))).unwrap_or(base)
        }
        2 => chrono::Duration::milliseconds(rng.log_i64().clamp(-i64::MAX / 1000, i64::MAX / 1000))
            .checked_add(&chrono::Duration::nanoseconds(rng.range(0, 999_999)))
            .unwrap_or(chrono::Duration::zero()),
        _ => chrono::Duration::nanoseconds(rng.log_i64()),
    }
}

pub fn rand_timestamp(rng: &mut Rng) -> chrono::DateTime<chrono::FixedOffset> {
    use chrono::TimeZone;
    let secs = match rng.below(5) {
        0 => *rng.pick(&[0i64, -1, 1, 951782400, 253402300799, 253402300800, -62167219200, -62167219201, 1700000000]),
        1 => rng.range(-62167219200, 253402300799),
        2 => rng.range(-8334601228800, 8210266876799),
        _ => rng.range(0, 4102444800),
    };
    let nanos = match rng.below(4) {
        0 => 0,
        1 => 999_999_999,
        2 => (rng.below(1000) * 1_000_000) as u32,
        _ => rng.below(1_000_000_000) as u32,
    };
    let off = match rng.below(5) {
        0 => 0,
        1 => rng.range(-23, 23) as i32 * 3600,
        2 => rng.range(-1439, 1439) as i32 * 60,
        3 => rng.range(-86399, 86399) as i32,
        _ => *rng.pick(&[19800, -12600, 3600, -3600, 50400]),
    };
    let tz = chrono::FixedOffset::east_opt(off).unwrap();
    match chrono::DateTime::from_timestamp(secs, nanos) {
        Some(t) => t.with_timezone(&tz),
        None => tz.timestamp_opt(0, 0).unwrap(),
    }
}

fn name(rng: &mut Rng) -> &'static str {
    NAMES[rng.below(NAMES.len() as u64) as usize]
}

pub fn rand_scalar(rng: &mut Rng) -> SData {
    match rng.below(24) {
        0 => SData::Bool(rng.chance(1, 2)),
        1 => SData::I8(rng.next() as i8),
        2 => SData::I16(rng.next() as i16),
        3 => SData::I32(rng.next() as i32),
        4 => SData::I64(rng.log_i64()),
        5 => SData::I64(*rng.pick(&[i64::MIN, i64::MAX, 0, -1, 1])),
        6 => SData::U8(rng.next() as u8),
        7 => SData::U16(rng.next() as u16),
        8 => SData::U32(rng.next() as u32),
        9 => SData::U64(rng.log_u64()),
        10 => SData::U64(*rng.pick(&[u64::MAX, 0, 1, i64::MAX as u64, i64::MAX as u64 + 1])),
        11 => {
            if rng.chance(1, 2) {
                SData::I128(rng.log_i64() as i128 * if rng.chance(1, 2) { 1 } else { 1 << 40 })
            } else {
                SData::U128(rng.log_u64() as u128 * if rng.chance(1, 2) { 1 } else { 1 << 40 })
            }
        }
        12 => SData::F32(rand_f64(rng) as f32),
        13 | 14 => SData::F64(rand_f64(rng)),
        15 => SData::Char(*rng.pick(&['a', '0', '1', 'é', '😀', '\0', ' ', '\u{10ffff}'])),
        16 | 17 => SData::Str(rand_string(rng)),
        18 => SData::Bytes((0..rng.below(7)).map(|_| rng.next() as u8).collect()),
        19 => SData::None,
        20 => {
            if rng.chance(1, 2) {
                SData::Unit
            } else {
                SData::UnitStruct(name(rng))
            }
        }
        21 => SData::UnitVariant(name(rng), rng.below(4) as u32, name(rng)),
        22 => SData::Duration(rand_duration(rng)),
        _ => SData::Timestamp(rand_timestamp(rng)),
    }
}

/// Map keys: mostly the supported kinds, some unsupported ones.
pub fn rand_key(rng: &mut Rng, homogeneous: u64) -> SData {
    let kind = if homogeneous < 8 { homogeneous } else { rng.below(14) };
    match kind {
        0 => SData::Str(rand_string(rng)),
        1 => SData::I64(rng.range(-3, 3)),
        2 => SData::U64(rng.below(4)),
        3 => SData::Bool(rng.chance(1, 2)),
        4 => SData::Char(*rng.pick(&['a', '0', '1', 'é'])),
        5 => SData::I32(rng.next() as i32),
        6 => SData::UnitVariant(name(rng), 0, name(rng)),
        7 => match rng.below(5) {
            0 => SData::U8(rng.next() as u8),
            1 => SData::U16(rng.next() as u16),
            2 => SData::U32(rng.next() as u32),
            3 => SData::I8(rng.next() as i8),
            _ => SData::I16(rng.next() as i16),
        },
        8 => SData::Some(Box::new(rand_key(rng, 99))),
        9 => SData::NewtypeStruct(name(rng), Box::new(rand_key(rng, 99))),
        10 => SData::F64(rand_f64(rng)),
        11 => *Box::new(rand_scalar(rng)),
        12 => SData::Seq(vec![SData::I64(1)], true),
        _ => SData::Str(rand_string(rng)),
    }
}

pub fn rand_sdata(rng: &mut Rng, depth: u32) -> SData {
    if depth == 0 || rng.chance(3, 10) {
        return rand_scalar(rng);
    }
    let n = rng.below(4) as usize;
    let kids = |rng: &mut Rng| -> Vec<SData> { (0..n).map(|_| rand_sdata(rng, depth - 1)).collect() };
    let fields = |rng: &mut Rng| -> Vec<(&'static str, SData)> {
        (0..n).map(|_| (name(rng), rand_sdata(rng, depth - 1))).collect()
    };
    match rng.below(13) {
        0 => SData::Some(Box::new(rand_sdata(rng, depth - 1))),
        1 => SData::NewtypeStruct(name(rng), Box::new(rand_sdata(rng, depth - 1))),
        2 => SData::NewtypeVariant(name(rng), rng.below(4) as u32, name(rng), Box::new(rand_sdata(rng, depth - 1))),
        3 | 4 => SData::Seq(kids(rng), rng.chance(1, 2)),
        5 => SData::Tuple(kids(rng)),
        6 => SData::TupleStruct(name(rng), kids(rng)),
        7 => SData::TupleVariant(name(rng), rng.below(4) as u32, name(rng), kids(rng)),
        8 | 9 => {
            let hom = if rng.chance(4, 5) { rng.below(8) } else { 99 };
            SData::Map(
                (0..n).map(|_| (rand_key(rng, hom), rand_sdata(rng, depth - 1))).collect(),
                rng.chance(1, 2),
                rng.chance(1, 2),
            )
        }
        10 | 11 => SData::Struct(name(rng), fields(rng)),
        _ => SData::StructVariant(name(rng), rng.below(4) as u32, name(rng), fields(rng)),
    }
}

pub fn rand_json(rng: &mut Rng, depth: u32) -> serde_json::Value {
    use serde_json::Value as J;
    if depth == 0 || rng.chance(3, 10) {
        return match rng.below(8) {
            0 => J::Null,
            1 => J::Bool(rng.chance(1, 2)),
            2 => J::from(rng.log_i64()),
            3 => J::from(rng.log_u64()),
            4 => J::from(rand_f64(rng)), // non-finite becomes null
            5 => J::from(*rng.pick(&[0i64, -1, i64::MIN, i64::MAX])),
            _ => J::String(rand_string(rng)),
        };
    }
    let n = rng.below(4);
    if rng.chance(1, 2) {
        J::Array((0..n).map(|_| rand_json(rng, depth - 1)).collect())
    } else {
        let mut m = serde_json::Map::new();
        for _ in 0..n {
            m.insert(rand_string(rng), rand_json(rng, depth - 1));
        }
        J::Object(m)
    }
}
