//! C10: the comprehension macros compute their defining folds.
use crate::ctxgen::*;
use crate::prog::*;
use crate::rng::Rng;
use crate::wire::*;
use crate::{guarded, Emit};
use cel_interpreter::objects::{Key, Map};
use cel_interpreter::Value;
use std::collections::HashMap;
use std::sync::Arc;

const PREDS: &[&str] = &[
    "x > 1",
    "x == 2",
    "true",
    "false",
    "1 / (x - 2) > 0",
    "boom(x)",
    "idf(x) > 1",
    "idf(x) == 2 || 1 / (x - 3) > 0",
    "x",
    "[x].exists(y, y > 1)",
    "l2.all(y, idf(y) < x)",
    "x > 0 && idf(x) < 3",
];
const XFORMS: &[&str] = &[
    "x * 2",
    "idf(x)",
    "1 / (x - 2)",
    "[x]",
    "l2.map(y, x + y)",
    "[x, x].filter(y, y > 1)",
];

fn spec(extra: Vec<(String, Value)>) -> CtxSpec {
    let mut vars = vec![(
        "l2".to_string(),
        Value::List(Arc::new(vec![Value::Int(1), Value::Int(2)])),
    )];
    vars.extend(extra);
    CtxSpec {
        vars,
        funs: vec![
            HostFn { kind: "hv1", name: "idf".into() },
            HostFn { kind: "hfail1", name: "boom".into() },
        ],
    }
}

fn programs_for(range: &str, out: &mut Vec<(String, bool)>) {
    for p in PREDS {
        let obs = p.contains("idf") || p.contains("boom") || p.contains('/');
        for m in ["all", "exists", "exists_one", "existsOne", "filter"] {
            out.push((format!("{}.{}(x, {})", range, m, p), obs));
        }
    }
    for f in XFORMS {
        let obs = f.contains("idf") || f.contains('/');
        out.push((format!("{}.map(x, {})", range, f), obs));
        for p in ["x > 1", "idf(x) != 2", "1 / (x - 1) > 0", "x"] {
            out.push((format!("{}.map(x, {}, {})", range, p, f), true));
        }
    }
}

fn all_lists(alpha: &[i64], maxlen: usize) -> Vec<Vec<i64>> {
    let mut res = vec![vec![]];
    let mut frontier = vec![vec![]];
    for _ in 0..maxlen {
        let mut next = Vec::new();
        for l in &frontier {
            for a in alpha {
                let mut l2: Vec<i64> = l.clone();
                l2.push(*a);
                next.push(l2);
            }
        }
        res.extend(next.iter().cloned());
        frontier = next;
    }
    res
}

fn expansion_cases(em: &mut Emit) {
    // the expansion itself: parse(R.m(x, P)) must equal expand_call m parse(R) [x; parse(P)]
    let ranges = ["l", "[1, 2]", "a.b", "l.map(z, z + 1)", "f(l)"];
    let bodies = ["x > 1", "x", "l.all(y, y > x)", "has(x.a)", "x + y.size()"];
    let parse = |s: &str| -> Option<String> {
        let s = s.to_string();
        let r = guarded(move || match cel_parser::Parser::default().parse(&s) {
            Ok(e) => sx_expr(&e),
            Err(_) => "(reject)".into(),
        });
        if r == "(reject)" || r == "(crash)" {
            None
        } else {
            Some(r)
        }
    };
    let parse_or = |s: &str| -> String {
        let s = s.to_string();
        guarded(move || match cel_parser::Parser::default().parse(&s) {
            Ok(e) => format!("(ok {})", sx_expr(&e)),
            Err(_) => "(reject)".into(),
        })
    };
    for r in ranges {
        for b in bodies {
            for m in ["all", "exists", "exists_one", "existsOne", "filter", "map", "notamacro"] {
                for var in ["x", "1", "a.b"] {
                    let src = format!("{}.{}({}, {})", r, m, var, b);
                    if let (Some(pr), Some(pv), Some(pb)) = (parse(r), parse(var), parse(b)) {
                        let req = format!("(expand {} (some {}) {} {})", sx_str(m), pr, pv, pb);
                        em.case(&req, &parse_or(&src), "nt=1;kind=expand", &src);
                    }
                }
            }
            // three-argument map, one-argument forms, global forms
            let src = format!("{}.map(x, {}, x)", r, b);
            if let (Some(pr), Some(pb)) = (parse(r), parse(b)) {
                let req = format!("(expand {} (some {}) (id 120) {} (id 120))", sx_str("map"), pr, pb);
                em.case(&req, &parse_or(&src), "nt=1;kind=expand", &src);
                let src = format!("{}.all({})", r, b);
                let req = format!("(expand {} (some {}) {})", sx_str("all"), pr, pb);
                em.case(&req, &parse_or(&src), "nt=1;kind=expand", &src);
                let src = format!("all({}, x, {})", r, b);
                let req = format!("(expand {} none {} (id 120) {})", sx_str("all"), pr, pb);
                em.case(&req, &parse_or(&src), "nt=1;kind=expand", &src);
            }
        }
    }
    for a in ["a.b", "a", "a.b.c", "f(a).b", "1", "a[0]", "has(a.b)"] {
        let src = format!("has({})", a);
        if let Some(pa) = parse(a) {
            let req = format!("(expand {} none {})", sx_str("has"), pa);
            em.case(&req, &parse_or(&src), "nt=1;kind=expand", &src);
            let src = format!("x.has({})", a);
            let req = format!("(expand {} (some (id 120)) {})", sx_str("has"), pa);
            em.case(&req, &parse_or(&src), "nt=1;kind=expand", &src);
        }
    }
}

pub fn run(em: &mut Emit, thorough: bool, seed: u64) {
    // a host function that reads the iteration variable through its FunctionContext sees the current element
    crate::s_c11::host_lookup_law(em);
    expansion_cases(em);
    let lists = all_lists(&[0, 1, 2, 3], if thorough { 6 } else { 4 });
    let mut progs: Vec<(String, bool)> = Vec::new();
    programs_for("l", &mut progs);
    for l in &lists {
        let lv = Value::List(Arc::new(l.iter().map(|i| Value::Int(*i)).collect()));
        let sp = spec(vec![("l".into(), lv)]);
        let long = l.len() >= 2;
        for (p, obs) in &progs {
            // literal-range spelling for short lists as well
            let tags = format!("nt={};kind=c10-list", (long || *obs) as u8);
            emit_program(em, p, &sp, &tags);
        }
        if l.len() <= 2 {
            let lit = format!("[{}]", l.iter().map(|i| i.to_string()).collect::<Vec<_>>().join(", "));
            let mut lp = Vec::new();
            programs_for(&lit, &mut lp);
            for (p, obs) in &lp {
                emit_program(em, p, &sp, &format!("nt={};kind=c10-literal", *obs as u8));
            }
        }
    }
    // maps: ranging over keys in the map's own iteration order (told to the model)
    let mut rng = Rng::new(seed ^ 0xC10);
    for _ in 0..(if thorough { 4000 } else { 300 }) {
        let n = rng.below(5);
        let mut m = HashMap::new();
        for _ in 0..n {
            m.insert(Key::Int(rng.range(0, 3)), Value::Int(rng.range(0, 9)));
        }
        let sp = spec(vec![("l".into(), Value::Map(Map { map: Arc::new(m) }))]);
        for (p, _) in &progs {
            emit_program(em, p, &sp, "nt=1;kind=c10-map");
        }
    }
    // maps whose keys are of every key kind (the iteration variable is the key itself: its kind
    // and its full 64-bit value), and bodies that are constants
    let key_pool = [Key::Int(0), Key::Int(1), Key::Int(2), Key::Int(-1), Key::Int(i64::MIN), Key::Int(i64::MAX), Key::Uint(1), Key::Uint(2),
                    Key::Uint(u64::MAX), Key::Uint(1 << 63), Key::Bool(true), Key::Bool(false),
                    Key::String(Arc::new("a".to_string())), Key::String(Arc::new("é".to_string()))];
    let key_progs = ["l.map(x, x)", "l.filter(x, true)", "l.filter(x, false)", "l.all(x, true)", "l.exists(x, false)", "l.exists_one(x, true)",
                     "l.map(x, true, x)", "l.map(x, [x, x])", "l.exists(x, x == 1u)", "l.map(x, x + 1u)", "l.map(x, x + 1)",
                     "l.map(x, string(x))", "l.filter(x, x in l)", "l.map(x, l[x])", "l.all(x, x >= 1u)", "l.filter(x, x > 0)",
                     "l.map(x, x == 18446744073709551615u)", "l.map(x, x == -1)", "l.map(x, {x: 1})", "l.map(x, l.map(y, [y, x]))",
                     "l.filter(x, l.exists(y, y == x))", "l.map(x, idf(x))", "l.exists_one(x, x == 2)", "l.map(x, x > 1, x)",
                     "l.map(x, x / (x + x))", "l.map(x, 1.0 / x)", "l.all(x, x + 1 > 0)", "l.map(x, l.map(y, x + y))", "l.filter(x, x + x == x + x)",
                     "l.exists_one(x, x + 1 == 2)", "l.map(x, [x].map(y, y + y))"];
    for _ in 0..(if thorough { 3000 } else { 250 }) {
        let n = rng.below(5);
        let mut m = HashMap::new();
        for _ in 0..n {
            m.insert(rng.pick(&key_pool).clone(), Value::Int(rng.range(0, 9)));
        }
        let sp = spec(vec![("l".into(), Value::Map(Map { map: Arc::new(m) }))]);
        for p in &key_progs {
            emit_program(em, p, &sp, "nt=1;kind=c10-map-keys");
        }
    }
    for l in [vec![], vec![Value::Int(1)], vec![Value::Int(0), Value::UInt(2), Value::Bool(true)],
              vec![Value::Int(1), Value::UInt(1), Value::Float(1.0), Value::Int(1)], vec![Value::Float(0.0), Value::Float(-0.0), Value::Float(0.0)],
              vec![Value::Int(2), Value::Float(2.0)], vec![Value::UInt(0), Value::Int(0), Value::Int(0)],
              vec![Value::List(Arc::new(vec![Value::Int(1)])), Value::List(Arc::new(vec![Value::Float(1.0)]))],
              vec![Value::Null, Value::Null, Value::Int(1)]] {
        let sp = spec(vec![("l".into(), Value::List(Arc::new(l)))]);
        for p in &key_progs {
            emit_program(em, p, &sp, "nt=1;kind=c10-const-body");
        }
    }
    // random longer lists
    for _ in 0..(if thorough { 3000 } else { 150 }) {
        let n = 5 + rng.below(20);
        let l: Vec<Value> = (0..n).map(|_| Value::Int(rng.range(0, 3))).collect();
        let sp = spec(vec![("l".into(), Value::List(Arc::new(l)))]);
        for (p, _) in &progs {
            emit_program(em, p, &sp, "nt=1;kind=c10-long");
        }
    }
    // lengths around the sizes at which buffers, chunked loops or small-size shortcuts change
    for &n in &[31usize, 32, 33, 63, 64, 65, 100, 127, 128, 129, 255, 256, 257, 1000] {
        for variant in 0..3u64 {
            let l: Vec<Value> = (0..n)
                .map(|i| Value::Int(match variant { 0 => (i % 4) as i64, 1 => if i + 1 == n { 3 } else { 0 }, _ => if i == n / 2 { 3 } else { 1 } }))
                .collect();
            let sp = spec(vec![("l".into(), Value::List(Arc::new(l)))]);
            for (p, _) in &progs {
                emit_program(em, p, &sp, "nt=1;kind=c10-threshold");
            }
        }
    }
    for &n in &[9usize, 16, 17, 33, 64] {
        let mut m = HashMap::new();
        for i in 0..n {
            m.insert(Key::Int(i as i64 % 50), Value::Int((i % 4) as i64));
        }
        let sp = spec(vec![("l".into(), Value::Map(Map { map: Arc::new(m) }))]);
        for (p, _) in &progs {
            emit_program(em, p, &sp, "nt=1;kind=c10-threshold-map");
        }
    }
    // non-list, non-map ranges
    let sp = spec(vec![("l".into(), Value::Int(1))]);
    for (p, _) in &progs {
        emit_program(em, p, &sp, "nt=1;kind=c10-badrange");
    }
}
