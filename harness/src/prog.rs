//! Running one program against one context on the implementation and emitting the case.
use crate::ctxgen::*;
use crate::wire::*;
use crate::{guarded, Emit};
use cel_interpreter::{Context, Program};

/// Compiles and executes `src` against the context described by `spec`.
/// Returns (model request, implementation response).
pub fn run_program(src: &str, spec: &CtxSpec) -> (String, String) {
    let s = src.to_string();
    // The model compiles the source itself (its own lexer, parser and macro expansion), so a
    // change of the real parser shows up here as well as one of the evaluator.
    let req = format!("(evalsrc {} {})", spec.wire(), sx_str(src));
    let _ = take_log();
    let spec2 = spec.clone();
    let imp = guarded(move || {
        let ctx: Context = spec2.build();
        match Program::compile(&s) {
            Err(_) => "(reject)".to_string(),
            Ok(p) => sx_result(&p.execute(&ctx)),
        }
    });
    let log = take_log();
    let imp = if imp == "(reject)" {
        imp
    } else {
        format!("(res {} (log{}{}))", imp, if log.is_empty() { "" } else { " " }, log.join(" "))
    };
    (req, imp)
}

pub fn emit_program(em: &mut Emit, src: &str, spec: &CtxSpec, tags: &str) {
    let (req, imp) = run_program(src, spec);
    em.case(&req, &imp, tags, &format!("{}  [ctx:{}]", src, spec.describe()));
}
