//! A fixed list of programs exercising every evaluator arm once (development smoke stream).
use crate::ctxgen::*;
use crate::prog::*;
use crate::Emit;
use cel_interpreter::objects::{Key, Map};
use cel_interpreter::Value;
use std::collections::HashMap;
use std::sync::Arc;

pub fn base_ctx() -> CtxSpec {
    let mut m = HashMap::new();
    m.insert(Key::String(Arc::new("a".into())), Value::Int(1));
    m.insert(Key::Int(2), Value::String(Arc::new("two".into())));
    m.insert(Key::Uint(3), Value::Bool(true));
    m.insert(Key::Bool(true), Value::Null);
    CtxSpec {
        vars: vec![
            ("i".into(), Value::Int(5)),
            ("imin".into(), Value::Int(i64::MIN)),
            ("u".into(), Value::UInt(7)),
            ("d".into(), Value::Float(1.5)),
            ("nan".into(), Value::Float(f64::NAN)),
            ("s".into(), Value::String(Arc::new("héllo".into()))),
            ("b".into(), Value::Bytes(Arc::new(vec![0, 255, 97]))),
            ("t".into(), Value::Bool(true)),
            ("n".into(), Value::Null),
            ("l".into(), Value::List(Arc::new(vec![Value::Int(1), Value::Int(2), Value::Int(3)]))),
            ("m".into(), Value::Map(Map { map: Arc::new(m) })),
            ("size".into(), Value::Int(42)),
        ],
        funs: vec![
            HostFn { kind: "hv1", name: "f".into() },
            HostFn { kind: "hv2", name: "g".into() },
            HostFn { kind: "hfail1", name: "boom".into() },
            HostFn { kind: "hthis_v", name: "meth".into() },
            HostFn { kind: "hident", name: "idf".into() },
            HostFn { kind: "hargs", name: "all_args".into() },
            HostFn { kind: "hthis_opt_i", name: "opti".into() },
        ],
    }
}

pub const PROGRAMS: &[&str] = &[
    "1 + 2", "i + imin", "-imin", "--i", "!t", "!!t", "i / 0", "u % 0u", "d / 0.0", "nan == nan",
    "i < d", "i == 5.0", "u == 7", "s + 'x'", "l + [4]", "[1,2][1]", "[1,2][5]", "[1,2][-1]",
    "s[0]", "s[1]", "s[2]", "s[9223372036854775807]", "m['a']", "m[2]", "m[2u]", "m[3]", "m[true]",
    "m[1.0]", "m.a", "m.zz", "m.size", "has(m.a)", "has(m.b)", "has(i.a)", "2u in m", "3 in m",
    "'a' in m", "1.5 in m", "2 in l", "2.0 in l", "'ll' in s", "1 in 2", "t ? 1 : 1/0",
    "t || 1/0 > 0", "!t && boom(1)", "f(1) + f(2)", "g(f(1), f(2))", "boom(f(1))", "f(boom(1))",
    "1.meth(2)", "f(1).meth(f(2))", "meth(1, 2)", "meth(1)", "idf(foo)", "idf(1)", "idf()",
    "all_args(1, f(2), 3)", "all_args()", "1.opti()", "n.opti()", "'x'.opti()", "opti()",
    "size(l)", "l.size()", "size(s)", "size(b)", "size(m)", "size(1)", "size()", "size(l, 1, 2)",
    "size(1/0, 2, 3)", "l.contains(2)", "m.contains(2u)", "m.contains(1.5)", "s.contains('l')",
    "b.contains(b'')", "b.contains(b'a')", "max(1, 2, 3)", "max([1, 5, 2])", "max()", "max([])",
    "max(1, 'a')", "min(1, 2.5, 3u)", "max(l)", "min(5)", "'abc'.startsWith('ab')",
    "'abc'.endsWith('bc')", "'abc'.matches('b')", "string(5)", "string(5u)", "string('x')",
    "string(b'abc')", "string(n)", "bytes('hé')", "double(5)", "double(5u)", "int(5.9)", "int(-5.9)",
    "int(9223372036854775808.0)", "int(nan)", "int('12')", "int('-12')", "int('+12')", "int('1 2')",
    "int('')", "int(18446744073709551615u)", "uint(5.9)", "uint(-0.5)", "uint(-1)", "uint('12')",
    "uint('-0')", "uint(18446744073709551616.0)", "uint(nan)", "undefined_var", "undefined_fn(1)",
    "1.undefined_m()", "undefined_var.f()", "[1, 1/0, boom(1)]", "{1: f(1), 1u: f(2), 1: f(3)}",
    "{1.5: 1}", "{f(1): f(2), boom(1): f(3)}", "T{a: f(1)}", "l.all(x, x > 0)", "l.all(x, x > 1)",
    "l.exists(x, x == 2)", "l.exists_one(x, x > 1)", "l.existsOne(x, x == 1)", "l.map(x, x * 2)",
    "l.map(x, x > 1, x * 2)", "l.filter(x, x % 2 == 1)", "l.map(x, f(x))", "l.all(x, f(x) < 2)",
    "l.exists(x, boom(x))", "[1/0].exists(x, true)", "1.all(x, true)", "'a'.map(x, x)",
    "l.map(i, i + i)", "l.map(x, l.map(y, x * y))", "l.map(x, l.map(x, x + 1))", "[1,2].exists(x, x)",
    "[0, 1, 2].all(x, x)", "{}.all(x, false)", "size", "size + 1", "l.map(size, size)",
    "[1, 2, 3].map(x, x / (x - 2))", "l.filter(x, 1 / (x - 2) > 0)", "i.f()", "f()", "f(1, 2)",
    "g(1)", "g('a', 'b')", "g(1, 'b')", "1 + 'a'", "b + b", "-u", "-s", "-d", "1 < 'a'", "l < l",
    "n == null", "n < null", "t < false", "[1, 2] == [1, 2]", "[1, 2] == [1.0, 2u]",
    "{1: 2} == {1u: 2}", "{1: 2} == {1: 2.0}", "m == m", "@in(1, [1])", "_+_(1, 2)",
    "x.y.z", "[].map(x, y)", "[1].map(x, y)", "has(undefined_var.a)", "has({'a': 1}.a)",
    "has({1: 1}.a)", "{'true': 1}[true]", "'abc'[1]", "'héllo'[1]", "'héllo'[3]", "b'ab'[0]",
    "l[1u]", "l['a']", "m[l]", "1[0]", "i ? 1 : 2", "'' ? 1 : 2", "n || 's'", "0 || 0.0", "1 && 's'",
    "nan || false", "-0.0 || false",
];

pub fn run(em: &mut Emit) {
    let spec = base_ctx();
    for p in PROGRAMS {
        emit_program(em, p, &spec, "nt=1;kind=smoke");
    }
}
