//! C05: purity, repeatability, sharing.
//!
//! Histories: one context, up to 50 executions.  Every execution is answered by the model
//! from (context, program) alone - the model has no history - so any dependence of the
//! implementation on what ran before is a disagreement.  After every execution the harness
//! itself checks that every context variable, the program and every earlier result still print
//! the same, that a repetition gives an equal result, and at the end that no buffer the
//! context holds gained or lost an owner.
//!
//! Threads: 2-16 threads share one program set and one root context by reference, each
//! executing in an inner scope of its own; every answer is compared with the model's answer
//! for that thread's (scope chain, program).
use crate::ctxgen::*;
use crate::gen::*;
use crate::rng::Rng;
use crate::wire::*;
use crate::{guarded, Emit};
use cel_interpreter::{Context, Program, Value};
use std::sync::Arc;

fn assert_send_sync<T: Send + Sync>() {}

/// Compile-time part of the property: programs, contexts and values may be shared by
/// reference among threads.
#[allow(dead_code)]
fn shareable() {
    assert_send_sync::<Program>();
    assert_send_sync::<Context<'static>>();
    assert_send_sync::<Value>();
}

fn strong(v: &Value) -> Option<usize> {
    match v {
        Value::List(a) => Some(Arc::strong_count(a)),
        Value::String(a) => Some(Arc::strong_count(a)),
        Value::Bytes(a) => Some(Arc::strong_count(a)),
        Value::Map(m) => Some(Arc::strong_count(&m.map)),
        _ => None,
    }
}

fn concat_program(g: &mut Gen, depth: u32) -> String {
    // shapes that concatenate context-held lists / strings and run macros over them
    let lists = ["vl0", "vl1"];
    let strs = ["vs0", "vs1"];
    let l = *g.rng.pick(&lists);
    let l2 = *g.rng.pick(&lists);
    let s = *g.rng.pick(&strs);
    match g.rng.below(12) {
        0 => format!("{} + {}", l, l2),
        1 => format!("({} + {}) + {}", l, l2, l),
        2 => format!("{} + [{}]", l, g.typed(&Ty::Int, 1)),
        3 => format!("[{}] + {}", g.typed(&Ty::Int, 1), l),
        4 => format!("{}.map(x, {} + [x])", l, l2),
        5 => format!("{}.map(x, x + 1) + {}", l, l),
        6 => format!("{} + {}", s, s),
        7 => format!("{} + 'x' + {}", s, s),
        8 => format!("{}.filter(x, size({} + [x]) > 2)", l, l),
        9 => format!("{}.all(x, ({} + {}).exists(y, y == x))", l, l, l2),
        10 => format!("size({} + {}) == size({}) + size({})", l, l2, l, l2),
        _ => {
            let t = Ty::List(Box::new(Ty::Int));
            g.typed(&t, depth)
        }
    }
}

fn exec_wire(p: &Program, ctx: &Context) -> String {
    let _ = take_log();
    let r = sx_result(&p.execute(ctx));
    let log = take_log();
    format!("(res {} (log{}{}))", r, if log.is_empty() { "" } else { " " }, log.join(" "))
}

fn history(em: &mut Emit, rng: &mut Rng, steps: usize, hid: u64) {
    let (mut spec, tys) = extreme_ctx(rng, true);
    // one history in four runs over long buffers (lengths around capacity / chunk thresholds)
    if rng.chance(1, 4) {
        let n = *rng.pick(&[15usize, 16, 17, 31, 32, 33, 63, 64, 65, 127, 128, 129, 255, 256, 257]);
        for (name, v) in spec.vars.iter_mut() {
            match name.as_str() {
                "vl0" => *v = Value::List(Arc::new((0..n as i64).map(Value::Int).collect())),
                "vl1" => *v = Value::List(Arc::new((0..(n as i64 + 1)).map(|i| Value::Int(i % 5)).collect())),
                "vs0" => *v = Value::String(Arc::new((0..n).map(|i| if i % 5 == 2 { 'é' } else { 'a' }).collect())),
                "vs1" => *v = Value::String(Arc::new("b".repeat(n - 1))),
                _ => {}
            }
        }
    }
    let ctx: Context<'static> = spec.build();
    let names: Vec<String> = spec.vars.iter().map(|(n, _)| n.clone()).collect();
    let snapshot = |ctx: &Context| -> Vec<String> {
        names.iter().map(|n| match ctx.get_variable(n.as_str()) {
            Ok(v) => sx_value_iter_order(&v),
            Err(_) => "(missing)".into(),
        }).collect()
    };
    let before = snapshot(&ctx);
    let counts = |ctx: &Context| -> Vec<Option<usize>> {
        names.iter().map(|n| ctx.get_variable(n.as_str()).ok().and_then(|v| strong(&v).map(|c| c - 1))).collect()
    };
    let base_counts = counts(&ctx);
    let mut kept: Vec<(Value, String)> = Vec::new();
    let ctxw = spec.wire();
    for step in 0..steps {
        let concat = rng.chance(1, 2);
        let depth = 1 + rng.below(5) as u32;
        let src = {
            let mut g = Gen { rng, vars: tys.clone(), idfns: vec!["idf".to_string()], wrap_pct: 8, boundary_pct: 20, macros: true };
            if g.rng.chance(1, 16) {
                // call shapes that differ only in a long constant (anything remembered per call
                // site or per thread between executions shows up as the earlier constant)
                let lits = ["'aaaaaaaaaaaaaaaaaaaaaaaaaaaaaaaaaaaaaaaaaaaaaaaa'", "'aaaaaaaaaaaaaaaaaaaaaaaaaaaaaaaaaaaaaaaaaaaaaaab'",
                            "'héllo wörld, héllo wörld, héllo wörld!'", "'0123456789012345678901234567890123456789'",
                            "''", "'a'"];
                let (a, b) = (*g.rng.pick(&lits), *g.rng.pick(&lits));
                match g.rng.below(5) {
                    0 => format!("vs0.contains({})", a),
                    1 => format!("{}.contains({})", a, b),
                    2 => format!("{}.startsWith({})", a, b),
                    3 => format!("({} + vs0).endsWith({})", a, b),
                    _ => format!("[{}, {}].map(x, x.size())", a, b),
                }
            } else if g.rng.chance(1, 12) {
                // library calls with state of their own to misuse: regular expressions, valid and
                // invalid, repeated within one history (the model leaves non-literal patterns
                // uninterpreted; the repetition law below does not)
                g.rng.pick(&["'foobar'.matches('(foo')", "vs0.matches('[a')", "'ab'.matches('a+')", "'foobar'.matches('(foo')",
                             "'x'.matches('*')", "'abc'.matches('^a.c$')", "vs0.matches('(foo')", "'ab'.matches('ab')"]).to_string()
            } else if concat {
                concat_program(&mut g, depth)
            } else {
                let t = g.rand_ty(1);
                g.typed(&t, depth)
            }
        };
        let tags = format!("nt={};kind=history-{}", concat as u8, if concat { "concat" } else { "typed" });
        let disp = format!("h{} step{}: {}", hid, step, src);
        let req = format!("(evalsrc {} {})", ctxw, sx_str(&src));
        let prog = match std::panic::catch_unwind(|| Program::compile(&src)) {
            Ok(Ok(p)) => p,
            Ok(Err(_)) => {
                em.case(&req, "(reject)", &tags, &disp);
                continue;
            }
            Err(_) => {
                em.case(&req, "(crash)", &tags, &disp);
                continue;
            }
        };
        let expr_before = format!("{:?}", prog);
        let first = match std::panic::catch_unwind(std::panic::AssertUnwindSafe(|| {
            let _ = take_log();
            let r = prog.execute(&ctx);
            (r, take_log())
        })) {
            Ok(x) => x,
            Err(_) => {
                em.case(&req, "(crash)", &tags, &disp);
                continue;
            }
        };
        let (r, log) = first;
        let imp = format!("(res {} (log{}{}))", sx_result(&r), if log.is_empty() { "" } else { " " }, log.join(" "));
        em.case(&req, &imp, &tags, &disp);
        // the laws, on the implementation's own state
        let mut bad: Vec<String> = Vec::new();
        let after = snapshot(&ctx);
        for (i, n) in names.iter().enumerate() {
            if before[i] != after[i] {
                bad.push(format!("context variable {} changed: {} -> {}", n, before[i], after[i]));
            }
        }
        if format!("{:?}", prog) != expr_before {
            bad.push("program changed".into());
        }
        for (v, w) in &kept {
            if &sx_value_iter_order(v) != w {
                bad.push(format!("an earlier result changed: {} -> {}", w, sx_value_iter_order(v)));
            }
        }
        let again = guarded(std::panic::AssertUnwindSafe(|| exec_wire(&prog, &ctx)));
        if crate::canon_local(&again) != crate::canon_local(&imp) {
            bad.push(format!("repetition differs: {} vs {}", imp, again));
        }
        // an execution does not depend on what its thread executed before: a thread that has
        // executed nothing, the program compiled again and an equal context give the same result
        {
            let (spec2, src2) = (spec.clone(), src.clone());
            let other = std::thread::spawn(move || {
                guarded(std::panic::AssertUnwindSafe(move || {
                    let ctx = spec2.build();
                    match Program::compile(&src2) {
                        Ok(p) => exec_wire(&p, &ctx),
                        Err(_) => "(reject)".to_string(),
                    }
                }))
            })
            .join()
            .unwrap_or_else(|_| "(crash)".to_string());
            if crate::canon_local(&other) != crate::canon_local(&imp) {
                bad.push(format!("a fresh thread gives a different result: {} vs {}", imp, other));
            }
        }
        // every public entry point of an execution gives what `Program::execute` gives:
        // `Program::try_from`, `Context::resolve` on the parser's tree, and `Context::resolve_all` /
        // `Value::resolve_all` (a list of the results, operands in order, the first error aborting)
        if step % 2 == 0 {
            let wire = |r: &Result<Value, cel_interpreter::ExecutionError>, log: &[String]| {
                format!("(res {} (log{}{}))", sx_result(r), if log.is_empty() { "" } else { " " }, log.join(" "))
            };
            let via_try_from = guarded(std::panic::AssertUnwindSafe(|| match Program::try_from(src.as_str()) {
                Ok(p) => exec_wire(&p, &ctx),
                Err(_) => "(reject)".to_string(),
            }));
            if crate::canon_local(&via_try_from) != crate::canon_local(&imp) {
                bad.push(format!("Program::try_from differs from Program::compile: {} vs {}", imp, via_try_from));
            }
            let tree = cel_parser::Parser::default().parse(&src);
            if let Ok(tree) = tree {
                let via_resolve = guarded(std::panic::AssertUnwindSafe(|| {
                    let _ = take_log();
                    let r = ctx.resolve(&tree);
                    wire(&r, &take_log())
                }));
                if crate::canon_local(&via_resolve) != crate::canon_local(&imp) {
                    bad.push(format!("Context::resolve differs from Program::execute: {} vs {}", imp, via_resolve));
                }
                let twice = [tree.clone(), tree.clone()];
                let expected = match &r {
                    Ok(v) => wire(&Ok(Value::List(Arc::new(vec![v.clone(), v.clone()]))), &[log.clone(), log.clone()].concat()),
                    Err(e) => wire(&Err(e.clone()), &log),
                };
                let via_ctx_all = guarded(std::panic::AssertUnwindSafe(|| {
                    let _ = take_log();
                    let r = ctx.resolve_all(&twice);
                    wire(&r, &take_log())
                }));
                let via_value_all = guarded(std::panic::AssertUnwindSafe(|| {
                    let _ = take_log();
                    let r = Value::resolve_all(&twice, &ctx);
                    wire(&r, &take_log())
                }));
                for (what, got) in [("Context::resolve_all", &via_ctx_all), ("Value::resolve_all", &via_value_all)] {
                    if crate::canon_local(got) != crate::canon_local(&expected) {
                        bad.push(format!("{} of the program twice is not the list of its results: {} vs {}", what, expected, got));
                    }
                }
            } else {
                bad.push("the parser rejects what Program::compile accepted".into());
            }
        }
        // an equal context built afresh gives an equal result
        if step % 10 == 0 {
            let fresh = spec.build();
            let other = guarded(std::panic::AssertUnwindSafe(|| exec_wire(&prog, &fresh)));
            if crate::canon_local(&other) != crate::canon_local(&imp) {
                bad.push(format!("equal context, different result: {} vs {}", imp, other));
            }
        }
        if let Ok(v) = r {
            let w = sx_value_iter_order(&v);
            kept.push((v, w));
        }
        let law = if bad.is_empty() { "(bool true)".to_string() } else { format!("(law-violated {})", bad.join("; ")) };
        em.case("(echo (bool true))", &law, "nt=1;kind=law-history", &disp);
    }
    drop(kept);
    let end_counts = counts(&ctx);
    let law = if end_counts == base_counts {
        "(bool true)".to_string()
    } else {
        format!("(law-violated owner counts of context buffers changed: {:?} -> {:?})", base_counts, end_counts)
    };
    em.case("(echo (bool true))", &law, "nt=1;kind=law-owners", &format!("h{} end", hid));
}

fn threads(em: &mut Emit, rng: &mut Rng, nthreads: usize, per_thread: usize, round: u64) {
    let (spec, mut tys) = extreme_ctx(rng, true);
    tys.push(("tid".to_string(), Ty::Int));
    let root: Context<'static> = spec.build();
    // the shared program set
    let mut progs: Vec<(String, Program)> = Vec::new();
    while progs.len() < 60 {
        let concat = rng.chance(1, 2);
        let depth = 1 + rng.below(5) as u32;
        let src = {
            let mut g = Gen { rng, vars: tys.clone(), idfns: vec!["idf".to_string()], wrap_pct: 8, boundary_pct: 20, macros: true };
            if concat {
                let base = concat_program(&mut g, depth);
                if g.rng.chance(1, 2) { format!("({}) + [tid]", base).replace("'x'", "'x'") } else { base }
            } else {
                let t = g.rand_ty(1);
                g.typed(&t, depth)
            }
        };
        // ill-typed concat variants are fine: they are errors in both worlds
        if let Ok(Ok(p)) = std::panic::catch_unwind(|| Program::compile(&src)) {
            progs.push((src, p));
        }
    }
    let progs = &progs;
    let root = &root;
    let results: Vec<Vec<(usize, String)>> = std::thread::scope(|s| {
        let handles: Vec<_> = (0..nthreads)
            .map(|t| {
                s.spawn(move || {
                    let mut inner = root.new_inner_scope();
                    inner.add_variable_from_value("tid", Value::Int(t as i64));
                    let mut out = Vec::new();
                    for k in 0..per_thread {
                        let idx = (t * 7 + k * 13 + (k / 60)) % progs.len();
                        let p = &progs[idx].1;
                        let inner_ref = &inner;
                        let w = guarded(std::panic::AssertUnwindSafe(move || exec_wire(p, inner_ref)));
                        out.push((idx, w));
                        if k % 16 == 0 {
                            std::thread::yield_now();
                        }
                    }
                    out
                })
            })
            .collect();
        handles.into_iter().map(|h| h.join().unwrap_or_default()).collect()
    });
    for (t, outs) in results.iter().enumerate() {
        let ctxw = spec.wire_with_inner(&[("tid".to_string(), Value::Int(t as i64))]);
        if outs.len() != per_thread {
            em.case("(echo (bool true))", "(law-violated a thread died)", "nt=1;kind=law-thread", &format!("round {} thread {}", round, t));
        }
        for (idx, w) in outs {
            em.case(
                &format!("(evalsrc {} {})", ctxw, sx_str(&progs[*idx].0)),
                w,
                &format!("nt=1;kind=threads-{}", nthreads),
                &format!("round {} thread {}/{}: {}", round, t, nthreads, progs[*idx].0),
            );
        }
    }
}

// ------------------------------------------------------------------ hammer rounds

/// Programs of one shape per family whose constants differ from thread to thread (patterns,
/// long literal lists / maps / strings / bytes, texts to parse).  First each is executed alone
/// and compared with the model - anything remembered per call site, per expression id or per
/// process shows up as an earlier program's constant -; then all threads execute their own
/// programs at the same time, many times over, and every result must be the solo one -
/// anything shared between concurrent executions of library-backed built-ins shows up as
/// another thread's constant.
fn hammer(em: &mut Emit, nthreads: usize, iters: usize, round: u64) {
    let spec = CtxSpec {
        vars: vec![("s".into(), Value::String(Arc::new("p0 p1 p2 p3 p4 p5 p6 p7 p8 p9 p10 p11 p12 p13 p14 p15 q".into()))),
                   ("n".into(), Value::Int(3))],
        funs: vec![],
    };
    let family = |t: usize| -> Vec<String> {
        let lits: Vec<String> = (0..10).map(|i| format!("{}", t * 100 + i)).collect();
        let strs: Vec<String> = (0..9).map(|i| format!("'k{}_{}'", t, i)).collect();
        vec![
            format!("s.matches('p{}')", t),
            format!("'x{}y'.matches('x{}')", t, (t + 1) % 16),
            format!("'abc{}'.matches('c{}')", t, t),
            format!("{} in [{}]", t * 100 + 3, lits.join(", ")),
            format!("n in [{}]", lits.join(", ")),
            format!("[{}].map(e, e + n)", lits.join(", ")),
            format!("[{}].size() + {}", lits.join(", "), t),
            format!("{{{}}}.size()", strs.iter().enumerate().map(|(i, k)| format!("{}: {}", k, i)).collect::<Vec<_>>().join(", ")),
            format!("'k{}_3' in [{}]", t, strs.join(", ")),
            format!("duration('{}s') + duration('{}ms')", t + 1, t),
            format!("timestamp('2020-01-0{}T00:00:0{}Z').getSeconds()", 1 + t % 9, t % 10),
            format!("'{}'.contains('{}')", format!("long literal number {} of the hammer round, padded to be long", t), t),
            format!("b'{}' + b'{}'", "ab".repeat(10 + t), t),
            format!("int('{}') + uint('{}') == {}u ? {} : -1", t, t, 2 * t, t),
            // long lists of the same length in every family, searched for an element only this
            // family's list holds and for one only the next family's holds
            format!("{} in [{}]", t * 1000 + 7, (0..40).map(|i| format!("{}", t * 1000 + i)).collect::<Vec<_>>().join(", ")),
            format!("{} in [{}]", (t + 1) * 1000 + 7, (0..40).map(|i| format!("{}", t * 1000 + i)).collect::<Vec<_>>().join(", ")),
            format!("[{}].contains('w{}_9')", (0..36).map(|i| format!("'w{}_{}'", t, i)).collect::<Vec<_>>().join(", "), t),
            format!("[{}].contains('w{}_9')", (0..36).map(|i| format!("'w{}_{}'", t, i)).collect::<Vec<_>>().join(", "), t + 1),
            // a dozen patterns of its own per family: more distinct patterns in play than any small cache holds
            format!("[{}].filter(p, 'z{}_5 z{}_11'.matches(p)).size()", (0..12).map(|j| format!("'z{}_{}'", t, j)).collect::<Vec<_>>().join(", "), t, t),
            format!("[{}].map(p, 'z{}_3'.matches(p))", (0..12).map(|j| format!("'z{}_{}'", (t + 5) % 16, j)).collect::<Vec<_>>().join(", "), t),
        ]
    };
    let fams: Vec<Vec<String>> = (0..nthreads).map(family).collect();
    let ctxw = spec.wire();
    let ctx: Context<'static> = spec.build();
    // alone, in sequence (and against the model)
    let mut solo: Vec<Vec<(Program, String)>> = Vec::new();
    for (t, fam) in fams.iter().enumerate() {
        let mut row = Vec::new();
        for src in fam {
            let p = Program::compile(src).expect("hammer program compiles");
            let w = guarded(std::panic::AssertUnwindSafe(|| exec_wire(&p, &ctx)));
            em.case(&format!("(evalsrc {} {})", ctxw, sx_str(src)), &w, "nt=1;kind=hammer-solo", &format!("hammer round {} family {}: {}", round, t, src));
            row.push((p, w));
        }
        solo.push(row);
    }
    // all at once
    let solo = &solo;
    let ctx = &ctx;
    let bad: Vec<Vec<String>> = std::thread::scope(|sc| {
        let hs: Vec<_> = (0..nthreads)
            .map(|t| {
                sc.spawn(move || {
                    let mut bad = Vec::new();
                    for k in 0..iters {
                        let (p, want) = &solo[t][k % solo[t].len()];
                        let got = guarded(std::panic::AssertUnwindSafe(|| exec_wire(p, ctx)));
                        if &got != want && bad.len() < 3 {
                            bad.push(format!("thread {} iteration {}: {} instead of {}", t, k, got, want));
                        }
                    }
                    bad
                })
            })
            .collect();
        hs.into_iter().map(|h| h.join().unwrap_or_else(|_| vec!["a thread died".to_string()])).collect()
    });
    let all: Vec<String> = bad.into_iter().flatten().collect();
    let law = if all.is_empty() { "(bool true)".to_string() } else { format!("(law-violated concurrent-result-differs-from-solo {})", all.join("; ")) };
    em.case("(echo (bool true))", &law, "nt=1;kind=law-hammer", &format!("hammer round {}: {} threads x {} executions", round, nthreads, iters));
}

// ------------------------------------------------------------------ rendezvous rounds

/// All threads are inside an execution at the same time: every program calls the host function
/// `rv` once, at the bottom of a deep expression, and `rv` waits (bounded) until every thread
/// of the round has arrived.  State that executions share behind the caller's back (counters,
/// caches, scratch buffers) is then observed by all of them at once; each result is still what
/// the model gives for that program alone.
fn rendezvous(em: &mut Emit, rng: &mut Rng, nthreads: usize, per_thread: usize, round: u64) {
    use std::sync::atomic::{AtomicUsize, Ordering};
    use std::time::{Duration, Instant};
    let spec = CtxSpec {
        vars: vec![
            ("xs".to_string(), Value::List(Arc::new(vec![Value::Int(1), Value::Int(2), Value::Int(3)]))),
            ("s".to_string(), Value::String(Arc::new("ab".to_string()))),
            ("n".to_string(), Value::Int(5)),
        ],
        funs: vec![HostFn { kind: "h0", name: "rv".to_string() }],
    };
    let mut root: Context<'static> = spec.build();
    let arrived = Arc::new(AtomicUsize::new(0));
    let a2 = arrived.clone();
    let nt = nthreads;
    root.add_function("rv", move || -> Result<Value, cel_interpreter::ExecutionError> {
        logcall("rv", &[]);
        let me = a2.fetch_add(1, Ordering::SeqCst);
        let target = (me / nt + 1) * nt;
        let deadline = Instant::now() + Duration::from_millis(400);
        while a2.load(Ordering::SeqCst) < target && Instant::now() < deadline {
            std::thread::yield_now();
        }
        Ok(Value::Int(7))
    });
    let mut progs: Vec<(String, Program)> = Vec::new();
    for _ in 0..per_thread {
        let depth = 40 + rng.below(90) as usize;
        let mut src = match rng.below(4) {
            0 => "rv()".to_string(),
            1 => "xs.map(x, x * 2)[2] + rv()".to_string(),
            2 => "(n > 3 ? rv() : 0)".to_string(),
            _ => "size(s + 'c') + rv()".to_string(),
        };
        for i in 0..depth {
            match rng.below(5) {
                0 => src = format!("({}) + tid", src),
                1 => src = format!("-(-({}))", src),
                2 => src = format!("(true ? {} : 0)", src),
                _ => src.push_str(&format!(" + {}", i % 3)),
            }
        }
        let p = Program::compile(&src).expect("rendezvous program compiles");
        progs.push((src, p));
    }
    let progs = &progs;
    let root = &root;
    let results: Vec<Vec<String>> = std::thread::scope(|s| {
        let handles: Vec<_> = (0..nthreads)
            .map(|t| {
                std::thread::Builder::new()
                    .stack_size(256 << 20)
                    .spawn_scoped(s, move || {
                        let mut inner = root.new_inner_scope();
                        inner.add_variable_from_value("tid", Value::Int(t as i64));
                        let mut out = Vec::new();
                        for (_, p) in progs.iter() {
                            let inner_ref = &inner;
                            out.push(guarded(std::panic::AssertUnwindSafe(move || exec_wire(p, inner_ref))));
                        }
                        out
                    })
                    .expect("spawn")
            })
            .collect();
        handles.into_iter().map(|h| h.join().unwrap_or_default()).collect()
    });
    for (t, outs) in results.iter().enumerate() {
        let ctxw = spec.wire_with_inner(&[("tid".to_string(), Value::Int(t as i64))]);
        if outs.len() != per_thread {
            em.case("(echo (bool true))", "(law-violated a thread died)", "nt=1;kind=law-thread", &format!("rendezvous round {} thread {}", round, t));
        }
        for (k, w) in outs.iter().enumerate() {
            em.case(
                &format!("(evalsrc {} {})", ctxw, sx_str(&progs[k].0)),
                w,
                &format!("nt=1;kind=rendezvous-{}", nthreads),
                &format!("rendezvous round {} thread {}/{}: {}", round, t, nthreads, progs[k].0),
            );
        }
    }
}

// ------------------------------------------------------------------ heap model correspondence

#[derive(Clone)]
enum HX {
    Int(i64),
    Var(usize),
    List(Vec<i64>),
    Str(String),
    Add(Box<HX>, Box<HX>),
}

fn hx_src(e: &HX) -> String {
    match e {
        HX::Int(z) => crate::gen::lit_i(*z),
        HX::Var(i) => format!("h{}", i),
        HX::List(l) => format!("[{}]", l.iter().map(|z| crate::gen::lit_i(*z)).collect::<Vec<_>>().join(", ")),
        HX::Str(s) => format!("'{}'", s),
        HX::Add(a, b) => format!("({} + {})", hx_src(a), hx_src(b)),
    }
}
fn hx_wire(e: &HX) -> String {
    match e {
        HX::Int(z) => format!("(xint {})", z),
        HX::Var(i) => format!("(xvar {})", i),
        HX::List(l) => format!("(xlist{})", l.iter().map(|z| format!(" {}", z)).collect::<String>()),
        HX::Str(s) => {
            let mut o = String::from("(xstr");
            str_cps(s, &mut o);
            o.push(')');
            o
        }
        HX::Add(a, b) => format!("(xadd {} {})", hx_wire(a), hx_wire(b)),
    }
}
/// kind: 0 list, 1 string, 2 int; mostly kind-consistent so that most programs succeed
fn hx_gen(rng: &mut Rng, depth: u32, nvars: usize, kind: u64) -> HX {
    let kind = if rng.chance(1, 12) { rng.below(3) } else { kind };
    if depth == 0 || rng.chance(1, 4) {
        if rng.chance(1, 40) {
            return HX::Var(nvars); // undeclared
        }
        return match kind {
            0 => match rng.below(5) {
                0 | 1 => HX::Var(*rng.pick(&[0usize, 1, 5])),
                2 => HX::List(vec![]),
                _ => HX::List((0..1 + rng.below(3)).map(|_| rng.range(-2, 9)).collect()),
            },
            1 => match rng.below(4) {
                0 | 1 => HX::Var(*rng.pick(&[2usize, 3])),
                _ => HX::Str(rng.pick(&["", "a", "bc", "é"]).to_string()),
            },
            _ => {
                if rng.chance(1, 3) {
                    HX::Var(4)
                } else {
                    HX::Int(rng.range(-3, 9))
                }
            }
        };
    }
    HX::Add(Box::new(hx_gen(rng, depth - 1, nvars, kind)), Box::new(hx_gen(rng, depth - 1, nvars, kind)))
}

/// Programs of the heap model's fragment over buffers the context holds: besides the value, the
/// implementation reports which context buffer (if any) the result IS (pointer equality) and
/// how many owners every context buffer has while the result is held - the model predicts both.
fn heap_cases(em: &mut Emit, rng: &mut Rng, n: u64) {
    let env: Vec<Value> = vec![
        Value::List(Arc::new(vec![Value::Int(1), Value::Int(2), Value::Int(3)])),
        Value::List(Arc::new(vec![])),
        Value::String(Arc::new("ab".to_string())),
        Value::String(Arc::new(String::new())),
        Value::Int(7),
        Value::List(Arc::new(vec![Value::Int(-1)])),
    ];
    let mut envw = String::from("(env");
    for v in &env {
        envw.push(' ');
        match v {
            Value::List(l) => {
                envw.push_str("(list");
                for x in l.iter() {
                    if let Value::Int(z) = x {
                        envw.push_str(&format!(" {}", z));
                    }
                }
                envw.push(')');
            }
            Value::String(t) => envw.push_str(&sx_str(t)),
            Value::Int(z) => envw.push_str(&format!("(int {})", z)),
            _ => unreachable!(),
        }
    }
    envw.push(')');
    // the context is the only owner of its buffers (as it is when a host hands its data over):
    // the harness keeps addresses, not handles
    let addr = |v: &Value| -> usize {
        match v {
            Value::List(a) => Arc::as_ptr(a) as *const () as usize,
            Value::String(a) => Arc::as_ptr(a) as *const () as usize,
            _ => 0,
        }
    };
    let addrs: Vec<usize> = env.iter().map(|v| addr(v)).collect();
    let nvars = env.len();
    let mut ctx = Context::default();
    for (i, v) in env.into_iter().enumerate() {
        ctx.add_variable_from_value(format!("h{}", i), v);
    }
    // looking a variable up clones it: that handle is one extra owner while it is inspected
    let owners = |ctx: &Context, i: usize| -> i64 {
        match ctx.get_variable(format!("h{}", i).as_str()) {
            Ok(Value::List(a)) => Arc::strong_count(&a) as i64 - 1,
            Ok(Value::String(a)) => Arc::strong_count(&a) as i64 - 1,
            _ => -1,
        }
    };
    for _ in 0..n {
        let depth = 1 + rng.below(4) as u32;
        let kind = rng.below(3);
        let e = hx_gen(rng, depth, nvars, kind);
        let src = hx_src(&e);
        let ctxr = &ctx;
        let addrs_r = &addrs;
        let owners_r = &owners;
        let s2 = src.clone();
        let imp = guarded(std::panic::AssertUnwindSafe(move || {
            let p = match Program::compile(&s2) {
                Ok(p) => p,
                Err(_) => return "(reject)".to_string(),
            };
            let r = p.execute(ctxr);
            let alias: i64 = match &r {
                Ok(v @ Value::List(_)) | Ok(v @ Value::String(_)) => {
                    let a = match v {
                        Value::List(x) => Arc::as_ptr(x) as *const () as usize,
                        Value::String(x) => Arc::as_ptr(x) as *const () as usize,
                        _ => 0,
                    };
                    addrs_r.iter().position(|p| *p == a).map(|i| i as i64).unwrap_or(-1)
                }
                _ => -1,
            };
            let out = match &r {
                Ok(v) => format!("(ok {})", sx_value(v)),
                Err(cel_interpreter::ExecutionError::UndeclaredReference(_)) => "(err (undeclared))".to_string(),
                Err(e) => format!("(err {})", sx_err(e)),
            };
            // an error value keeps the operands it reports alive; it is not a result: drop it first
            let r = r.ok();
            let counts: Vec<String> = (0..addrs_r.len()).map(|i| owners_r(ctxr, i).to_string()).collect();
            drop(r);
            format!("(heap {} (alias {}) (owners {}))", out, alias, counts.join(" "))
        }));
        em.case(&format!("(heap {} {})", envw, hx_wire(&e)), &imp, "nt=1;kind=heap", &src);
    }
}

// ------------------------------------------------------------------ the Arc discipline itself

/// Random sequences of clone / drop / allocate / append-through-make_mut steps on real
/// `Arc<Vec<i64>>` handles, against the operation-level machine of `C05_any_interleaving`:
/// after the sequence every live cell's owner count and payload must be the model's.  This ties
/// the machine's reading of `Arc::clone`, `drop` and `Arc::make_mut` to std's.
fn arc_ops(em: &mut Emit, rng: &mut Rng, n: u64) {
    for _ in 0..n {
        let npinned = 1 + rng.below(3) as usize;
        // cells[i] = the handles to cell i; the first handle of the first npinned cells is pinned
        let mut cells: Vec<Vec<Arc<Vec<i64>>>> = (0..npinned).map(|i| vec![Arc::new(vec![i as i64])]).collect();
        let mut req = format!("(arcops {}", npinned);
        let steps = 1 + rng.below(24);
        for _ in 0..steps {
            let free: Vec<usize> = (0..cells.len()).filter(|&i| cells[i].len() > if i < npinned { 1 } else { 0 }).collect();
            let live: Vec<usize> = (0..cells.len()).filter(|&i| !cells[i].is_empty()).collect();
            match rng.below(4) {
                0 if !live.is_empty() => {
                    let l = *rng.pick(&live);
                    let h = cells[l][0].clone();
                    cells[l].push(h);
                    req.push_str(&format!(" (clone {})", l));
                }
                1 if !free.is_empty() => {
                    let l = *rng.pick(&free);
                    cells[l].pop();
                    req.push_str(&format!(" (drop {})", l));
                }
                2 => {
                    let k = rng.below(3) as usize;
                    let p: Vec<i64> = (0..k).map(|_| rng.range(0, 9)).collect();
                    req.push_str(&format!(" (alloc{})", p.iter().map(|z| format!(" {}", z)).collect::<String>()));
                    cells.push(vec![Arc::new(p)]);
                }
                3 if !free.is_empty() => {
                    let l = *rng.pick(&free);
                    let mut h = cells[l].pop().unwrap();
                    let before = Arc::as_ptr(&h);
                    let k = rng.below(4) as usize;
                    let p: Vec<i64> = (0..k).map(|_| rng.range(0, 9)).collect();
                    *Arc::make_mut(&mut h) = p.clone();
                    req.push_str(&format!(" (append {}{})", l, p.iter().map(|z| format!(" {}", z)).collect::<String>()));
                    if Arc::as_ptr(&h) == before {
                        cells[l].push(h);
                    } else {
                        cells.push(vec![h]);
                    }
                }
                _ => {}
            }
        }
        req.push(')');
        let mut imp = String::from("(arc");
        for (i, hs) in cells.iter().enumerate() {
            if let Some(h) = hs.first() {
                let same = hs.iter().all(|x| Arc::ptr_eq(x, h));
                imp.push_str(&format!(
                    " (cell {} {} (list{}))",
                    i,
                    if same { Arc::strong_count(h) as i64 } else { -1 },
                    h.iter().map(|z| format!(" {}", z)).collect::<String>()
                ));
            }
        }
        imp.push(')');
        em.case(&req, &imp, "nt=1;kind=arc-ops", &req);
    }
}

/// Two or three programs of one shape whose long constants have the same length and different
/// contents, executed alternately on one thread against one context, many times: the buffer of one
/// execution is freed before the next allocates its own, typically at the same address, so
/// anything remembered by address and length shows up as the previous program's constant.
fn alternation(em: &mut Emit) {
    let spec = CtxSpec { vars: vec![("n".into(), Value::Int(7)), ("w".into(), Value::String(Arc::new("s7".into())))], funs: vec![] };
    let ctxw = spec.wire();
    let ctx: Context<'static> = spec.build();
    let ints = |base: i64, len: i64| (0..len).map(|i| format!("{}", base + i)).collect::<Vec<_>>().join(", ");
    let strs = |tag: &str, len: usize| (0..len).map(|i| format!("'{}{}'", tag, i)).collect::<Vec<_>>().join(", ");
    let groups: Vec<Vec<String>> = vec![
        vec![format!("7 in [{}]", ints(0, 40)), format!("7 in [{}]", ints(100, 40)), format!("107 in [{}]", ints(100, 40))],
        vec![format!("n in [{}]", ints(0, 64)), format!("n in [{}]", ints(1000, 64))],
        vec![format!("[{}].contains(n)", ints(0, 33)), format!("[{}].contains(n)", ints(50, 33))],
        vec![format!("'s7' in [{}]", strs("s", 40)), format!("'s7' in [{}]", strs("t", 40)), format!("w in [{}]", strs("s", 40))],
        vec![format!("[{}].contains(w)", strs("t", 48)), format!("[{}].contains(w)", strs("s", 48))],
        vec![format!("7u in [{}]", ints(0, 40)), format!("7u in [{}]", ints(100, 40))],
        vec![format!("[{}].map(e, e + n)[7]", ints(0, 40)), format!("[{}].map(e, e + n)[7]", ints(100, 40))],
        vec![format!("size([{}] + [n]) + [{}][7]", ints(0, 40), ints(0, 40)), format!("size([{}] + [n]) + [{}][7]", ints(100, 40), ints(100, 40))],
    ];
    for (g, group) in groups.iter().enumerate() {
        let progs: Vec<Program> = group.iter().map(|s| Program::compile(s).expect("alternation program compiles")).collect();
        for round in 0..12 {
            for (k, p) in progs.iter().enumerate() {
                let w = guarded(std::panic::AssertUnwindSafe(|| exec_wire(p, &ctx)));
                em.case(&format!("(evalsrc {} {})", ctxw, sx_str(&group[k])), &w, "nt=1;kind=alternation", &format!("alternation group {} round {}: {}", g, round, group[k]));
            }
        }
    }
}

pub fn run(em: &mut Emit, thorough: bool, seed: u64) {
    let mut rng = Rng::new(seed ^ 0xC05);
    alternation(em);
    arc_ops(em, &mut rng, if thorough { 40_000 } else { 3_000 });
    heap_cases(em, &mut rng, if thorough { 60_000 } else { 4_000 });
    let nh = if thorough { 3000 } else { 120 };
    for h in 0..nh {
        let steps = 1 + rng.below(50) as usize;
        history(em, &mut rng, steps, h);
    }
    let reps = if thorough { 5 } else { 1 };
    for r in 0..reps {
        for &n in if thorough { &[2usize, 3, 4, 6, 8, 12, 16][..] } else { &[2usize, 4, 8, 16][..] } {
            let per = if thorough { 200 } else { 60 };
            threads(em, &mut rng, n, per, r);
        }
        for &n in if thorough { &[2usize, 4, 8, 16][..] } else { &[4usize, 16][..] } {
            rendezvous(em, &mut rng, n, if thorough { 12 } else { 4 }, r);
        }
        for &n in if thorough { &[2usize, 8, 16][..] } else { &[8usize][..] } {
            hammer(em, n, if thorough { 12_000 } else { 4_000 }, r);
        }
    }
}
