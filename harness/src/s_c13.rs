//! C13: numeric literals and conversions preserve the number or fail.
use crate::ctxgen::*;
use crate::prog::*;
use crate::rng::Rng;
use crate::s_c01::parse_impl;
use crate::wire::*;
use crate::{guarded, Emit};
use cel_interpreter::{Program, Value};
use std::sync::Arc;

fn lit_case(em: &mut Emit, src: &str, expected: String, kind: &str) {
    let got = parse_impl(src);
    let law = if got == expected { "(bool true)".to_string() } else { format!("(law-violated literal-denotes got {} want {})", got, expected) };
    em.case("(echo (bool true))", &law, &format!("nt=1;kind=law-{}", kind), src);
    em.case(&format!("(compile {})", sx_str(src)), &got, &format!("nt=1;kind={}", kind), src);
}

fn int_literals(em: &mut Emit, v: i128) {
    let in_range = v >= i64::MIN as i128 && v <= i64::MAX as i128;
    let exp = if in_range { format!("(ok (lit (int {})))", v) } else { "(reject)".to_string() };
    let mag = v.unsigned_abs();
    let sign = if v < 0 { "-" } else { "" };
    lit_case(em, &format!("{}{}", sign, mag), exp.clone(), "int-dec");
    lit_case(em, &format!("{}0x{:x}", sign, mag), exp.clone(), "int-hex");
    lit_case(em, &format!("{}0x{:X}", sign, mag), exp.clone(), "int-hex");
    lit_case(em, &format!("{}000{}", sign, mag), exp.clone(), "int-dec-zeros");
    if v >= 0 {
        let uexp = if v <= u64::MAX as i128 { format!("(ok (lit (uint {})))", v) } else { "(reject)".to_string() };
        lit_case(em, &format!("{}u", mag), uexp.clone(), "uint-dec");
        lit_case(em, &format!("{}U", mag), uexp.clone(), "uint-dec");
        lit_case(em, &format!("0x{:x}u", mag), uexp.clone(), "uint-hex");
        lit_case(em, &format!("0x{:X}U", mag), uexp, "uint-hex");
    }
}

fn double_literals(em: &mut Emit, d: f64) {
    if !d.is_finite() {
        return;
    }
    let forms = vec![
        format!("{:?}", d),
        format!("{:e}", d),
        format!("{:E}", d),
        format!("{:.20e}", d),
        format!("{:.1}", d),
        format!("{:.30}", d),
    ];
    for f in forms {
        // only texts that are NUM_FLOAT tokens (optionally signed)
        let body = f.strip_prefix('-').unwrap_or(&f);
        if !(body.contains('.') || body.contains('e') || body.contains('E')) || body.len() > 400 {
            continue;
        }
        let want: f64 = f.parse().unwrap();
        let exp = if want.is_finite() { format!("(ok (lit {}))", sx_f64(want)) } else { "(reject)".to_string() };
        lit_case(em, &f, exp, "double");
    }
}

fn conv_programs() -> Vec<&'static str> {
    vec![
        "int(x)", "uint(x)", "double(x)", "string(x)", "bytes(x)", "x.int()", "x.string()",
        "int(string(x)) == x", "uint(string(x)) == x", "double(string(x)) == x", "string(bytes(x)) == x",
        "bytes(string(x)) == x", "int(double(x))", "double(int(x))", "uint(double(x))", "double(uint(x))",
        "int(uint(x))", "uint(int(x))", "string(int(x))", "string(double(x))", "int(int(x))",
    ]
}

fn conv_law(v: &Value) -> String {
    // the conversions return the mathematically corresponding value or an error
    let ctx = CtxSpec { vars: vec![("x".into(), v.clone())], funs: vec![] }.build();
    let run = |s: &str| Program::compile(s).unwrap().execute(&ctx);
    let mut bad: Vec<String> = Vec::new();
    match v {
        Value::Float(d) => {
            let t = d.trunc();
            match run("int(x)") {
                Ok(Value::Int(i)) => {
                    if !(d.is_finite() && t >= -9223372036854775808.0 && t < 9223372036854775808.0 && (i as f64) == t && (i as i128) == (t as i128)) {
                        bad.push(format!("int(double)={}", i));
                    }
                }
                Ok(o) => bad.push(format!("int(double) gave {:?}", o)),
                Err(_) => {
                    if d.is_finite() && t >= -9223372036854775808.0 && t < 9223372036854775808.0 {
                        bad.push("int(double) failed in range".into());
                    }
                }
            }
            match run("uint(x)") {
                Ok(Value::UInt(u)) => {
                    if !(d.is_finite() && t >= 0.0 && t < 18446744073709551616.0 && (u as i128) == (t as i128)) {
                        bad.push(format!("uint(double)={}", u));
                    }
                }
                Ok(o) => bad.push(format!("uint(double) gave {:?}", o)),
                Err(_) => {
                    if d.is_finite() && *d >= 0.0 && t < 18446744073709551616.0 {
                        bad.push("uint(double) failed in range".into());
                    }
                }
            }
            match run("double(string(x))") {
                Ok(Value::Float(r)) => {
                    if !(r.to_bits() == d.to_bits() || (r.is_nan() && d.is_nan())) {
                        bad.push(format!("double(string(d)) = {:?}", r));
                    }
                }
                other => bad.push(format!("double(string(d)) gave {:?}", other.map(|v| sx_value(&v)))),
            }
        }
        Value::Int(i) => {
            if run("int(string(x))") != Ok(Value::Int(*i)) {
                bad.push("int(string(i)) != i".into());
            }
            match run("uint(x)") {
                Ok(Value::UInt(u)) => {
                    if *i < 0 || u != *i as u64 {
                        bad.push("uint(int) wrong".into());
                    }
                }
                Ok(_) => bad.push("uint(int) kind".into()),
                Err(_) => {
                    if *i >= 0 {
                        bad.push("uint(int) failed in range".into());
                    }
                }
            }
            if run("double(x)") != Ok(Value::Float(*i as f64)) {
                bad.push("double(int) is not the nearest double".into());
            }
        }
        Value::UInt(u) => {
            if run("uint(string(x))") != Ok(Value::UInt(*u)) {
                bad.push("uint(string(u)) != u".into());
            }
            match run("int(x)") {
                Ok(Value::Int(i)) => {
                    if *u > i64::MAX as u64 || i as u64 != *u {
                        bad.push("int(uint) wrong".into());
                    }
                }
                Ok(_) => bad.push("int(uint) kind".into()),
                Err(_) => {
                    if *u <= i64::MAX as u64 {
                        bad.push("int(uint) failed in range".into());
                    }
                }
            }
            if run("double(x)") != Ok(Value::Float(*u as f64)) {
                bad.push("double(uint) is not the nearest double".into());
            }
        }
        Value::String(s) => {
            if run("string(bytes(x))") != Ok(Value::String(s.clone())) {
                bad.push("string(bytes(s)) != s".into());
            }
        }
        _ => {}
    }
    if bad.is_empty() { "(bool true)".into() } else { format!("(law-violated {})", bad.join("; ")) }
}

fn conv_cases(em: &mut Emit, v: &Value, kind: &str) {
    let spec = CtxSpec { vars: vec![("x".into(), v.clone())], funs: vec![] };
    for p in conv_programs() {
        emit_program(em, p, &spec, &format!("nt=1;kind=conv-{}", kind));
    }
    let v2 = v.clone();
    let law = guarded(move || conv_law(&v2));
    em.case("(echo (bool true))", &law, &format!("nt=1;kind=law-conv-{}", kind), &format!("conversions of {}", sx_value(v)));
}

pub fn run(em: &mut Emit, thorough: bool, seed: u64) {
    let p = |e: u32| 1i128 << e;
    let mut ints: Vec<i128> = vec![0, 1, -1, 2, 9, 10, 11, 99, 100, 255, 256, 65535, 65536];
    for b in [p(31), p(32), p(53), p(62), p(63), p(64), 1_000_000_007, 999_999_999_999_999_999, 10i128.pow(18), 10i128.pow(19)] {
        for d in [-2i128, -1, 0, 1, 2] {
            ints.push(b + d);
            ints.push(-(b + d));
        }
    }
    ints.sort();
    ints.dedup();
    for v in &ints {
        int_literals(em, *v);
    }
    let dbls: Vec<f64> = vec![
        0.0, -0.0, 1.0, -1.0, 0.5, 1.5, 0.1, 0.2, 0.3, 1e22, 1e23, 9007199254740992.0, 9007199254740993.0, 9007199254740991.0,
        9223372036854775807.0, 9223372036854775808.0, 9223372036854774784.0, -9223372036854775808.0, -9223372036854777856.0,
        18446744073709551615.0, 18446744073709551616.0, 18446744073709549568.0, 4294967296.5, 2147483647.999,
        f64::MAX, f64::MIN, f64::MIN_POSITIVE, 5e-324, 1e-323, 2.2250738585072009e-308, 1.7976931348623157e308, 1e308, 1e-308,
        123456789.123456789, 0.000001, 1e-7, 1e21, 1e20, 123456789012345680000.0, 3.141592653589793, 2.718281828459045,
        -0.9999999999999999, 0.9999999999999999, 4.35, 0.7, 2.5e-5, 1e15, 1e16, 1e17, 4.9e-324, 8.41e21, 2e-323,
    ];
    for d in &dbls {
        double_literals(em, *d);
    }
    for t in ["1e400", "1e309", "1.8e308", "1.7976931348623158e308", "1.7976931348623159e308", "1e-400", "0.0e999", "1e-324",
              "2.4703282292062327e-324", "2.4703282292062328e-324", "9007199254740993.0", "9007199254740992.5", "0.1e1", "00.5",
              "1.5e+3", "1.5E-3", "5e0", ".5e1", "123456789012345678901234567890.0", "0.000000000000000000000000000001",
              "1e99999999999999999999", "1e-99999999999999999999", "4.35", "1.0000000000000002", "1.00000000000000011102230246251565404236316680908203125",
              "1.00000000000000011102230246251565404236316680908203124", "1.00000000000000011102230246251565404236316680908203126"] {
        let want: Result<f64, _> = t.parse();
        let exp = match want { Ok(w) if w.is_finite() => format!("(ok (lit {}))", sx_f64(w)), _ => "(reject)".to_string() };
        lit_case(em, t, exp, "double-text");
    }
    // leading zeros and long digit strings (the digits before the value must not count towards
    // the range), in literals and as conversion arguments
    for z in [1usize, 2, 17, 18, 19, 20, 21, 40, 100] {
        let zs = "0".repeat(z);
        for (t, exp) in [
            (format!("{}1", zs), "(ok (lit (int 1)))".to_string()),
            (format!("{}9223372036854775807", zs), "(ok (lit (int 9223372036854775807)))".to_string()),
            (format!("{}9223372036854775808", zs), "(reject)".to_string()),
            (format!("-{}9223372036854775808", zs), "(ok (lit (int -9223372036854775808)))".to_string()),
            (format!("{}18446744073709551615u", zs), "(ok (lit (uint 18446744073709551615)))".to_string()),
            (format!("{}18446744073709551616u", zs), "(reject)".to_string()),
            (format!("0x{}7fffffffffffffff", zs), "(ok (lit (int 9223372036854775807)))".to_string()),
            (format!("0x{}8000000000000000", zs), "(reject)".to_string()),
            (format!("0x{}ffffffffffffffffu", zs), "(ok (lit (uint 18446744073709551615)))".to_string()),
            (format!("{}1.5", zs), format!("(ok (lit {}))", sx_f64(1.5))),
            (format!("1.{}5", zs), { let w: f64 = format!("1.{}5", zs).parse().unwrap(); format!("(ok (lit {}))", sx_f64(w)) }),
            (format!("1{}.0", zs), { let w: f64 = format!("1{}.0", zs).parse().unwrap(); format!("(ok (lit {}))", sx_f64(w)) }),
        ] {
            lit_case(em, &t, exp, "leading-zeros");
        }
    }
    // conversions
    let mut vals: Vec<Value> = Vec::new();
    for z in [1usize, 18, 19, 20, 40] {
        let zs = "0".repeat(z);
        for t in [format!("{}7", zs), format!("-{}7", zs), format!("{}9223372036854775807", zs), format!("{}18446744073709551615", zs),
                  format!("{}18446744073709551616", zs), format!("{}.5", zs), format!("1{}", zs), format!("0.{}1", zs)] {
            vals.push(Value::String(Arc::new(t)));
        }
    }
    for v in &ints {
        if *v >= i64::MIN as i128 && *v <= i64::MAX as i128 {
            vals.push(Value::Int(*v as i64));
        }
        if *v >= 0 && *v <= u64::MAX as i128 {
            vals.push(Value::UInt(*v as u64));
        }
    }
    for d in &dbls {
        vals.push(Value::Float(*d));
        vals.push(Value::Float(-*d));
    }
    for d in [f64::NAN, f64::INFINITY, f64::NEG_INFINITY, -0.5, -0.9999, 0.9999, -1.5, 9223372036854775807.5] {
        vals.push(Value::Float(d));
    }
    for s in ["", "0", "-0", "+0", "12", "-12", "+12", " 12", "12 ", "1 2", "1e3", "1.5", ".5", "5.", ".", "e5", "1e", "1e+", "inf", "-inf",
              "Infinity", "INF", "nan", "NaN", "-nan", "+inf", "infinit", "0x10", "1_000", "9223372036854775807", "9223372036854775808",
              "-9223372036854775808", "-9223372036854775809", "18446744073709551615", "18446744073709551616", "００", "1.0000000000000002",
              "1e400", "-1e400", "1e-400", "héllo", "😀", "a\u{0}b", "0.1", "123456789012345678901234567890", "2.5e-5", "1E5", "1e05", "00012"] {
        vals.push(Value::String(Arc::new(s.to_string())));
    }
    for b in [vec![], vec![97u8, 98], vec![0xc3, 0xa9], vec![0xf0, 0x9f, 0x98, 0x80], vec![0xe2, 0x82, 0xac], vec![0x7f], vec![0]] {
        vals.push(Value::Bytes(Arc::new(b)));
    }
    for v in &vals {
        conv_cases(em, v, "bnd");
    }
    // random 64-bit patterns
    let mut rng = Rng::new(seed ^ 0xC13);
    for _ in 0..(if thorough { 40000 } else { 1200 }) {
        let bits = rng.next();
        let d = f64::from_bits(bits);
        double_literals(em, d);
        conv_cases(em, &Value::Float(d), "rnd");
        let d2 = rng.log_i64() as f64 + (rng.below(1000) as f64) / 1000.0;
        double_literals(em, d2);
        conv_cases(em, &Value::Float(d2), "rnd");
        let i = rng.next() as i64;
        int_literals(em, i as i128);
        conv_cases(em, &Value::Int(i), "rnd");
        let u = rng.log_u64();
        int_literals(em, u as i128);
        conv_cases(em, &Value::UInt(u), "rnd");
    }
}
