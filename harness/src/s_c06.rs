//! C06: && / || / ?: evaluate only what they need.  Trees of the three operators over
//! boolean constants, error-raising expressions and call-logging host functions.
use crate::ctxgen::*;
use crate::prog::*;
use crate::rng::Rng;
use crate::Emit;
use cel_interpreter::Value;

fn spec() -> CtxSpec {
    CtxSpec {
        vars: vec![("imax".into(), Value::Int(i64::MAX)), ("t".into(), Value::Bool(true))],
        funs: vec![
            HostFn { kind: "hv2b", name: "pick".into() },
            HostFn { kind: "hfail1", name: "boom".into() },
        ],
    }
}

/// leaf kinds; `id` makes logging leaves distinguishable in the log
fn leaf(kind: usize, id: &mut u32) -> String {
    *id += 1;
    match kind {
        0 => "true".into(),
        1 => "false".into(),
        2 => format!("pick({}, true)", id),
        3 => format!("pick({}, false)", id),
        4 => "(1 / 0 > 0)".into(),
        5 => "(imax + 1 > 0)".into(),
        6 => "({}.zz)".into(),
        7 => "undeclared_name".into(),
        8 => format!("boom({})", id),
        // calls of functions no context registers: an error only if they are reached
        9 => format!("nosuch_fn({})", id),
        _ => "t.nosuch_method()".into(),
    }
}
const NLEAF: usize = 11;

fn observable(kind: usize) -> bool {
    kind >= 2
}

struct T {
    src: String,
    obs: bool,
}

fn combos(leaves: &[usize], depth: u32, id: &mut u32, out: &mut Vec<T>, ops: &[usize]) {
    // all trees of exactly the given shape depth over the leaf kinds
    fn build(leaves: &[usize], depth: u32, ops: &[usize]) -> Vec<(Vec<i64>, bool)> {
        // returns encoded trees as RPN-ish token lists: leaf k => k, op => -(op+1)
        let mut res: Vec<(Vec<i64>, bool)> = leaves.iter().map(|&k| (vec![k as i64], observable(k))).collect();
        if depth == 0 {
            return res;
        }
        let sub = build(leaves, depth - 1, ops);
        for &op in ops {
            if op < 2 {
                for a in &sub {
                    for b in &sub {
                        let mut v = a.0.clone();
                        v.extend(&b.0);
                        v.push(-(op as i64 + 1));
                        res.push((v, b.1));
                    }
                }
            } else {
                for a in &sub {
                    for b in &sub {
                        for c in &sub {
                            let mut v = a.0.clone();
                            v.extend(&b.0);
                            v.extend(&c.0);
                            v.push(-3);
                            res.push((v, b.1 || c.1));
                        }
                    }
                }
            }
        }
        res
    }
    for (toks, obs) in build(leaves, depth, ops) {
        let mut st: Vec<String> = Vec::new();
        for t in toks {
            if t >= 0 {
                st.push(leaf(t as usize, id));
            } else if t == -1 {
                let b = st.pop().unwrap();
                let a = st.pop().unwrap();
                st.push(format!("({} && {})", a, b));
            } else if t == -2 {
                let b = st.pop().unwrap();
                let a = st.pop().unwrap();
                st.push(format!("({} || {})", a, b));
            } else {
                let c = st.pop().unwrap();
                let b = st.pop().unwrap();
                let a = st.pop().unwrap();
                st.push(format!("({} ? {} : {})", a, b, c));
            }
        }
        out.push(T { src: st.pop().unwrap(), obs });
    }
}

fn random_tree(rng: &mut Rng, depth: u32, id: &mut u32, obs: &mut bool) -> String {
    if depth == 0 || rng.chance(1, 5) {
        let k = rng.below(NLEAF as u64) as usize;
        if observable(k) {
            *obs = true;
        }
        return leaf(k, id);
    }
    match rng.below(4) {
        0 => format!("({} && {})", random_tree(rng, depth - 1, id, obs), random_tree(rng, depth - 1, id, obs)),
        1 => format!("({} || {})", random_tree(rng, depth - 1, id, obs), random_tree(rng, depth - 1, id, obs)),
        2 => format!(
            "({} ? {} : {})",
            random_tree(rng, depth - 1, id, obs),
            random_tree(rng, depth - 1, id, obs),
            random_tree(rng, depth - 1, id, obs)
        ),
        _ => format!("(!{})", random_tree(rng, depth - 1, id, obs)),
    }
}

pub fn run(em: &mut Emit, thorough: bool, seed: u64) {
    let sp = spec();
    let mut id = 0u32;
    let mut trees: Vec<T> = Vec::new();
    let all: Vec<usize> = (0..NLEAF).collect();
    // one operator over all 9 leaf kinds (exhaustive: 9 + 2*81 + 729)
    combos(&all, 1, &mut id, &mut trees, &[0, 1, 2]);
    // two levels, binary operators over 5 leaf kinds, conditional over 3
    combos(&[0, 1, 2, 3, 8], 2, &mut id, &mut trees, &[0, 1]);
    combos(&[2, 3, 8], 2, &mut id, &mut trees, if thorough { &[0, 1, 2] } else { &[2] });
    for t in &trees {
        let tags = format!("nt={};kind=c06-exh", t.obs as u8);
        emit_program(em, &t.src, &sp, &tags);
    }
    // flat chains (no parentheses): every length up to 40, the deciding operand near the end, at a
    // random place or absent, logging operands everywhere else
    let mut rng = Rng::new(seed ^ 0xC06C);
    for len in 2..=40usize {
        for (op, neutral, deciding) in [("&&", 2usize, 3usize), ("||", 3, 2)] {
            for variant in 0..(if thorough { 12 } else { 5 }) {
                let pos = match variant { 0 => len, 1 => len - 1, 2 => 0, 3 => len / 2, _ => rng.below(len as u64 + 1) as usize };
                let mut terms: Vec<String> = Vec::new();
                for i in 0..len {
                    let k = if i == pos { deciding } else if i > pos && rng.chance(1, 3) { *rng.pick(&[4usize, 7, 8, 9, 10]) } else { neutral };
                    terms.push(leaf(k, &mut id));
                }
                let src = terms.join(&format!(" {} ", op));
                emit_program(em, &src, &sp, "nt=1;kind=c06-chain");
                // the same chain as an operand of the other operator and of a conditional
                let other = if op == "&&" { "||" } else { "&&" };
                emit_program(em, &format!("{} {} {} {} {}", leaf(neutral, &mut id), other, src, other, leaf(neutral, &mut id)), &sp, "nt=1;kind=c06-chain-mixed");
                emit_program(em, &format!("({}) ? {} : {}", src, leaf(2, &mut id), leaf(3, &mut id)), &sp, "nt=1;kind=c06-chain-cond");
            }
        }
    }
    let mut rng = Rng::new(seed ^ 0xC06);
    let n = if thorough { 300_000 } else { 12_000 };
    for i in 0..n {
        let mut obs = false;
        let d = 2 + rng.below(3) as u32;
        let mut src = random_tree(&mut rng, d, &mut id, &mut obs);
        // inside macro bodies
        let kind = match i % 6 {
            0 => {
                src = format!("[1, 2].all(x, {})", src);
                "c06-in-all"
            }
            1 => {
                src = format!("[1, 2, 3].map(x, {})", src);
                "c06-in-map"
            }
            2 => {
                src = format!("[1, 2].exists(x, [3].filter(y, {}).size() > 0)", src);
                "c06-in-nested"
            }
            _ => "c06-rnd",
        };
        let tags = format!("nt={};kind={}", obs as u8, kind);
        emit_program(em, &src, &sp, &tags);
    }
}
