//! C08: 64-bit integer arithmetic is exact or reports overflow.
use crate::rng::Rng;
use crate::wire::*;
use crate::{guarded, Emit};
use cel_interpreter::{Context, Program, Value};

pub fn i64_boundary() -> Vec<i64> {
    let mut v: Vec<i64> = vec![0, 1, -1, 2, -2, 3, -3, 7, -7, 10, -10];
    let p = |e: u32| 1i64 << e;
    for b in [
        i64::MAX,
        i64::MIN,
        p(31),
        -p(31),
        p(32),
        -p(32),
        p(53),
        -p(53),
        p(62),
        -p(62),
        3037000499,
        -3037000499,
        i64::MAX / 2,
        i64::MIN / 2,
        i64::MAX / 3,
    ] {
        for d in [-1i64, 0, 1] {
            if let Some(x) = b.checked_add(d) {
                v.push(x);
            }
        }
    }
    v.push(i64::MAX - 2);
    v.push(i64::MIN + 2);
    v.push(6074000999); // 2*sqrt(max)
    v.push(-6074000999);
    v.sort();
    v.dedup();
    v
}

pub fn u64_boundary() -> Vec<u64> {
    let mut v: Vec<u64> = vec![0, 1, 2, 3, 7, 10, 100];
    let p = |e: u32| 1u64 << e;
    for b in [
        u64::MAX,
        p(31),
        p(32),
        p(53),
        p(62),
        p(63),
        4294967295,
        4294967296,
        6074000999,
        u64::MAX / 2,
        u64::MAX / 3,
        u64::MAX / 5,
        i64::MAX as u64,
        3037000499,
        1000000007,
    ] {
        for d in [-1i64, 0, 1] {
            let x = if d < 0 {
                b.checked_sub(1)
            } else {
                b.checked_add(d as u64)
            };
            if let Some(x) = x {
                v.push(x);
            }
        }
    }
    v.push(u64::MAX - 2);
    v.sort();
    v.dedup();
    v
}

const OPS: [(&str, &str); 5] = [
    ("add", "+"),
    ("sub", "-"),
    ("mul", "*"),
    ("div", "/"),
    ("rem", "%"),
];

fn exec(src: &str, ctx: &Context) -> String {
    let s = src.to_string();
    // Context is not UnwindSafe by declaration; a panic leaves nothing we reuse.
    let ctx = std::panic::AssertUnwindSafe(ctx);
    guarded(move || match Program::compile(&s) {
        Err(_) => "(reject)".to_string(),
        Ok(p) => sx_result(&p.execute(&ctx)),
    })
}

fn near_i(x: i64) -> bool {
    let x = x as i128;
    [i64::MIN as i128, i64::MAX as i128, 0]
        .iter()
        .any(|b| (x - b).abs() <= 2)
}
fn near_u(x: u64) -> bool {
    x <= 2 || x >= u64::MAX - 2
}

fn exact(op: &str, a: i128, b: i128) -> Option<i128> {
    match op {
        "add" => Some(a + b),
        "sub" => Some(a - b),
        "mul" => Some(a.checked_mul(b).unwrap_or(i128::MAX)),
        "div" => {
            if b == 0 {
                None
            } else {
                Some(a / b)
            }
        }
        _ => {
            if b == 0 {
                None
            } else {
                Some(a / b)
            }
        }
    }
}

fn int_pair(em: &mut Emit, a: i64, b: i64, kind: &str) {
    for (op, sym) in OPS {
        let ex = exact(op, a as i128, b as i128);
        let nt = near_i(a)
            || near_i(b)
            || b == 0
            || b == -1
            || ex.map_or(true, |r| r < i64::MIN as i128 || r > i64::MAX as i128);
        let req = format!("(binop {} (int {}) (int {}))", op, a, b);
        let tags = format!("nt={};kind=int-{}-{}", nt as u8, op, kind);
        // literal spelling
        let src = format!("{} {} {}", a, sym, b);
        let ctx = Context::default();
        em.case(&req, &exec(&src, &ctx), &tags, &src);
        // context variables
        let mut ctx = Context::default();
        ctx.add_variable_from_value("x", Value::Int(a));
        ctx.add_variable_from_value("y", Value::Int(b));
        let src = format!("x {} y", sym);
        em.case(
            &req,
            &exec(&src, &ctx),
            &tags,
            &format!("{} with x={} y={}", src, a, b),
        );
    }
}

fn uint_pair(em: &mut Emit, a: u64, b: u64, kind: &str) {
    for (op, sym) in OPS {
        let ex = exact(op, a as i128, b as i128);
        let nt = near_u(a)
            || near_u(b)
            || ex.map_or(true, |r| r < 0 || r > u64::MAX as i128);
        let req = format!("(binop {} (uint {}) (uint {}))", op, a, b);
        let tags = format!("nt={};kind=uint-{}-{}", nt as u8, op, kind);
        let src = format!("{}u {} {}u", a, sym, b);
        let ctx = Context::default();
        em.case(&req, &exec(&src, &ctx), &tags, &src);
        let mut ctx = Context::default();
        ctx.add_variable_from_value("x", Value::UInt(a));
        ctx.add_variable_from_value("y", Value::UInt(b));
        let src = format!("x {} y", sym);
        em.case(
            &req,
            &exec(&src, &ctx),
            &tags,
            &format!("{} with x={}u y={}u", src, a, b),
        );
    }
}

fn neg(em: &mut Emit, a: i64) {
    let req = format!("(unop neg (int {}))", a);
    let tags = format!("nt={};kind=neg", near_i(a) as u8);
    let src = format!("-({})", a);
    em.case(&req, &exec(&src, &Context::default()), &tags, &src);
    let mut ctx = Context::default();
    ctx.add_variable_from_value("x", Value::Int(a));
    em.case(&req, &exec("-x", &ctx), &tags, &format!("-x with x={}", a));
    // double negation through the parser: an even run cancels
    let req2 = format!("(echo (int {}))", a);
    let imp = exec("--x", &ctx);
    let imp = imp
        .strip_prefix("(ok ")
        .and_then(|s| s.strip_suffix(")"))
        .map(|s| s.to_string())
        .unwrap_or(imp);
    em.case(&req2, &imp, &tags, &format!("--x with x={}", a));
}

fn mixing(em: &mut Emit) {
    let vals: Vec<(String, String, Value)> = vec![
        ("(int 1)".into(), "1".into(), Value::Int(1)),
        ("(int 0)".into(), "0".into(), Value::Int(0)),
        ("(int -5)".into(), "-5".into(), Value::Int(-5)),
        ("(uint 1)".into(), "1u".into(), Value::UInt(1)),
        ("(uint 0)".into(), "0u".into(), Value::UInt(0)),
        ("(uint 7)".into(), "7u".into(), Value::UInt(7)),
        (sx_f64(1.0), "1.0".into(), Value::Float(1.0)),
        (sx_f64(0.0), "0.0".into(), Value::Float(0.0)),
        (sx_f64(2.5), "2.5".into(), Value::Float(2.5)),
    ];
    for (ra, sa, va) in &vals {
        for (rb, sb, vb) in &vals {
            let mixed = std::mem::discriminant(va) != std::mem::discriminant(vb);
            if !mixed {
                continue;
            }
            for (op, sym) in OPS {
                let req = format!("(binop {} {} {})", op, ra, rb);
                let tags = format!("nt=1;kind=mix-{}", op);
                let src = format!("{} {} {}", sa, sym, sb);
                em.case(&req, &exec(&src, &Context::default()), &tags, &src);
                let mut ctx = Context::default();
                ctx.add_variable_from_value("x", va.clone());
                ctx.add_variable_from_value("y", vb.clone());
                let src2 = format!("x {} y", sym);
                em.case(
                    &req,
                    &exec(&src2, &ctx),
                    &tags,
                    &format!("{} with x={} y={}", src2, sa, sb),
                );
            }
        }
    }
}

pub fn run(em: &mut Emit, thorough: bool, seed: u64) {
    let ib = i64_boundary();
    let ub = u64_boundary();
    for &a in &ib {
        for &b in &ib {
            int_pair(em, a, b, "bnd");
        }
    }
    for &a in &ub {
        for &b in &ub {
            uint_pair(em, a, b, "bnd");
        }
    }
    for &a in &ib {
        neg(em, a);
    }
    mixing(em);
    let mut rng = Rng::new(seed);
    let n = if thorough { 200_000 } else { 2_000 };
    for i in 0..n {
        let (a, b) = if i % 2 == 0 {
            (rng.next() as i64, rng.next() as i64)
        } else {
            (rng.log_i64(), rng.log_i64())
        };
        int_pair(em, a, b, "rnd");
        let (a, b) = if i % 2 == 0 {
            (rng.next(), rng.next())
        } else {
            (rng.log_u64(), rng.log_u64())
        };
        uint_pair(em, a, b, "rnd");
        if i % 4 == 0 {
            neg(em, rng.log_i64());
        }
    }
}
