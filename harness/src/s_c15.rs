//! C15: durations parse, print, add and compare exactly.
use crate::ctxgen::*;
use crate::prog::*;
use crate::rng::Rng;
use crate::wire::*;
use crate::{guarded, Emit};
use cel_interpreter::{Program, Value};
use std::sync::Arc;

/// Go's time.Duration.String, written independently of the code under test.
pub fn go_string(d: i64) -> String {
    if d == 0 {
        return "0s".into();
    }
    let neg = d < 0;
    let u = d.unsigned_abs();
    let mut out = String::new();
    if u < 1_000_000_000 {
        let (unit, div) = if u < 1_000 { ("ns", 1u64) } else if u < 1_000_000 { ("µs", 1_000) } else { ("ms", 1_000_000) };
        let ip = u / div;
        let fp = u % div;
        out.push_str(&ip.to_string());
        if fp != 0 {
            let width = div.to_string().len() - 1;
            let f = format!("{:0width$}", fp, width = width);
            out.push('.');
            out.push_str(f.trim_end_matches('0'));
        }
        out.push_str(unit);
    } else {
        let secs = u / 1_000_000_000;
        let fp = u % 1_000_000_000;
        let (h, m, s) = (secs / 3600, (secs / 60) % 60, secs % 60);
        if h > 0 {
            out.push_str(&format!("{}h", h));
        }
        if h > 0 || m > 0 {
            out.push_str(&format!("{}m", m));
        }
        out.push_str(&s.to_string());
        if fp != 0 {
            let f = format!("{:09}", fp);
            out.push('.');
            out.push_str(f.trim_end_matches('0'));
        }
        out.push('s');
    }
    if neg { format!("-{}", out) } else { out }
}

fn dur(ns: i64) -> Value {
    Value::Duration(chrono::Duration::nanoseconds(ns))
}

fn boundary() -> Vec<i64> {
    let mut v: Vec<i64> = vec![0, 1, 999, 1_000, 1_001, 999_999, 1_000_000, 1_000_001, 1_500_000, 999_999_999, 1_000_000_000,
        1_000_000_001, 1_100_000_000, 59_999_999_999, 60_000_000_000, 60_000_000_001, 3_599_999_999_999, 3_600_000_000_000,
        3_600_000_000_001, 5_400_000_000_000, 86_400_000_000_000, 4_265_176_228, 629_493_380_207_408, 100, 10, 1_010,
        1_000_100, 10_000_000_000, 600_000_000_000, 36_000_000_000_000, i64::MAX, i64::MAX - 1, i64::MAX - 999_999_999];
    let neg: Vec<i64> = v.iter().map(|x| -x).collect();
    v.extend(neg);
    v.push(i64::MIN);
    v.push(i64::MIN + 1);
    v.sort();
    v.dedup();
    v
}

fn one(em: &mut Emit, d: i64, kind: &str) {
    let spec = CtxSpec { vars: vec![("d".into(), dur(d))], funs: vec![] };
    let nt = (d < 0 || d % 1_000_000_000 != 0) as u8;
    for p in ["string(d)", "duration(string(d)) == d", "duration(string(d))", "d == d", "d < d", "d"] {
        emit_program(em, p, &spec, &format!("nt={};kind={}", nt, kind));
    }
    let want = go_string(d);
    let law = guarded(move || {
        let ctx = CtxSpec { vars: vec![("d".into(), dur(d))], funs: vec![] }.build();
        let mut bad = Vec::new();
        match Program::compile("string(d)").unwrap().execute(&ctx) {
            Ok(Value::String(s)) if *s == want => {}
            other => bad.push(format!("string(d) = {:?} want {}", other.map(|v| sx_value(&v)), want)),
        }
        match Program::compile("duration(string(d)) == d").unwrap().execute(&ctx) {
            Ok(Value::Bool(true)) => {}
            other => bad.push(format!("duration(string(d)) == d gave {:?}", other.map(|v| sx_value(&v)))),
        }
        if bad.is_empty() { "(bool true)".into() } else { format!("(law-violated {})", bad.join("; ")) }
    });
    em.case("(echo (bool true))", &law, &format!("nt={};kind=law-{}", nt, kind), &format!("d = {} ns ({})", d, go_string(d)));
}

fn pair(em: &mut Emit, a: i64, b: i64, kind: &str) {
    let spec = CtxSpec { vars: vec![("a".into(), dur(a)), ("b".into(), dur(b))], funs: vec![] };
    for p in ["a + b", "a - b", "a < b", "a == b", "a >= b"] {
        emit_program(em, p, &spec, &format!("nt=1;kind={}", kind));
    }
    let law = guarded(move || {
        let ctx = CtxSpec { vars: vec![("a".into(), dur(a)), ("b".into(), dur(b))], funs: vec![] }.build();
        let mut bad = Vec::new();
        for (src, exact) in [("a + b", a as i128 + b as i128), ("a - b", a as i128 - b as i128)] {
            let fits = exact >= i64::MIN as i128 && exact <= i64::MAX as i128;
            match Program::compile(src).unwrap().execute(&ctx) {
                Ok(Value::Duration(r)) => {
                    if !fits || dur_ns(&r) != exact {
                        bad.push(format!("{} = {} ns, exact {}", src, dur_ns(&r), exact));
                    }
                }
                Ok(o) => bad.push(format!("{} gave {}", src, sx_value(&o))),
                Err(_) => {
                    if fits {
                        bad.push(format!("{} failed although {} is representable", src, exact));
                    }
                }
            }
        }
        match Program::compile("a < b").unwrap().execute(&ctx) {
            Ok(Value::Bool(x)) if x == (a < b) => {}
            o => bad.push(format!("a < b gave {:?}", o.map(|v| sx_value(&v)))),
        }
        if bad.is_empty() { "(bool true)".into() } else { format!("(law-violated {})", bad.join("; ")) }
    });
    em.case("(echo (bool true))", &law, &format!("nt=1;kind=law-{}", kind), &format!("a = {} b = {}", a, b));
}

fn text(em: &mut Emit, s: &str, kind: &str) {
    let spec = CtxSpec { vars: vec![("s".into(), Value::String(Arc::new(s.to_string())))], funs: vec![] };
    emit_program(em, "duration(s)", &spec, &format!("nt=1;kind={}", kind));
}

pub fn run(em: &mut Emit, thorough: bool, seed: u64) {
    let b = boundary();
    for d in &b {
        one(em, *d, "bnd");
    }
    for x in &b {
        for y in &b {
            if thorough || (x.unsigned_abs() > 1 << 60) || (y.unsigned_abs() > 1 << 60) || (*x + *y) % 7 == 0 {
                pair(em, *x, *y, "pair-bnd");
            }
        }
    }
    // durations beyond 64-bit nanoseconds (host supplied)
    for big in [chrono::Duration::MAX, chrono::Duration::MIN, chrono::Duration::seconds(i64::MAX / 1000),
                chrono::Duration::seconds(9_223_372_037), chrono::Duration::seconds(-9_223_372_037)] {
        let spec = CtxSpec { vars: vec![("d".into(), Value::Duration(big)), ("e".into(), dur(1))], funs: vec![] };
        for p in ["string(d)", "d + e", "d - e", "d + d", "d - d", "d == d", "d < e", "e - d", "d ? 1 : 2"] {
            emit_program(em, p, &spec, "nt=1;kind=beyond-i64");
        }
    }
    for s in ["0", "-0", "+0", "0s", "1h", "1.5h", "1h30m", "1h30m1s", "1ms", "1.5ms", "1ns", "1.5ns", "1us", "1µs", "1μs", "1.123us",
              "1.1s", "-1s", "+1s", "1m1s", "0h0m0s", "1.", ".5s", "1.s", ".s", "", "-", "+", "1", "s", "1h30mjunk", "1e3s", "infs", "nans",
              "--1s", "1h-30m", "1s ", " 1s", "1 s", "1S", "1H", "1d", "1y", "1hs", "1hh", "9223372036854775807ns", "9223372036854775808ns",
              "-9223372036854775808ns", "-9223372036854775809ns", "2562047h47m16.854775807s", "2562047h47m16.854775808s",
              "-2562047h47m16.854775808s", "2562048h", "99999999999999999999h", "0.000000000000000000001h", "1.0000000000000000000000001s",
              "4.265176228s", "174h51m33.380207408s", "1h1h", "1s1h", "0.5ns", "0.9999999999ns", "1.9999999999999999999999999999ns",
              "1h0", "1h0m0", "-1m0", "1.5s0", "1ns0", "0s0", "10", "1h00", "1h5", "00", "0 ", "0h0", "00s", "1s0s", "0.0", "0.", ".0", "-0.0", "+0s0", "0m0",
              "1ms1us1ns", "1m30", "1.5.5s", "1..5s", "١s", "1ｓ", "1h\n", "+-1s", "-+1s", "1e", "0x10s", "1_000s"] {
        text(em, s, "text");
    }
    // one whole-number term around every range a conversion could have: i64 nanoseconds, chrono's
    // own limit of i64::MAX milliseconds, i64 of the unit itself
    for unit in ["h", "m", "s", "ms", "us", "ns"] {
        for d in ["9223372036854775807", "9223372036854775808", "9223372036", "9223372037", "9223372036854", "9223372036855", "10000000000000000",
                  "153722867", "153722868", "153722867280912930", "153722867280912931", "2562047", "2562048", "2562047788015215", "2562047788015216",
                  "9223372036854775", "9223372036854776", "9000000000000000000", "200000000000000000", "100000000000000000000", "18446744073709551615", "18446744073709551616"] {
            text(em, &format!("{}{}", d, unit), "text-one-term");
            text(em, &format!("-{}{}", d, unit), "text-one-term");
            text(em, &format!("+{}{}", d, unit), "text-one-term");
        }
    }
    // long digit strings: integer and fractional parts far beyond what 64 (or 128) bits hold
    for &n in &[19usize, 20, 25, 26, 30, 38, 39, 40, 41, 60, 127, 128, 129, 200, 400] {
        for unit in ["s", "ms", "h", "ns"] {
            for (ip, fp) in [("1".to_string(), "9".repeat(n)), ("0".to_string(), format!("{}1", "0".repeat(n - 1))),
                             ("1".to_string(), "0".repeat(n)), ("0".repeat(n), "5".to_string()),
                             ("0".to_string(), "123456789".repeat(n / 9 + 1)[..n].to_string()), ("9".repeat(n), "0".to_string())] {
                text(em, &format!("{}.{}{}", ip, fp, unit), "text-long");
                text(em, &format!("-{}.{}{}", ip, fp, unit), "text-long");
            }
        }
    }
    let mut rng = Rng::new(seed ^ 0xC15);
    let n = if thorough { 150_000 } else { 5_000 };
    for _ in 0..n {
        let d = rng.log_i64();
        one(em, d, "rnd");
        let e = rng.log_i64();
        pair(em, d, e, "pair-rnd");
        // mutations of a valid rendering
        let mut s: Vec<char> = go_string(d).chars().collect();
        if !s.is_empty() {
            let i = rng.below(s.len() as u64) as usize;
            match rng.below(6) {
                0 => { s.remove(i); }
                1 => s.insert(i, *rng.pick(&['-', '+', ' ', 'e', '.', 'x', 'h', 's', '0', 'µ'])),
                2 => s[i] = *rng.pick(&['-', 'e', 'n', 'm', 'u', '9', '.', ' ']),
                3 => s.truncate(i),
                4 => s.extend("junk".chars()),
                _ => s.insert(0, *rng.pick(&['-', '+', ' '])),
            }
            let t: String = s.into_iter().collect();
            text(em, &t, "text-mutated");
        }
    }
}
