//! C14: the ways of asking a map about a key agree; list indexing; additive laws.
use crate::ctxgen::*;
use crate::prog::*;
use crate::rng::Rng;
use crate::wire::*;
use crate::{guarded, Emit};
use cel_interpreter::objects::{Key, Map};
use cel_interpreter::{Program, Value};
use std::collections::HashMap;
use std::sync::Arc;

fn ks(s: &str) -> Key {
    Key::String(Arc::new(s.to_string()))
}

fn key_alphabet() -> Vec<Key> {
    vec![Key::Int(1), Key::Int(2), Key::Uint(1), Key::Uint(3), Key::Bool(true), ks("a"), ks("b"), ks("true")]
}
fn query_keys() -> Vec<Key> {
    let mut q = key_alphabet();
    q.extend(vec![Key::Int(3), Key::Uint(2), Key::Int(9), Key::Uint(9), Key::Bool(false), ks("zz"), ks("1"),
                  Key::Int(-1), Key::Uint(u64::MAX), Key::Int(i64::MAX)]);
    q
}

fn key_src(k: &Key) -> String {
    match k {
        Key::Int(i) => if *i < 0 { format!("({})", i) } else { format!("{}", i) },
        Key::Uint(u) => format!("{}u", u),
        Key::Bool(b) => format!("{}", b),
        Key::String(s) => format!("'{}'", s),
    }
}

fn subsets(keys: &[Key], max: usize) -> Vec<Vec<Key>> {
    let n = keys.len();
    let mut res = Vec::new();
    for mask in 0u32..(1 << n) {
        if (mask.count_ones() as usize) <= max {
            res.push((0..n).filter(|i| mask & (1 << i) != 0).map(|i| keys[i].clone()).collect());
        }
    }
    res
}

fn is_ident(s: &str) -> bool {
    let mut cs = s.chars();
    match cs.next() {
        Some(c) if c.is_ascii_alphabetic() || c == '_' => {}
        _ => return false,
    }
    s != "true" && s != "false" && s != "null" && s != "in" && cs.all(|c| c.is_ascii_alphanumeric() || c == '_')
}

fn presence_law(keys: &[Key], q: &Key, round: usize) -> String {
    // evaluate all forms on the implementation and compare the notions of "present"
    let mut m = HashMap::new();
    for (i, k) in keys.iter().enumerate() {
        m.insert(k.clone(), stored(i, round).0);
    }
    let spec = CtxSpec { vars: vec![("m".into(), Value::Map(Map { map: Arc::new(m) }))], funs: vec![] };
    let ctx = spec.build();
    let run = |src: &str| Program::compile(src).unwrap().execute(&ctx);
    let k = key_src(q);
    let mut answers: Vec<(&str, Option<bool>)> = Vec::new();
    answers.push(("in", match run(&format!("{} in m", k)) { Ok(Value::Bool(b)) => Some(b), _ => None }));
    answers.push(("contains", match run(&format!("m.contains({})", k)) { Ok(Value::Bool(b)) => Some(b), _ => None }));
    answers.push(("index", match run(&format!("m[{}]", k)) { Ok(Value::Null) => Some(false), Ok(_) => Some(true), _ => None }));
    if let Key::String(s) = q {
        if is_ident(s) {
            answers.push(("select", match run(&format!("m.{}", s)) {
                Ok(Value::Function(..)) => Some(false),
                Ok(_) => Some(true),
                Err(cel_interpreter::ExecutionError::NoSuchKey(_)) => Some(false),
                _ => None,
            }));
            answers.push(("has", match run(&format!("has(m.{})", s)) { Ok(Value::Bool(b)) => Some(b), _ => None }));
        }
    }
    let first = answers[0].1;
    if first.is_some() && answers.iter().all(|a| a.1 == first) {
        "(bool true)".into()
    } else {
        format!("(law-violated presence-disagrees {:?})", answers)
    }
}

/// keys at the ends of the two integer ranges (an int and a uint with the same bit pattern are
/// different keys), and string keys spelled like built-in functions
fn extreme_alphabet() -> Vec<Key> {
    vec![Key::Int(-1), Key::Uint(u64::MAX), Key::Int(i64::MIN), Key::Uint(1 << 63), Key::Int(i64::MAX), Key::Uint(i64::MAX as u64),
         ks("size"), ks("contains"), ks("k")]
}
fn extreme_queries() -> Vec<Key> {
    let mut q = extreme_alphabet();
    q.extend(vec![Key::Int(0), Key::Uint(0), Key::Int(-2), Key::Uint(u64::MAX - 1), Key::Int(i64::MIN + 1), Key::Uint((1 << 63) + 1),
                  Key::Uint((1 << 63) - 1), ks("max"), ks("string")]);
    q
}
/// the value stored under the i-th key: (value, source); the second round stores values that a
/// truthiness test would take for absent
fn stored(i: usize, round: usize) -> (Value, String) {
    if round == 0 {
        return (Value::Int(10 + i as i64), format!("{}", 10 + i));
    }
    match i % 5 {
        0 => (Value::Int(0), "0".into()),
        1 => (Value::Bool(false), "false".into()),
        2 => (Value::String(Arc::new(String::new())), "''".into()),
        3 => (Value::List(Arc::new(vec![])), "[]".into()),
        _ => (Value::UInt(0), "0u".into()),
    }
}

pub fn run(em: &mut Emit, thorough: bool, seed: u64) {
  for (round, (alpha, queries, maxk)) in [(key_alphabet(), query_keys(), if thorough { 4 } else { 3 }),
                                          (extreme_alphabet(), extreme_queries(), if thorough { 3 } else { 2 })].into_iter().enumerate() {
    let maps = subsets(&alpha, maxk);
    for keys in &maps {
        let mut m = HashMap::new();
        for (i, k) in keys.iter().enumerate() {
            m.insert(k.clone(), stored(i, round).0);
        }
        let mv = Value::Map(Map { map: Arc::new(m) });
        let spec = CtxSpec { vars: vec![("m".into(), mv)], funs: vec![] };
        let lit = format!(
            "{{{}}}",
            keys.iter().enumerate().map(|(i, k)| format!("{}: {}", key_src(k), stored(i, round).1)).collect::<Vec<_>>().join(", ")
        );
        // the literal denotes exactly the entries written
        emit_program(em, &lit, &CtxSpec::default(), "nt=1;kind=map-literal");
        emit_program(em, &format!("{} == m", lit), &spec, "nt=1;kind=map-literal-eq");
        emit_program(em, "size(m)", &spec, "nt=0;kind=map-size");
        for q in &queries {
            let absent = !keys.contains(q);
            let twin = match q {
                Key::Int(i) if *i >= 0 => keys.contains(&Key::Uint(*i as u64)),
                Key::Uint(u) if *u <= i64::MAX as u64 => keys.contains(&Key::Int(*u as i64)),
                _ => false,
            };
            let tags = format!("nt={};kind=presence", (absent || twin) as u8);
            let k = key_src(q);
            for form in [format!("{} in m", k), format!("m.contains({})", k), format!("m[{}]", k),
                         format!("{} in {}", k, lit), format!("{}[{}]", lit, k)] {
                emit_program(em, &form, &spec, &tags);
            }
            if let Key::String(s) = q {
                if is_ident(s) {
                    emit_program(em, &format!("m.{}", s), &spec, &tags);
                    emit_program(em, &format!("has(m.{})", s), &spec, &tags);
                    emit_program(em, &format!("has({}.{})", lit, s), &spec, &tags);
                }
            }
            let (keys2, q2) = (keys.clone(), q.clone());
            let law = guarded(move || presence_law(&keys2, &q2, round));
            em.case("(echo (bool true))", &law, &format!("nt={};kind=law-presence", (absent || twin) as u8),
                    &format!("presence of {} in {}", k, lit));
        }
    }
  }
    // non-key query types and field selection falling back to functions
    {
        let spec = CtxSpec { vars: vec![("m".into(), Value::Map(Map { map: Arc::new(HashMap::from([(ks("a"), Value::Int(1)), (ks("size"), Value::Int(2))])) }))], funs: vec![] };
        for p in ["1.5 in m", "null in m", "[1] in m", "m.contains(1.5)", "m[1.5]", "m[null]", "m.size", "m.contains", "m.zz",
                  "has(m.size)", "has(m.contains)", "{}.size", "{}.zz", "has({}.size)", "1.size", "has(1.size)", "'a'.zz"] {
            emit_program(em, p, &spec, "nt=1;kind=presence-odd");
        }
    }
    // lists: every index in -2..len+1 and the extremes
    for len in 0..=5usize {
        let l: Vec<Value> = (0..len).map(|i| Value::Int(100 + i as i64)).collect();
        let spec = CtxSpec { vars: vec![("l".into(), Value::List(Arc::new(l.clone())))], funs: vec![] };
        let lit = format!("[{}]", (0..len).map(|i| format!("{}", 100 + i)).collect::<Vec<_>>().join(", "));
        let mut idx: Vec<i64> = (-2..=(len as i64 + 1)).collect();
        idx.extend([i64::MAX, i64::MIN, i64::MAX - 1, 4294967296, -4294967296]);
        for i in idx {
            let oob = i < 0 || i >= len as i64;
            let tags = format!("nt={};kind=list-index", oob as u8);
            let is = if i < 0 { format!("({})", i) } else { format!("{}", i) };
            emit_program(em, &format!("l[{}]", is), &spec, &tags);
            emit_program(em, &format!("{}[{}]", lit, is), &spec, &tags);
        }
        for x in [100i64, 102, 999] {
            emit_program(em, &format!("{} in l", x), &spec, "nt=1;kind=in-list");
            emit_program(em, &format!("{}.0 in l", x), &spec, "nt=1;kind=in-list");
            emit_program(em, &format!("{}u in l", x), &spec, "nt=1;kind=in-list");
            emit_program(em, &format!("l.contains({})", x), &spec, "nt=1;kind=in-list");
        }
    }
    // membership across the kinds of numbers: lists of doubles, of uints, and mixed with values of
    // other kinds, searched for needles of every kind (x in l iff some element == x)
    {
        let lists: Vec<Vec<Value>> = vec![
            vec![Value::Float(1.0)], vec![Value::String(Arc::new("x".into())), Value::Float(2.0), Value::Bool(false)],
            vec![Value::UInt(1), Value::UInt(3)], vec![Value::Float(0.0)], vec![Value::Float(-0.0), Value::Float(f64::NAN)],
            vec![Value::Int(1), Value::Float(1.5), Value::UInt(2), Value::Null], vec![Value::List(Arc::new(vec![Value::Float(1.0)])), Value::Float(3.0)],
            vec![Value::Float(9007199254740993.0), Value::Int(9007199254740993), Value::UInt(18446744073709551615)],
            (0..40).map(|i| if i == 17 { Value::Float(17.0) } else { Value::Int(100 + i) }).collect(),
            (0..40).map(|i| Value::String(Arc::new(format!("s{}", i)))).collect(),
        ];
        for l in lists {
            let spec = CtxSpec { vars: vec![("l".into(), Value::List(Arc::new(l)))], funs: vec![] };
            for x in ["1", "1u", "1.0", "2", "2u", "2.0", "3", "3u", "0", "0u", "-0.0", "17", "17u", "17.0", "117", "'x'", "'s9'", "'s40'", "false", "null",
                      "[1]", "[1.0]", "[1u]", "9007199254740993", "9007199254740992", "9007199254740992.0", "18446744073709551615u", "double('NaN')"] {
                emit_program(em, &format!("{} in l", x), &spec, "nt=1;kind=in-list-kinds");
                emit_program(em, &format!("l.contains({})", x), &spec, "nt=1;kind=in-list-kinds");
                emit_program(em, &format!("contains(l, {})", x), &spec, "nt=1;kind=in-list-kinds");
                emit_program(em, &format!("l.exists(e, e == {}) == ({} in l)", x, x), &spec, "nt=1;kind=in-list-kinds");
            }
        }
    }
    // strings: indexing by byte offset
    for s in ["", "abc", "héllo", "😀x", "a😀"] {
        let spec = CtxSpec { vars: vec![("s".into(), Value::String(Arc::new(s.to_string())))], funs: vec![] };
        for i in -1..=(s.len() as i64 + 1) {
            let is = if i < 0 { format!("({})", i) } else { format!("{}", i) };
            emit_program(em, &format!("s[{}]", is), &spec, "nt=1;kind=str-index");
        }
        emit_program(em, "s[9223372036854775807]", &spec, "nt=1;kind=str-index");
        emit_program(em, "s[-9223372036854775808]", &spec, "nt=1;kind=str-index");
    }
    // lengths around the sizes at which buffers or small-size shortcuts change
    for &n in &[15usize, 16, 17, 31, 32, 33, 63, 64, 65, 127, 128, 129, 255, 256, 257, 1023, 1024, 1025] {
        let l: Vec<Value> = (0..n).map(|i| Value::Int(i as i64)).collect();
        let st: String = (0..n).map(|i| if i % 7 == 3 { 'é' } else { (b'a' + (i % 26) as u8) as char }).collect();
        let spec = CtxSpec {
            vars: vec![("l".into(), Value::List(Arc::new(l))), ("s".into(), Value::String(Arc::new(st.clone()))),
                       ("k".into(), Value::Int(n as i64))],
            funs: vec![],
        };
        for p in ["l[0]", "l[k - 1]", "l[k]", "l[k / 2]", "size(l)", "(k - 1) in l", "k in l", "l + l", "size(l + [1]) == k + 1",
                  "(l + [k])[k]", "[0] + l", "l.contains(k - 1)", "size(s)", "s + s", "s + 'é'", "'é' + s", "size(s + s) == 2 * size(s)",
                  "s.contains('é')", "s.startsWith(s)", "s.endsWith(s)", "(s + 'x').endsWith('x')", "('x' + s).startsWith('x')",
                  "s == s + ''", "l == l + []", "l + [1] == l", "s + 'a' == s"] {
            emit_program(em, p, &spec, "nt=1;kind=threshold");
        }
    }
    // additive laws on random strings and lists (the operands stay intact: re-read after +)
    let mut rng = Rng::new(seed ^ 0xC14);
    let alpha_s = ["a", "b", "é", "😀", " ", "0"];
    for _ in 0..(if thorough { 100_000 } else { 4_000 }) {
        let mk_s = |rng: &mut Rng| -> String { (0..rng.below(6)).map(|_| *rng.pick(&alpha_s)).collect() };
        let mk_l = |rng: &mut Rng| -> Vec<Value> { (0..rng.below(6)).map(|_| Value::Int(rng.range(0, 9))).collect() };
        let (a, b) = (mk_s(&mut rng), mk_s(&mut rng));
        let (la, lb) = (mk_l(&mut rng), mk_l(&mut rng));
        let spec = CtxSpec {
            vars: vec![
                ("a".into(), Value::String(Arc::new(a))), ("b".into(), Value::String(Arc::new(b))),
                ("la".into(), Value::List(Arc::new(la))), ("lb".into(), Value::List(Arc::new(lb))),
            ],
            funs: vec![],
        };
        emit_program(em, "[a + b, size(a + b) == size(a) + size(b), a, b]", &spec, "nt=1;kind=additive-str");
        emit_program(em, "[la + lb, size(la + lb) == size(la) + size(lb), la, lb, (la + lb) + la]", &spec, "nt=1;kind=additive-list");
        // every ownership combination: shared context buffers, fresh literals and temporaries on
        // either side, of different lengths; order of the elements / characters is what is compared
        fn cat(rng: &mut Rng, depth: u32, list: bool) -> String {
            if depth == 0 || rng.chance(1, 3) {
                return if list {
                    match rng.below(4) {
                        0 => "la".to_string(),
                        1 => "lb".to_string(),
                        _ => format!("[{}]", (0..rng.below(6)).map(|_| format!("{}", rng.range(0, 9))).collect::<Vec<_>>().join(", ")),
                    }
                } else {
                    match rng.below(4) {
                        0 => "a".to_string(),
                        1 => "b".to_string(),
                        _ => format!("'{}'", (0..rng.below(6)).map(|_| *rng.pick(&["x", "y", "é", "0"])).collect::<String>()),
                    }
                };
            }
            let l = cat(rng, depth - 1, list);
            let r = cat(rng, depth - 1, list);
            if rng.chance(1, 2) { format!("{} + ({})", l, r) } else { format!("({}) + {}", l, r) }
        }
        for list in [true, false] {
            let e = cat(&mut rng, 3, list);
            let (x, y) = if list { ("la", "lb") } else { ("a", "b") };
            emit_program(em, &format!("[{}, {}, {}]", e, x, y), &spec, if list { "nt=1;kind=additive-list-own" } else { "nt=1;kind=additive-str-own" });
        }
    }
}
