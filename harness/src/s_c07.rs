//! C07: every operand evaluated at most once, left to right.  Every leaf and every call is
//! wrapped by a logging host function carrying a unique id, so the ordered log shows both the
//! order and the multiplicity of evaluation; nested chains expose exponential blow-up.
use crate::ctxgen::*;
use crate::prog::*;
use crate::rng::Rng;
use crate::Emit;
use cel_interpreter::Value;
use std::sync::Arc;

fn spec() -> CtxSpec {
    CtxSpec {
        vars: vec![
            ("l".into(), Value::List(Arc::new(vec![Value::Int(1), Value::Int(2), Value::Int(3)]))),
            ("s".into(), Value::String(Arc::new("abc".into()))),
            ("i".into(), Value::Int(4)),
            ("mm".into(), nested_map()),
        ],
        funs: vec![
            HostFn { kind: "hv2b", name: "tag".into() },   // tag(id, x) = x, logged
            HostFn { kind: "h0", name: "z0".into() },
            HostFn { kind: "hv1", name: "f1".into() },
            HostFn { kind: "hv2", name: "f2".into() },
            HostFn { kind: "hv3", name: "f3".into() },
            HostFn { kind: "hv4", name: "f4".into() },
            HostFn { kind: "hthis_v", name: "m1".into() },
            HostFn { kind: "hthis_vv", name: "m2".into() },
            HostFn { kind: "hthis", name: "m0".into() },
            HostFn { kind: "hargs", name: "va".into() },
            HostFn { kind: "hfail1", name: "boom".into() },
            // names that begin like the internal operator names ("_+_", "_[_]", ...)
            HostFn { kind: "hv1", name: "_f1".into() },
            HostFn { kind: "hv2", name: "_f2".into() },
            HostFn { kind: "hv3", name: "_f3".into() },
            HostFn { kind: "hthis_v", name: "_m1".into() },
            HostFn { kind: "hv_this", name: "r1".into() },
            // ... and names that end like them, or look like nothing but underscores
            HostFn { kind: "hv1", name: "f1_".into() },
            HostFn { kind: "hv2", name: "f2_".into() },
            HostFn { kind: "hv1", name: "_g1_".into() },
            HostFn { kind: "hv1", name: "not_".into() },
            HostFn { kind: "hv2", name: "in_".into() },
            HostFn { kind: "hthis_v", name: "m1_".into() },
            HostFn { kind: "hv1", name: "__".into() },
            // host functions registered under the very names the operators carry in the tree
            HostFn { kind: "hv1", name: "-_".into() },
            HostFn { kind: "hv1", name: "!_".into() },
            HostFn { kind: "hv2", name: "_+_".into() },
            HostFn { kind: "hv2", name: "_[_]".into() },
            HostFn { kind: "hv2", name: "@in".into() },
            HostFn { kind: "hv2", name: "_==_".into() },
            HostFn { kind: "hv2", name: "_&&_".into() },
            HostFn { kind: "hv3", name: "_?_:_".into() },
            // the all-arguments extractor next to another extractor (known finding K02: an argument
            // the other extractor has resolved is resolved again)
            HostFn { kind: "hthis_args", name: "ta".into() },
            HostFn { kind: "hv_args", name: "pa".into() },
            HostFn { kind: "hargs_v", name: "ap".into() },
        ],
    }
}

/// {'a': {'b': {'c': 1}}, 'k': 2}
fn nested_map() -> Value {
    use cel_interpreter::objects::{Key, Map};
    use std::collections::HashMap;
    let ks = |s: &str| Key::String(Arc::new(s.to_string()));
    let c = Value::Map(Map { map: Arc::new(HashMap::from([(ks("c"), Value::Int(1))])) });
    let b = Value::Map(Map { map: Arc::new(HashMap::from([(ks("b"), c)])) });
    Value::Map(Map { map: Arc::new(HashMap::from([(ks("a"), b), (ks("k"), Value::Int(2))])) })
}

struct G<'a> {
    rng: &'a mut Rng,
    id: u32,
}

impl<'a> G<'a> {
    fn tag(&mut self, e: String) -> String {
        self.id += 1;
        format!("tag({}, {})", self.id, e)
    }
    fn leaf(&mut self) -> String {
        let l = match self.rng.below(7) {
            0 => "1".to_string(),
            1 => "i".to_string(),
            2 => "'x'".to_string(),
            3 => "l".to_string(),
            4 => "true".to_string(),
            5 => "2u".to_string(),
            _ => "s".to_string(),
        };
        self.tag(l)
    }
    fn expr(&mut self, depth: u32) -> String {
        if depth == 0 || self.rng.chance(1, 7) {
            return self.leaf();
        }
        let d = depth - 1;
        let e = match self.rng.below(24) {
            22 => {
                // membership in a list literal: hit (some element is the needle's leaf) or miss
                let n = 1 + self.rng.below(4);
                let elems: Vec<String> = (0..n).map(|_| self.expr(d)).collect();
                format!("({} in [{}])", self.expr(d), elems.join(", "))
            }
            23 => {
                let k = self.leaf();
                format!("({} in {{{}: {}, {}: {}}})", k, self.leaf(), self.expr(d), self.leaf(), self.expr(d))
            }
            19 => {
                let f = *self.rng.pick(&["f1_", "_g1_", "not_", "__"]);
                format!("{}({})", f, self.expr(d))
            }
            20 => {
                if self.rng.chance(1, 2) {
                    format!("{}({}, {})", *self.rng.pick(&["f2_", "in_"]), self.expr(d), self.expr(d))
                } else {
                    format!("({}).m1_({})", self.expr(d), self.expr(d))
                }
            }
            21 => {
                // field selections and presence tests over a receiver that is itself logged
                let path = *self.rng.pick(&[".a", ".a.b", ".a.b.c", ".k", ".a.x", ".a.b.x", ".a.b.c.d", ".zz.y"]);
                let recv = self.tag("mm".to_string());
                if self.rng.chance(1, 2) { format!("has({}{})", recv, path) } else { format!("{}{}", recv, path) }
            }
            16 => {
                let f = *self.rng.pick(&["_f1", "_f2", "_f3"]);
                let n = f.as_bytes()[2] - b'0';
                let args: Vec<String> = (0..n).map(|_| self.expr(d)).collect();
                format!("{}({})", f, args.join(", "))
            }
            17 => format!("({})._m1({})", self.expr(d), self.expr(d)),
            18 => {
                if self.rng.chance(1, 2) {
                    format!("r1({}, {})", self.expr(d), self.expr(d))
                } else {
                    format!("({}).r1({})", self.expr(d), self.expr(d))
                }
            }
            0 => format!("({} + {})", self.expr(d), self.expr(d)),
            1 => format!("({} == {})", self.expr(d), self.expr(d)),
            2 => format!("({} && {})", self.expr(d), self.expr(d)),
            3 => format!("({} ? {} : {})", self.expr(d), self.expr(d), self.expr(d)),
            4 => format!("[{}, {}, {}]", self.expr(d), self.expr(d), self.expr(d)),
            5 => format!("{{{}: {}, {}: {}}}", self.leaf(), self.expr(d), self.leaf(), self.expr(d)),
            6 => "z0()".to_string(),
            7 => format!("f1({})", self.expr(d)),
            8 => format!("f2({}, {})", self.expr(d), self.expr(d)),
            9 => format!("f3({}, {}, {})", self.expr(d), self.expr(d), self.expr(d)),
            10 => format!("f4({}, {}, {}, {})", self.expr(d), self.expr(d), self.expr(d), self.expr(d)),
            11 => format!("({}).m1({})", self.expr(d), self.expr(d)),
            12 => format!("({}).m2({}, {})", self.expr(d), self.expr(d), self.expr(d)),
            13 => match self.rng.below(5) {
                0 => format!("size({})", self.expr(d)),
                1 => format!("({}).contains({})", self.expr(d), self.expr(d)),
                2 => format!("string({})", self.expr(d)),
                3 => format!("max({}, {})", self.expr(d), self.expr(d)),
                _ => format!("({}).startsWith({})", self.expr(d), self.expr(d)),
            },
            14 => format!("va({}, {}, {})", self.expr(d), self.expr(d), self.expr(d)),
            _ => {
                let b = self.expr(d.min(2));
                format!("l.map(x, [x, {}])", b)
            }
        };
        if self.rng.chance(1, 2) {
            self.tag(e)
        } else {
            e
        }
    }
}

/// The property itself on the implementation's log: in a program without macros every logging
/// leaf `tag(id, ..)` carries its own id, so no id may occur twice in the log.
fn once_law(src: &str, sp: &CtxSpec) -> Option<String> {
    if [".map(", ".filter(", ".all(", ".exists(", ".exists_one(", ".existsOne("].iter().any(|m| src.contains(m)) {
        return None;
    }
    let (_, imp) = run_program(src, sp);
    let pat = "(call (str 116 97 103) (int ";
    let mut ids: Vec<&str> = imp.match_indices(pat).map(|(i, _)| {
        let rest = &imp[i + pat.len()..];
        &rest[..rest.find(')').unwrap_or(0)]
    }).collect();
    ids.sort();
    let dup: Vec<&str> = ids.windows(2).filter(|w| w[0] == w[1]).map(|w| w[0]).collect();
    Some(if dup.is_empty() { "(bool true)".to_string() } else { format!("(law-violated evaluated-more-than-once tag-ids {})", dup.join(",")) })
}

fn emit_with_law(em: &mut Emit, src: &str, sp: &CtxSpec, tags: &str) {
    emit_program(em, src, sp, tags);
    if let Some(law) = once_law(src, sp) {
        em.case("(echo (bool true))", &law, "nt=1;kind=law-once", src);
    }
}

pub fn run(em: &mut Emit, thorough: bool, seed: u64) {
    let sp = spec();
    // corpus: the call shapes whose first argument used to be evaluated twice
    for p in ["f1(tag(1, 1))", "tag(1, 1).m1(tag(2, 2))", "f2(tag(1, 1), tag(2, 2))", "tag(1, l).m0()", "size(tag(1, l))",
              "tag(1, s).contains(tag(2, 'b'))", "f1(f1(f1(f1(tag(1, 1)))))", "boom(tag(1, 1))", "f2(boom(tag(1, 1)), tag(2, 2))",
              "tag(1, s).m2(tag(2, 1), tag(3, 2))", "f3(tag(1, 1), tag(2, 2))", "f1()", "f1(tag(1, 1), tag(2, 2))",
              "va(tag(1, 1), boom(tag(2, 2)), tag(3, 3))", "z0(tag(1, 1))", "[tag(1, 1), tag(2, 2)][tag(3, 0)]",
              "{tag(1, 'k'): tag(2, 1)}[tag(3, 'k')]", "tag(1, l).map(x, tag(2, x))", "tag(1, l).filter(x, tag(2, x) > tag(3, 1))",
              "_f2(tag(1, 1), tag(2, 2))", "_f1(tag(1, 1))", "_f3(tag(1, 1), tag(2, 2), tag(3, 3))", "tag(1, 1)._m1(tag(2, 2))",
              "_f2(_f2(_f2(tag(1, 1), tag(2, 2)), tag(3, 3)), tag(4, 4))", "r1(tag(1, 1), tag(2, 2))", "tag(1, 1).r1(tag(2, 2))",
              "f1_(tag(1, 1))", "not_(tag(1, 1))", "__(tag(1, 1))", "_g1_(_g1_(_g1_(tag(1, 1))))", "f2_(tag(1, 1), tag(2, 2))",
              "in_(tag(1, 1), tag(2, 2))", "tag(1, 1).m1_(tag(2, 2))", "tag(1, 1).f1_()", "f1_(f1_(f1_(f1_(f1_(tag(1, 1))))))",
              "has(tag(1, mm).a)", "has(tag(1, mm).a.b)", "has(tag(1, mm).a.b.c)", "has(tag(1, mm).a.x.y)", "tag(1, mm).a.b.c",
              "l.map(x, has(tag(x, mm).a.b.c))", "has(tag(1, mm).a.b.c.d)", "has({'p': tag(1, mm)}.p.a.b)",
              "tag(1, 5) in [tag(2, 1), tag(3, 2), tag(4, 3)]", "tag(1, 2) in [tag(2, 1), tag(3, 2), tag(4, 3)]", "tag(1, 1) in []",
              "tag(0, 1) in [tag(1, 2) in [tag(2, 3) in [tag(3, 4) in [tag(4, 5) in [tag(5, 6) in [tag(6, 7)]]]]]]",
              "tag(1, 'k') in {tag(2, 'a'): tag(3, 1), tag(4, 'b'): tag(5, 2)}", "tag(1, 9) in l", "tag(1, 2) in tag(2, l)",
              "tag(1, 1).ta(tag(2, 2), tag(3, 3))", "tag(1, 1).ta()", "ta(tag(1, 1), tag(2, 2), tag(3, 3))", "ta(tag(1, 1))",
              // operators over operands they do not support, with host functions registered under the operators' own names
              "-tag(1, 5u)", "-tag(1, 's')", "-(-(-(-(-tag(1, 5u)))))", "!tag(1, 5)", "!tag(1, 's')", "-tag(1, l)", "[-tag(1, 5u), tag(2, 2)]",
              "tag(1, 's') + tag(2, 1)", "tag(1, 1)[tag(2, 0)]", "tag(1, 1) in tag(2, 2)", "tag(1, l) == tag(2, 's')", "tag(1, 's') && tag(2, l)",
              "tag(1, 's') ? tag(2, 1) : tag(3, 2)", "l.map(x, -tag(x, 5u))", "-tag(1, 5)", "-tag(1, 2.5)", "!tag(1, true)",
              "pa(tag(1, 1), tag(2, 2))", "tag(1, 1).pa(tag(2, 2))", "ap(tag(1, 1), tag(2, 2))", "ap(tag(1, 1))", "pa(tag(1, 1))", "ta()", "pa()"] {
        emit_with_law(em, p, &sp, "nt=1;kind=corpus");
    }
    // nested chains: the log length is the depth (it was 2^depth)
    let maxd = if thorough { 22 } else { 14 };
    for f in ["f1", "string", "size", "int"] {
        for d in 1..=maxd {
            let mut e = "tag(0, 1)".to_string();
            for _ in 0..d {
                e = format!("{}({})", f, e);
            }
            emit_program(em, &e, &sp, "nt=1;kind=chain");
            let mut e = "tag(0, i)".to_string();
            for _ in 0..d {
                e = format!("({}).m0()", e);
            }
            emit_program(em, &e, &sp, "nt=1;kind=chain-recv");
        }
    }
    let mut rng = Rng::new(seed ^ 0xC07);
    let n = if thorough { 300_000 } else { 15_000 };
    for _ in 0..n {
        let mut g = G { rng: &mut rng, id: 0 };
        let d = 1 + g.rng.below(if thorough { 7 } else { 5 }) as u32;
        let src = g.expr(d);
        let nt = src.matches("f1(").count() + src.matches("f2(").count() + src.matches(".m1(").count() + src.matches("size(").count() > 0;
        emit_with_law(em, &src, &sp, &format!("nt={};kind=rnd", nt as u8));
    }
}
