//! Program generators: a typed grammar (well-typed by construction over a generated context)
//! and an untyped one (any operator on any operand).  Programs are produced as source text,
//! fully parenthesised, so the real parser is part of every case.
use crate::ctxgen::*;
use crate::rng::Rng;
use cel_interpreter::objects::{Key, Map};
use cel_interpreter::Value;
use std::collections::HashMap;
use std::sync::Arc;

#[derive(Clone, Debug, PartialEq)]
pub enum Ty {
    Int,
    Uint,
    Dbl,
    Bool,
    Str,
    Bytes,
    Null,
    List(Box<Ty>),
    Map(Box<Ty>, Box<Ty>),
    Dur,
    Ts,
}

pub const I_BOUND: &[i64] = &[
    0, 1, -1, 2, -2, 3, 7, 10, -10, 100, 255, 256, 65536, 2147483647, -2147483648, 4294967296,
    9007199254740992, 9007199254740993, -9007199254740993, 3037000500, i64::MAX, i64::MAX - 1,
    i64::MIN, i64::MIN + 1,
];
pub const U_BOUND: &[u64] = &[
    0, 1, 2, 3, 7, 10, 255, 4294967296, 9007199254740993, 9223372036854775807,
    9223372036854775808, u64::MAX, u64::MAX - 1,
];
pub const D_BOUND: &[f64] = &[
    0.0, -0.0, 1.0, -1.0, 0.5, 1.5, -2.5, 2.0, 3.0, 1e10, 9007199254740992.0, 9007199254740994.0,
    9223372036854775808.0, -9223372036854775808.0, 18446744073709551616.0, 1e300, -1e300, 5e-324,
    2.2250738585072014e-308, 0.1, 1e-7,
];
pub const S_ALPHA: &[&str] = &["a", "b", "c", "é", "0", " ", "😀", "ab"];

pub fn lit_i(v: i64) -> String {
    if v < 0 {
        format!("({})", v)
    } else {
        format!("{}", v)
    }
}
pub fn lit_d(v: f64) -> String {
    let s = format!("{:?}", v);
    if v.is_sign_negative() {
        format!("({})", s)
    } else {
        s
    }
}
pub fn lit_s(s: &str) -> String {
    format!("'{}'", s)
}
pub fn lit_b(b: &[u8]) -> String {
    let mut o = String::from("b'");
    for x in b {
        o.push_str(&format!("\\x{:02x}", x));
    }
    o.push('\'');
    o
}

pub struct Gen<'a> {
    pub rng: &'a mut Rng,
    pub vars: Vec<(String, Ty)>,
    /// host functions callable with one value argument, returning that argument's type
    pub idfns: Vec<String>,
    /// probability (in percent) that a leaf is wrapped by an identity host function
    pub wrap_pct: u64,
    /// allow error-prone constructs (division, overflow-prone boundary literals)
    pub boundary_pct: u64,
    pub macros: bool,
}

impl<'a> Gen<'a> {
    fn vars_of(&self, ty: &Ty) -> Vec<String> {
        self.vars
            .iter()
            .filter(|(n, t)| t == ty && !n.starts_with('\u{0}'))
            .map(|(n, _)| n.clone())
            .collect()
    }

    pub fn rand_str(&mut self) -> String {
        let n = self.rng.below(4);
        let mut s = String::new();
        for _ in 0..n {
            s.push_str(*self.rng.pick(S_ALPHA));
        }
        s
    }

    pub fn literal(&mut self, ty: &Ty) -> String {
        match ty {
            Ty::Int => {
                let v = if self.rng.chance(self.boundary_pct, 100) {
                    *self.rng.pick(I_BOUND)
                } else {
                    self.rng.range(-5, 12)
                };
                lit_i(v)
            }
            Ty::Uint => {
                let v = if self.rng.chance(self.boundary_pct, 100) {
                    *self.rng.pick(U_BOUND)
                } else {
                    self.rng.below(12)
                };
                format!("{}u", v)
            }
            Ty::Dbl => {
                let v = if self.rng.chance(self.boundary_pct, 100) {
                    *self.rng.pick(D_BOUND)
                } else {
                    (self.rng.range(-8, 16) as f64) / 2.0
                };
                lit_d(v)
            }
            Ty::Bool => (if self.rng.chance(1, 2) { "true" } else { "false" }).to_string(),
            Ty::Str => {
                let s = self.rand_str();
                lit_s(&s)
            }
            Ty::Bytes => {
                let n = self.rng.below(4);
                let b: Vec<u8> = (0..n)
                    .map(|_| *self.rng.pick(&[0u8, 1, 97, 98, 127, 128, 255]))
                    .collect();
                lit_b(&b)
            }
            Ty::Null => "null".to_string(),
            Ty::List(t) => {
                let n = self.rng.below(4);
                let xs: Vec<String> = (0..n).map(|_| self.literal(t)).collect();
                format!("[{}]", xs.join(", "))
            }
            Ty::Map(k, v) => {
                let n = self.rng.below(3);
                let xs: Vec<String> = (0..n)
                    .map(|_| format!("{}: {}", self.literal(k), self.literal(v)))
                    .collect();
                format!("{{{}}}", xs.join(", "))
            }
            Ty::Dur | Ty::Ts => "null".to_string(),
        }
    }

    fn leaf(&mut self, ty: &Ty) -> String {
        let vs = self.vars_of(ty);
        let base = if !vs.is_empty() && self.rng.chance(1, 2) {
            self.rng.pick(&vs).clone()
        } else if matches!(ty, Ty::Dur | Ty::Ts) {
            if vs.is_empty() {
                return "null".into();
            }
            self.rng.pick(&vs).clone()
        } else {
            self.literal(ty)
        };
        self.wrap(base)
    }

    fn wrap(&mut self, e: String) -> String {
        if !self.idfns.is_empty() && self.rng.chance(self.wrap_pct, 100) {
            let f = self.rng.pick(&self.idfns).clone();
            format!("{}({})", f, e)
        } else {
            e
        }
    }

    pub fn rand_ty(&mut self, depth: u32) -> Ty {
        let k = self.rng.below(if depth > 0 { 9 } else { 7 });
        match k {
            0 => Ty::Int,
            1 => Ty::Uint,
            2 => Ty::Dbl,
            3 => Ty::Bool,
            4 => Ty::Str,
            5 => Ty::Bytes,
            6 => Ty::Null,
            7 => Ty::List(Box::new(self.rand_ty(depth - 1))),
            _ => {
                let kt = match self.rng.below(4) {
                    0 => Ty::Int,
                    1 => Ty::Uint,
                    2 => Ty::Bool,
                    _ => Ty::Str,
                };
                Ty::Map(Box::new(kt), Box::new(self.rand_ty(depth - 1)))
            }
        }
    }

    fn scalar_ty(&mut self) -> Ty {
        match self.rng.below(5) {
            0 => Ty::Int,
            1 => Ty::Uint,
            2 => Ty::Dbl,
            3 => Ty::Str,
            _ => Ty::Bool,
        }
    }

    fn fresh_var(&mut self) -> String {
        // iteration variables deliberately collide with context names sometimes
        let pool = ["x", "y", "z", "vi0", "vl0"];
        self.rng.pick(&pool).to_string()
    }

    fn with_var<T, F: FnOnce(&mut Self) -> T>(&mut self, name: &str, ty: Ty, f: F) -> T {
        self.vars.push((name.to_string(), ty));
        // shadow: remove older binding of the same name while inside
        let idx = self.vars.len() - 1;
        let older: Vec<usize> = (0..idx).filter(|&i| self.vars[i].0 == name).collect();
        let saved: Vec<(usize, (String, Ty))> =
            older.iter().map(|&i| (i, self.vars[i].clone())).collect();
        for &i in &older {
            self.vars[i].0 = format!("\u{0}{}", name);
        }
        let r = f(self);
        for (i, v) in saved {
            self.vars[i] = v;
        }
        self.vars.pop();
        r
    }

    /// A well-typed expression of type `ty`.
    pub fn typed(&mut self, ty: &Ty, depth: u32) -> String {
        if depth == 0 || self.rng.chance(1, 8) {
            return self.leaf(ty);
        }
        let d = depth - 1;
        // constructs available at every type
        let generic = self.rng.below(10);
        if generic == 0 {
            let c = self.typed(&Ty::Bool, d);
            let a = self.typed(ty, d);
            let b = self.typed(ty, d);
            return format!("({} ? {} : {})", c, a, b);
        }
        if generic == 1 {
            // list index / map index yielding ty
            if self.rng.chance(1, 2) {
                let l = self.typed(&Ty::List(Box::new(ty.clone())), d);
                let i = self.typed(&Ty::Int, d.min(1));
                return format!("({})[{}]", l, i);
            } else {
                let kt = if self.rng.chance(1, 2) { Ty::Int } else { Ty::Str };
                let m = self.typed(&Ty::Map(Box::new(kt.clone()), Box::new(ty.clone())), d);
                let k = self.typed(&kt, d.min(1));
                return format!("({})[{}]", m, k);
            }
        }
        let e = match ty {
            Ty::Int => match self.rng.below(10) {
                0..=4 => {
                    let op = *self.rng.pick(&["+", "-", "*", "/", "%"]);
                    let a = self.typed(&Ty::Int, d);
                    let b = self.typed(&Ty::Int, d);
                    format!("({} {} {})", a, op, b)
                }
                5 => format!("(-{})", self.typed(&Ty::Int, d)),
                6 => {
                    let t = match self.rng.below(4) {
                        0 => Ty::Str,
                        1 => Ty::Bytes,
                        2 => Ty::List(Box::new(self.scalar_ty())),
                        _ => Ty::Map(Box::new(Ty::Str), Box::new(Ty::Int)),
                    };
                    let x = self.typed(&t, d);
                    if self.rng.chance(1, 2) {
                        format!("size({})", x)
                    } else {
                        format!("({}).size()", x)
                    }
                }
                7 => {
                    let t = match self.rng.below(3) {
                        0 => Ty::Uint,
                        1 => Ty::Dbl,
                        _ => Ty::Int,
                    };
                    format!("int({})", self.typed(&t, d))
                }
                8 => {
                    let a = self.typed(&Ty::Int, d);
                    let b = self.typed(&Ty::Int, d);
                    let f = if self.rng.chance(1, 2) { "max" } else { "min" };
                    format!("{}({}, {})", f, a, b)
                }
                _ => {
                    let l = self.typed(&Ty::List(Box::new(Ty::Int)), d);
                    let f = if self.rng.chance(1, 2) { "max" } else { "min" };
                    format!("{}({} + [1])", f, l)
                }
            },
            Ty::Uint => match self.rng.below(7) {
                0..=4 => {
                    let op = *self.rng.pick(&["+", "-", "*", "/", "%"]);
                    let a = self.typed(&Ty::Uint, d);
                    let b = self.typed(&Ty::Uint, d);
                    format!("({} {} {})", a, op, b)
                }
                _ => {
                    let t = match self.rng.below(3) {
                        0 => Ty::Int,
                        1 => Ty::Dbl,
                        _ => Ty::Uint,
                    };
                    format!("uint({})", self.typed(&t, d))
                }
            },
            Ty::Dbl => match self.rng.below(7) {
                0..=3 => {
                    let op = *self.rng.pick(&["+", "-", "*", "/"]);
                    let a = self.typed(&Ty::Dbl, d);
                    let b = self.typed(&Ty::Dbl, d);
                    format!("({} {} {})", a, op, b)
                }
                4 => format!("(-{})", self.typed(&Ty::Dbl, d)),
                _ => {
                    let t = match self.rng.below(3) {
                        0 => Ty::Int,
                        1 => Ty::Uint,
                        _ => Ty::Dbl,
                    };
                    format!("double({})", self.typed(&t, d))
                }
            },
            Ty::Bool => match self.rng.below(14) {
                0 | 1 => {
                    let op = if self.rng.chance(1, 2) { "&&" } else { "||" };
                    let a = self.typed(&Ty::Bool, d);
                    let b = self.typed(&Ty::Bool, d);
                    format!("({} {} {})", a, op, b)
                }
                2 => format!("(!{})", self.typed(&Ty::Bool, d)),
                3 | 4 | 5 => {
                    // relation on one numeric/comparable type, or across numeric types
                    let op = *self.rng.pick(&["==", "!=", "<", "<=", ">", ">="]);
                    let (t1, t2) = if self.rng.chance(1, 3) {
                        let n = [Ty::Int, Ty::Uint, Ty::Dbl];
                        (self.rng.pick(&n).clone(), self.rng.pick(&n).clone())
                    } else {
                        let t = self.scalar_ty();
                        (t.clone(), t)
                    };
                    let a = self.typed(&t1, d);
                    let b = self.typed(&t2, d);
                    format!("({} {} {})", a, op, b)
                }
                6 => {
                    // equality on containers / null
                    let t = self.rand_ty(1);
                    let op = if self.rng.chance(1, 2) { "==" } else { "!=" };
                    let a = self.typed(&t, d);
                    let b = self.typed(&t, d);
                    format!("({} {} {})", a, op, b)
                }
                7 => {
                    let t = self.scalar_ty();
                    let x = self.typed(&t, d);
                    let l = self.typed(&Ty::List(Box::new(t)), d);
                    format!("({} in {})", x, l)
                }
                8 => {
                    let kt = if self.rng.chance(1, 2) { Ty::Int } else { Ty::Str };
                    let k = self.typed(&kt, d);
                    let vt = self.scalar_ty();
                    let m = self.typed(&Ty::Map(Box::new(kt), Box::new(vt)), d);
                    if self.rng.chance(1, 2) {
                        format!("({} in {})", k, m)
                    } else {
                        format!("({}).contains({})", m, k)
                    }
                }
                9 => {
                    let a = self.typed(&Ty::Str, d);
                    let b = self.typed(&Ty::Str, d);
                    match self.rng.below(4) {
                        0 => format!("({}).startsWith({})", a, b),
                        1 => format!("({}).endsWith({})", a, b),
                        2 => format!("({}).contains({})", a, b),
                        _ => format!("({} in {})", a, b),
                    }
                }
                10 if self.macros => {
                    let t = self.scalar_ty();
                    let l = self.range_expr(&t, d);
                    let v = self.fresh_var();
                    let m = *self.rng.pick(&["all", "exists", "exists_one", "existsOne"]);
                    let body = self.with_var(&v, t, |g| g.typed(&Ty::Bool, d));
                    format!("({}).{}({}, {})", l, m, v, body)
                }
                11 => {
                    // has() on a map with string keys
                    let vt = self.scalar_ty();
                    let m = self.typed(&Ty::Map(Box::new(Ty::Str), Box::new(vt)), d);
                    let f = *self.rng.pick(&["a", "b", "c", "ab", "zz"]);
                    format!("has(({}).{})", m, f)
                }
                12 => {
                    let t = self.scalar_ty();
                    let l = self.typed(&Ty::List(Box::new(t.clone())), d);
                    let x = self.typed(&t, d);
                    format!("({}).contains({})", l, x)
                }
                _ => {
                    let a = self.typed(&Ty::Bytes, d);
                    let b = self.typed(&Ty::Bytes, d);
                    format!("({}).contains({})", a, b)
                }
            },
            Ty::Str => match self.rng.below(5) {
                0 | 1 => {
                    let a = self.typed(&Ty::Str, d);
                    let b = self.typed(&Ty::Str, d);
                    format!("({} + {})", a, b)
                }
                2 => {
                    let t = if self.rng.chance(1, 2) { Ty::Int } else { Ty::Uint };
                    format!("string({})", self.typed(&t, d))
                }
                3 => format!("string({})", self.typed(&Ty::Str, d)),
                _ => {
                    let s = self.typed(&Ty::Str, d);
                    let i = self.typed(&Ty::Int, d.min(1));
                    // a string index yields a string or null; keep typing by concatenating
                    // only when it is a string
                    format!("(({})[{}] == null ? '' : ({})[0])", s, i, "'q'")
                }
            },
            Ty::Bytes => format!("bytes({})", self.typed(&Ty::Str, d)),
            Ty::Null => self.leaf(ty),
            Ty::List(t) => match self.rng.below(6) {
                0 => {
                    let n = self.rng.below(4);
                    let xs: Vec<String> = (0..n).map(|_| self.typed(t, d)).collect();
                    format!("[{}]", xs.join(", "))
                }
                1 | 2 => {
                    let a = self.typed(ty, d);
                    let b = self.typed(ty, d);
                    format!("({} + {})", a, b)
                }
                3 if self.macros => {
                    let l = self.range_expr(t, d);
                    let v = self.fresh_var();
                    let body = self.with_var(&v, (**t).clone(), |g| g.typed(&Ty::Bool, d));
                    format!("({}).filter({}, {})", l, v, body)
                }
                4 if self.macros => {
                    let st = self.scalar_ty();
                    let l = self.range_expr(&st, d);
                    let v = self.fresh_var();
                    let tt = (**t).clone();
                    if self.rng.chance(1, 3) {
                        let (flt, body) = self.with_var(&v, st, |g| {
                            let f = g.typed(&Ty::Bool, d);
                            let b = g.typed(&tt, d);
                            (f, b)
                        });
                        format!("({}).map({}, {}, {})", l, v, flt, body)
                    } else {
                        let body = self.with_var(&v, st, |g| g.typed(&tt, d));
                        format!("({}).map({}, {})", l, v, body)
                    }
                }
                _ => self.leaf(ty),
            },
            Ty::Map(k, v) => {
                let n = self.rng.below(3);
                let xs: Vec<String> = (0..n)
                    .map(|_| {
                        let kk = self.typed(k, d.min(1));
                        let vv = self.typed(v, d);
                        format!("{}: {}", kk, vv)
                    })
                    .collect();
                format!("{{{}}}", xs.join(", "))
            }
            Ty::Dur | Ty::Ts => self.leaf(ty),
        };
        self.wrap(e)
    }

    /// A macro range of element type `t`: a list expression, or (for key types) a context map
    /// variable / a map literal with at most one entry (iteration order of larger program-built
    /// maps is the HashMap's and is not predicted by the model).
    fn range_expr(&mut self, t: &Ty, d: u32) -> String {
        if matches!(t, Ty::Int | Ty::Uint | Ty::Str | Ty::Bool) && self.rng.chance(1, 4) {
            let cands: Vec<String> = self
                .vars
                .iter()
                .filter(|(n, ty)| !n.starts_with('\u{0}') && matches!(ty, Ty::Map(k, _) if **k == *t))
                .map(|(n, _)| n.clone())
                .collect();
            if !cands.is_empty() {
                return self.rng.pick(&cands).clone();
            }
            let k = self.literal(t);
            return format!("{{{}: 1}}", k);
        }
        self.typed(&Ty::List(Box::new(t.clone())), d)
    }

    /// Any operator on any operands (mostly ill-typed).
    pub fn untyped(&mut self, depth: u32) -> String {
        if depth == 0 || self.rng.chance(1, 6) {
            let t = self.rand_ty(1);
            // any variable or a literal
            if !self.vars.is_empty() && self.rng.chance(1, 2) {
                let v = self.rng.pick(&self.vars).0.clone();
                if !v.starts_with('\u{0}') {
                    return self.wrap(v);
                }
            }
            return self.leaf(&t);
        }
        let d = depth - 1;
        let k = self.rng.below(22);
        let e = match k {
            0..=5 => {
                let op = *self.rng.pick(&[
                    "+", "-", "*", "/", "%", "==", "!=", "<", "<=", ">", ">=", "in", "&&", "||",
                ]);
                format!("({} {} {})", self.untyped(d), op, self.untyped(d))
            }
            6 => format!("(!{})", self.untyped(d)),
            7 => format!("(-{})", self.untyped(d)),
            8 => format!("({} ? {} : {})", self.untyped(d), self.untyped(d), self.untyped(d)),
            9 => format!("({})[{}]", self.untyped(d), self.untyped(d)),
            10 => {
                let f = *self.rng.pick(&["a", "b", "size", "zz", "contains"]);
                if self.rng.chance(1, 2) {
                    format!("has(({}).{})", self.untyped(d), f)
                } else {
                    format!("({}).{}", self.untyped(d), f)
                }
            }
            11 => {
                let n = self.rng.below(4);
                let xs: Vec<String> = (0..n).map(|_| self.untyped(d)).collect();
                format!("[{}]", xs.join(", "))
            }
            12 => {
                let n = self.rng.below(3);
                let xs: Vec<String> = (0..n)
                    .map(|_| format!("{}: {}", self.untyped(d.min(1)), self.untyped(d)))
                    .collect();
                format!("{{{}}}", xs.join(", "))
            }
            13..=16 => {
                // built-in or host function, global or receiver style, 0-3 arguments
                let names = [
                    "size", "contains", "max", "min", "startsWith", "endsWith", "string", "bytes",
                    "double", "int", "uint", "matches",
                ];
                let mut f = self.rng.pick(&names).to_string();
                if !self.idfns.is_empty() && self.rng.chance(1, 3) {
                    f = self.rng.pick(&self.idfns).clone();
                }
                let n = self.rng.below(4);
                let mut args: Vec<String> = (0..n).map(|_| self.untyped(d)).collect();
                if f == "matches" {
                    // keep the pattern inside the modelled (metacharacter-free) class
                    if let Some(last) = args.last_mut() {
                        *last = "'a'".into();
                    }
                }
                if self.rng.chance(1, 2) {
                    format!("({}).{}({})", self.untyped(d), f, args.join(", "))
                } else {
                    format!("{}({})", f, args.join(", "))
                }
            }
            17..=19 if self.macros => {
                let m = *self.rng.pick(&["all", "exists", "exists_one", "map", "filter"]);
                let range = if self.rng.chance(3, 4) {
                    let t = self.scalar_ty();
                    self.typed(&Ty::List(Box::new(t)), d.min(2))
                } else {
                    self.untyped(d.min(1))
                };
                // avoid program-built maps with several entries as ranges
                let range = if range.contains(": ") && range.matches(": ").count() > 1 {
                    "[1, 2]".to_string()
                } else {
                    range
                };
                let v = self.fresh_var();
                let body = self.with_var(&v, Ty::Int, |g| g.untyped(d));
                if m == "map" && self.rng.chance(1, 3) {
                    let flt = self.with_var(&v, Ty::Int, |g| g.untyped(d.min(2)));
                    format!("({}).map({}, {}, {})", range, v, flt, body)
                } else {
                    format!("({}).{}({}, {})", range, m, v, body)
                }
            }
            20 => format!("T{{a: {}}}", self.untyped(d)),
            _ => {
                let t = self.rand_ty(1);
                self.leaf(&t)
            }
        };
        self.wrap(e)
    }
}

fn mk_map(entries: Vec<(Key, Value)>) -> Value {
    let mut m = HashMap::new();
    for (k, v) in entries {
        m.insert(k, v);
    }
    Value::Map(Map { map: Arc::new(m) })
}

fn s(x: &str) -> Value {
    Value::String(Arc::new(x.to_string()))
}

/// A context with variables of every kind at the extremes of their ranges.
pub fn extreme_ctx(rng: &mut Rng, with_time: bool) -> (CtxSpec, Vec<(String, Ty)>) {
    let mut vars: Vec<(String, Value)> = Vec::new();
    let mut tys: Vec<(String, Ty)> = Vec::new();
    let mut add = |n: &str, v: Value, t: Ty| {
        vars.push((n.to_string(), v));
        tys.push((n.to_string(), t));
    };
    add("vi0", Value::Int(*rng.pick(I_BOUND)), Ty::Int);
    add("vi1", Value::Int(rng.range(-3, 9)), Ty::Int);
    add("imax", Value::Int(i64::MAX), Ty::Int);
    add("imin", Value::Int(i64::MIN), Ty::Int);
    add("vu0", Value::UInt(*rng.pick(U_BOUND)), Ty::Uint);
    add("umax", Value::UInt(u64::MAX), Ty::Uint);
    add("vd0", Value::Float(*rng.pick(D_BOUND)), Ty::Dbl);
    add("nan", Value::Float(f64::NAN), Ty::Dbl);
    add("inf", Value::Float(f64::INFINITY), Ty::Dbl);
    add("ninf", Value::Float(f64::NEG_INFINITY), Ty::Dbl);
    add("vs0", s(*rng.pick(&["", "a", "héllo", "ab", "😀x", "abc"])), Ty::Str);
    add("vs1", s(""), Ty::Str);
    add("vb0", Value::Bytes(Arc::new(vec![0, 97, 255])), Ty::Bytes);
    add("vb1", Value::Bytes(Arc::new(vec![])), Ty::Bytes);
    add("vt", Value::Bool(true), Ty::Bool);
    add("vf", Value::Bool(false), Ty::Bool);
    add("vn", Value::Null, Ty::Null);
    add(
        "vl0",
        Value::List(Arc::new(vec![Value::Int(1), Value::Int(2), Value::Int(3)])),
        Ty::List(Box::new(Ty::Int)),
    );
    add("vl1", Value::List(Arc::new(vec![])), Ty::List(Box::new(Ty::Int)));
    add(
        "vl2",
        Value::List(Arc::new(vec![s("a"), s("b")])),
        Ty::List(Box::new(Ty::Str)),
    );
    add(
        "vl3",
        Value::List(Arc::new(vec![
            Value::Float(1.0),
            Value::Float(f64::NAN),
            Value::Float(-0.0),
        ])),
        Ty::List(Box::new(Ty::Dbl)),
    );
    add(
        "vm0",
        mk_map(vec![
            (Key::String(Arc::new("a".into())), Value::Int(1)),
            (Key::String(Arc::new("b".into())), Value::Int(2)),
            (Key::String(Arc::new("ab".into())), Value::Int(3)),
        ]),
        Ty::Map(Box::new(Ty::Str), Box::new(Ty::Int)),
    );
    add(
        "vm1",
        mk_map(vec![
            (Key::Int(1), s("one")),
            (Key::Int(-1), s("neg")),
            (Key::Int(i64::MAX), s("max")),
        ]),
        Ty::Map(Box::new(Ty::Int), Box::new(Ty::Str)),
    );
    add(
        "vm2",
        mk_map(vec![(Key::Uint(1), Value::Int(10)), (Key::Uint(u64::MAX), Value::Int(20))]),
        Ty::Map(Box::new(Ty::Uint), Box::new(Ty::Int)),
    );
    add("vm3", mk_map(vec![]), Ty::Map(Box::new(Ty::Str), Box::new(Ty::Int)));
    add(
        "vm4",
        mk_map(vec![(Key::Bool(true), Value::Int(1)), (Key::Bool(false), Value::Int(0))]),
        Ty::Map(Box::new(Ty::Bool), Box::new(Ty::Int)),
    );
    if with_time {
        let dmax = chrono::Duration::MAX;
        let dmin = chrono::Duration::MIN;
        add("dmax", Value::Duration(dmax), Ty::Dur);
        add("dmin", Value::Duration(dmin), Ty::Dur);
        add("d1s", Value::Duration(chrono::Duration::seconds(1)), Ty::Dur);
        add("dneg", Value::Duration(chrono::Duration::nanoseconds(-1500)), Ty::Dur);
        add("di64", Value::Duration(chrono::Duration::nanoseconds(i64::MAX)), Ty::Dur);
        let tmax = chrono::DateTime::<chrono::Utc>::MAX_UTC.fixed_offset();
        let tmin = chrono::DateTime::<chrono::Utc>::MIN_UTC.fixed_offset();
        add("tmax", Value::Timestamp(tmax), Ty::Ts);
        add("tmin", Value::Timestamp(tmin), Ty::Ts);
        // the limit instants at other offsets: local dates beyond the limit dates
        add("tminw", Value::Timestamp(tmin.with_timezone(&chrono::FixedOffset::east_opt(-3600).unwrap())), Ty::Ts);
        add("tmaxe", Value::Timestamp(tmax.with_timezone(&chrono::FixedOffset::east_opt(50400).unwrap())), Ty::Ts);
        let t0 = chrono::DateTime::parse_from_rfc3339("2024-02-29T23:59:59.5+05:30").unwrap();
        add("t0", Value::Timestamp(t0), Ty::Ts);
        let t1 = chrono::DateTime::parse_from_rfc3339("1970-01-01T00:00:00Z").unwrap();
        add("tepoch", Value::Timestamp(t1), Ty::Ts);
    }
    add(
        "vfn",
        Value::Function(Arc::new("size".into()), None),
        Ty::Null, // never picked by the typed grammar except as null-typed leaf
    );
    tys.pop();
    let spec = CtxSpec {
        vars,
        funs: vec![
            HostFn { kind: "hv1", name: "idf".into() },
            HostFn { kind: "hv2", name: "add2".into() },
            HostFn { kind: "hfail1", name: "boom".into() },
            HostFn { kind: "hthis_v", name: "second".into() },
            HostFn { kind: "hargs", name: "listof".into() },
            HostFn { kind: "h0", name: "seven".into() },
        ],
    };
    (spec, tys)
}
