//! Correspondence harness: drives the real cel-parser / cel-interpreter (path dependencies
//! on /repo, so every build uses the current working tree) and prints, per case, the
//! request line for the Gallina model and the implementation's own answer.
//!
//! usage: harness <stream> <tier> <seed>
//! output: one line per case: REQUEST \t IMPL-RESPONSE \t TAGS \t DISPLAY
mod ctxgen;
mod gen;
mod prog;
mod s_eval;
mod rng;
mod s_c01;
mod s_c02;
mod s_c03;
mod s_c04;
#[cfg(feature = "sync")]
mod s_c05;
mod s_c06;
mod s_c07;
mod s_c08;
mod s_c09;
mod s_c10;
mod s_c11;
mod s_c12;
mod s_c13;
mod s_c14;
mod s_c15;
mod s_c16;
mod s_c17;
mod s_c18;
mod sdata;
mod s_c19;
mod s_c20;
mod s_smoke;
mod wire;

use std::io::Write;
use std::panic;

pub struct Emit {
    out: std::io::BufWriter<std::io::Stdout>,
    pub n: u64,
}

impl Emit {
    pub fn case(&mut self, request: &str, imp: &str, tags: &str, display: &str) {
        let d: String = display
            .chars()
            .map(|c| if c == '\t' || c == '\n' || c == '\r' { ' ' } else { c })
            .collect();
        writeln!(self.out, "{}\t{}\t{}\t{}", request, imp, tags, d).unwrap();
        self.n += 1;
    }
}

/// Runs `f` and turns a panic into the wire outcome `(crash)`.
pub fn guarded<F: FnOnce() -> String + panic::UnwindSafe>(f: F) -> String {
    match panic::catch_unwind(f) {
        Ok(s) => s,
        Err(_) => "(crash)".to_string(),
    }
}

/// Map entries of a wire form sorted (results of two executions may iterate maps differently).
pub fn canon_local(s: &str) -> String {
    // cheap canonical form: the multiset of tokens is order-insensitive enough for maps whose
    // entries are printed in hash order; exact comparison is done by the checker against the model
    if !s.contains("(map") {
        return s.to_string();
    }
    let mut toks: Vec<&str> = s.split(' ').collect();
    toks.sort();
    toks.join(" ")
}

fn main() {
    let args: Vec<String> = std::env::args().collect();
    if args.len() < 4 {
        eprintln!("usage: harness <stream> <tier> <seed>");
        std::process::exit(2);
    }
    if std::env::var("HARNESS_PANIC").is_err() {
        panic::set_hook(Box::new(|_| {}));
    }
    let stream = args[1].as_str();
    let thorough = args[2] == "thorough";
    let seed: u64 = args[3].parse().unwrap_or(0);
    let mut em = Emit {
        out: std::io::BufWriter::new(std::io::stdout()),
        n: 0,
    };
    match stream {
        "C01" => s_c01::run(&mut em, thorough, seed),
        "C02" => s_c02::run(&mut em, thorough, seed),
        "C03" => s_c03::run(&mut em, thorough, seed),
        "C04" => s_c04::run(&mut em, thorough, seed),
        #[cfg(feature = "sync")]
        "C05" => s_c05::run(&mut em, thorough, seed),
        "C06" => s_c06::run(&mut em, thorough, seed),
        "C07" => s_c07::run(&mut em, thorough, seed),
        "C08" => s_c08::run(&mut em, thorough, seed),
        "C09" => s_c09::run(&mut em, thorough, seed),
        "C10" => s_c10::run(&mut em, thorough, seed),
        "C11" => s_c11::run(&mut em, thorough, seed),
        "C12" => s_c12::run(&mut em, thorough, seed),
        "C13" => s_c13::run(&mut em, thorough, seed),
        "C14" => s_c14::run(&mut em, thorough, seed),
        "C15" => s_c15::run(&mut em, thorough, seed),
        "C16" => s_c16::run(&mut em, thorough, seed),
        "C17" => s_c17::run(&mut em, thorough, seed),
        "C18" => s_c18::run(&mut em, thorough, seed),
        "C19" => s_c19::run(&mut em, thorough, seed),
        "C20" => s_c20::run(&mut em, thorough, seed),
        "smoke" => s_smoke::run(&mut em),
        "evalmix" => s_eval::run_profile(
            &mut em,
            seed,
            &s_eval::Profile {
                n: if thorough { 200_000 } else { 20_000 },
                depth: 6,
                typed_pct: 50,
                wrap_pct: 10,
                boundary_pct: 30,
                with_time: true,
                kind: "mix",
            },
        ),
        _ => {
            eprintln!("unknown stream {}", stream);
            std::process::exit(2);
        }
    }
    em.out.flush().unwrap();
}
