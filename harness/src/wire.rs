//! Wire form (S-expressions) of values, errors and expressions.  Walks the public enums
//! structurally; never uses Debug text.
use cel_interpreter::objects::{Key, Map};
use cel_interpreter::{ExecutionError, Value};
use cel_parser::ast::{EntryExpr, Expr, IdedExpr};
use cel_parser::reference::Val;
use std::fmt::Write;

pub fn str_cps(s: &str, out: &mut String) {
    for c in s.chars() {
        write!(out, " {}", c as u32).unwrap();
    }
}

pub fn sx_str(s: &str) -> String {
    let mut o = String::from("(str");
    str_cps(s, &mut o);
    o.push(')');
    o
}

pub fn sx_key(k: &Key) -> String {
    match k {
        Key::Int(i) => format!("(int {})", i),
        Key::Uint(u) => format!("(uint {})", u),
        Key::Bool(b) => format!("(bool {})", b),
        Key::String(s) => sx_str(s),
    }
}

pub fn sx_f64(f: f64) -> String {
    let bits = if f.is_nan() {
        0x7ff8000000000000u64
    } else {
        f.to_bits()
    };
    format!("(dbl {:016x})", bits)
}

/// Total nanoseconds of a chrono duration (exact, as i128).
pub fn dur_ns(d: &chrono::Duration) -> i128 {
    d.num_seconds() as i128 * 1_000_000_000 + d.subsec_nanos() as i128
}

pub fn ts_ns(t: &chrono::DateTime<chrono::FixedOffset>) -> i128 {
    t.timestamp() as i128 * 1_000_000_000 + t.timestamp_subsec_nanos() as i128
}

/// Map entries sorted by key text so that the wire form is canonical.
fn sorted_entries(m: &Map) -> Vec<(&Key, &Value)> {
    let mut v: Vec<(&Key, &Value)> = m.map.iter().collect();
    v.sort_by(|a, b| a.0.cmp(b.0));
    v
}

pub fn sx_value(v: &Value) -> String {
    let mut o = String::new();
    sx_value_into(v, &mut o, true);
    o
}

/// Like sx_value but maps keep the HashMap's iteration order (used when the order the
/// implementation iterates in must be told to the model).
pub fn sx_value_iter_order(v: &Value) -> String {
    let mut o = String::new();
    sx_value_into(v, &mut o, false);
    o
}

fn sx_value_into(v: &Value, o: &mut String, sort: bool) {
    match v {
        Value::List(l) => {
            o.push_str("(list");
            for x in l.iter() {
                o.push(' ');
                sx_value_into(x, o, sort);
            }
            o.push(')');
        }
        Value::Map(m) => {
            o.push_str("(map");
            let entries: Vec<(&Key, &Value)> = if sort {
                sorted_entries(m)
            } else {
                m.map.iter().collect()
            };
            for (k, x) in entries {
                o.push_str(" (");
                o.push_str(&sx_key(k));
                o.push(' ');
                sx_value_into(x, o, sort);
                o.push(')');
            }
            o.push(')');
        }
        Value::Function(name, recv) => {
            o.push_str("(fn ");
            o.push_str(&sx_str(name));
            if let Some(r) = recv {
                o.push(' ');
                sx_value_into(r, o, sort);
            }
            o.push(')');
        }
        Value::Int(i) => write!(o, "(int {})", i).unwrap(),
        Value::UInt(u) => write!(o, "(uint {})", u).unwrap(),
        Value::Float(f) => o.push_str(&sx_f64(*f)),
        Value::String(s) => o.push_str(&sx_str(s)),
        Value::Bytes(b) => {
            o.push_str("(bytes");
            for x in b.iter() {
                write!(o, " {}", x).unwrap();
            }
            o.push(')');
        }
        Value::Bool(b) => write!(o, "(bool {})", b).unwrap(),
        Value::Duration(d) => write!(o, "(dur {})", dur_ns(d)).unwrap(),
        Value::Timestamp(t) => write!(
            o,
            "(ts {} {})",
            ts_ns(t),
            t.offset().local_minus_utc()
        )
        .unwrap(),
        Value::Null => o.push_str("null"),
    }
}

pub fn sx_err(e: &ExecutionError) -> String {
    match e {
        ExecutionError::IntegerOverflow(..) => "overflow".into(),
        ExecutionError::DivisionByZero(..) | ExecutionError::RemainderByZero(..) => {
            "divzero".into()
        }
        ExecutionError::NoSuchKey(..) => "nokey".into(),
        ExecutionError::UndeclaredReference(n) => {
            let mut o = String::from("(undeclared");
            str_cps(n, &mut o);
            o.push(')');
            o
        }
        ExecutionError::InvalidArgumentCount { .. } | ExecutionError::MissingArgumentOrTarget => {
            "argcount".into()
        }
        _ => "invalid".into(),
    }
}

pub fn sx_result(r: &Result<Value, ExecutionError>) -> String {
    match r {
        Ok(v) => format!("(ok {})", sx_value(v)),
        Err(e) => format!("(err {})", sx_err(e)),
    }
}

pub fn sx_val(v: &Val) -> String {
    match v {
        Val::String(s) => sx_str(s),
        Val::Boolean(b) => format!("(bool {})", b),
        Val::Int(i) => format!("(int {})", i),
        Val::UInt(u) => format!("(uint {})", u),
        Val::Double(d) => sx_f64(*d),
        Val::Bytes(b) => {
            let mut o = String::from("(bytes");
            for x in b.iter() {
                write!(o, " {}", x).unwrap();
            }
            o.push(')');
            o
        }
        Val::Null => "null".into(),
    }
}

/// Structural dump of an expression, ids omitted.
pub fn sx_expr(e: &IdedExpr) -> String {
    let mut o = String::new();
    sx_expr_into(e, &mut o);
    o
}

fn sx_expr_into(e: &IdedExpr, o: &mut String) {
    match &e.expr {
        Expr::Unspecified => o.push_str("unspec"),
        Expr::Literal(v) => {
            o.push_str("(lit ");
            o.push_str(&sx_val(v));
            o.push(')');
        }
        Expr::Ident(n) => {
            o.push_str("(id");
            str_cps(n, o);
            o.push(')');
        }
        Expr::Call(c) => {
            o.push_str("(call ");
            o.push_str(&sx_str(&c.func_name));
            match &c.target {
                None => o.push_str(" none"),
                Some(t) => {
                    o.push_str(" (some ");
                    sx_expr_into(t, o);
                    o.push(')');
                }
            }
            for a in &c.args {
                o.push(' ');
                sx_expr_into(a, o);
            }
            o.push(')');
        }
        Expr::Select(s) => {
            o.push_str("(sel ");
            sx_expr_into(&s.operand, o);
            o.push(' ');
            o.push_str(&sx_str(&s.field));
            o.push_str(if s.test { " true)" } else { " false)" });
        }
        Expr::List(l) => {
            o.push_str("(list");
            for x in &l.elements {
                o.push(' ');
                sx_expr_into(x, o);
            }
            o.push(')');
        }
        Expr::Map(m) => {
            o.push_str("(map");
            for en in &m.entries {
                match &en.expr {
                    EntryExpr::MapEntry(me) => {
                        o.push_str(" (");
                        sx_expr_into(&me.key, o);
                        o.push(' ');
                        sx_expr_into(&me.value, o);
                        o.push(')');
                    }
                    EntryExpr::StructField(sf) => {
                        o.push_str(" (field ");
                        o.push_str(&sx_str(&sf.field));
                        o.push(' ');
                        sx_expr_into(&sf.value, o);
                        o.push(')');
                    }
                }
            }
            o.push(')');
        }
        Expr::Struct(s) => {
            o.push_str("(struct ");
            o.push_str(&sx_str(&s.type_name));
            for en in &s.entries {
                match &en.expr {
                    EntryExpr::StructField(sf) => {
                        o.push_str(" (");
                        o.push_str(&sx_str(&sf.field));
                        o.push(' ');
                        sx_expr_into(&sf.value, o);
                        o.push(')');
                    }
                    EntryExpr::MapEntry(me) => {
                        o.push_str(" (entry ");
                        sx_expr_into(&me.key, o);
                        o.push(' ');
                        sx_expr_into(&me.value, o);
                        o.push(')');
                    }
                }
            }
            o.push(')');
        }
        Expr::Comprehension(c) => {
            o.push_str("(comp ");
            sx_expr_into(&c.iter_range, o);
            o.push(' ');
            o.push_str(&sx_str(&c.iter_var));
            o.push(' ');
            o.push_str(&sx_str(&c.accu_var));
            for x in [&c.accu_init, &c.loop_cond, &c.loop_step, &c.result] {
                o.push(' ');
                sx_expr_into(x, o);
            }
            o.push(')');
        }
    }
}
