//! C19: reported references cover every name a program can look up.
use crate::ctxgen::*;
use crate::prog::*;
use crate::rng::Rng;
use crate::wire::*;
use crate::{guarded, Emit};
use cel_interpreter::{ExecutionError, Program, Value};
use std::sync::Arc;

const VARS: &[&str] = &["a", "b", "c", "foo", "bar_1", "_x", "size", "x", "__result__", "_result", "result", "__iter__", "accu", "_", "__"];
const FUNS: &[&str] = &["f", "g", "h", "size", "foo", "lookup"];

struct G<'a> {
    rng: &'a mut Rng,
}

impl<'a> G<'a> {
    fn var(&mut self) -> String {
        self.rng.pick(VARS).to_string()
    }
    fn fun(&mut self) -> String {
        self.rng.pick(FUNS).to_string()
    }
    /// A macro range: never a program-built map with several entries (the order in which such
    /// a map is iterated is the hash map's, which neither the property nor the model fixes).
    fn range(&mut self, d: u32) -> String {
        match self.rng.below(6) {
            0 | 1 => self.var(),
            2 => format!("[{}, {}]", self.expr(d), self.expr(d)),
            3 => format!("{{{}: {}}}", self.expr(d), self.expr(d)),
            4 if d > 0 => format!("({} ? {} : {})", self.expr(d - 1), self.range(d - 1), self.range(d - 1)),
            _ => format!("[{}]", self.expr(d)),
        }
    }
    fn expr(&mut self, d: u32) -> String {
        if d == 0 || self.rng.chance(1, 6) {
            return match self.rng.below(4) {
                0 => "1".into(),
                1 => "'s'".into(),
                // an identifier with a leading dot names the same variable
                2 if self.rng.chance(1, 3) => format!(".{}", self.var()),
                _ => self.var(),
            };
        }
        let d = d - 1;
        match self.rng.below(16) {
            0 => format!("({} + {})", self.expr(d), self.expr(d)),
            1 => format!("({} ? {} : {})", self.expr(d), self.expr(d), self.expr(d)),
            2 => format!("({} || {})", self.expr(d), self.expr(d)),
            3 => format!("{}{}({})", if self.rng.chance(1, 4) { "." } else { "" }, self.fun(), self.expr(d)),
            4 => format!("({}).{}({}, {})", self.expr(d), self.fun(), self.expr(d), self.expr(d)),
            5 => format!("({})[{}]", self.expr(d), self.expr(d)),
            6 => format!("{{{}: {}, {}: {}}}", self.expr(d), self.expr(d), self.expr(d), self.expr(d)),
            7 => format!("[{}, {}]", self.expr(d), self.expr(d)),
            8 => format!("T{{fld: {}, {}: {}}}", self.expr(d), self.var(), self.expr(d)),
            9 => format!("({}).{}.{}", self.expr(d), self.var(), self.var()),
            10 => {
                let v = self.var();
                let m = *self.rng.pick(&["all", "exists", "exists_one", "map", "filter"]);
                format!("({}).{}({}, {})", self.range(d), m, v, self.expr(d))
            }
            11 => {
                let v = self.var();
                format!("({}).map({}, {}, {})", self.range(d), v, self.expr(d), self.expr(d))
            }
            12 => format!("has(({}).{})", self.expr(d), self.var()),
            13 => format!("{}{}()", if self.rng.chance(1, 4) { "." } else { "" }, self.fun()),
            14 => format!("(-{})", self.expr(d)),
            _ => format!("({} in {})", self.expr(d), self.expr(d)),
        }
    }
}

fn refs_impl(src: &str) -> String {
    let s = src.to_string();
    guarded(move || match Program::compile(&s) {
        Err(_) => "(reject)".into(),
        Ok(p) => {
            let r = p.references();
            let mut vs: Vec<String> = r.variables().iter().map(|x| x.to_string()).collect();
            let mut fs: Vec<String> = r.functions().iter().map(|x| x.to_string()).collect();
            // code-point order, as the model sorts
            vs.sort_by(|a, b| a.chars().cmp(b.chars()));
            fs.sort_by(|a, b| a.chars().cmp(b.chars()));
            vs.dedup();
            fs.dedup();
            let f = |l: &Vec<String>| l.iter().map(|x| format!(" {}", sx_str(x))).collect::<String>();
            format!("(refs (vars{}) (funs{}) (closed true))", f(&vs), f(&fs))
        }
    })
}

pub fn run(em: &mut Emit, thorough: bool, seed: u64) {
    let mut rng = Rng::new(seed ^ 0xC19);
    for p in ["a", "f(a)", "a.f(b)", "a.b.c", "has(a.b)", "[a, b][c]", "{a: b}", "T{x: a}", "l.map(x, x + y)", "l.map(x, f(x), g(y))",
              "l.all(x, x.exists(y, y == z))", "a ? b : c", "!a", "-a", "a in b", "size", "size(size)", "[1].map(size, size(size))",
              "a.?b", "1", "'s'", "@in", "f()", "f(g(h(a)))", ".f(a)", ".a", ".f()", "[1].map(x, .g(x))", ".f(.a, .g(b))", "a.f(.b)", ".size(.size)",
              ".T{x: .a}", "has(.a.b)"] {
        em.case(&format!("(refs {})", sx_str(p)), &refs_impl(p), "nt=1;kind=refs-corpus", p);
    }
    let n = if thorough { 200_000 } else { 8_000 };
    for _ in 0..n {
        let d = 1 + rng.below(6) as u32;
        let src = { let mut g = G { rng: &mut rng }; g.expr(d) };
        em.case(&format!("(refs {})", sx_str(&src)), &refs_impl(&src), "nt=1;kind=refs", &src);
        // execute against contexts defining a random subset of the names
        for _ in 0..(if thorough { 4 } else { 2 }) {
            let mut vars: Vec<(String, Value)> = Vec::new();
            for v in VARS {
                if rng.chance(1, 2) {
                    let val = match rng.below(4) {
                        0 => Value::Int(1),
                        1 => Value::List(Arc::new(vec![Value::Int(1), Value::Int(2)])),
                        2 => Value::Bool(true),
                        _ => Value::String(Arc::new("s".into())),
                    };
                    vars.push((v.to_string(), val));
                }
            }
            let mut funs: Vec<HostFn> = Vec::new();
            for f in FUNS {
                if rng.chance(1, 2) {
                    funs.push(HostFn { kind: *rng.pick(&["hv1", "hargs", "hthis_v", "h0"]), name: f.to_string() });
                }
            }
            let spec = CtxSpec { vars, funs };
            let undefined = VARS.iter().any(|v| !spec.vars.iter().any(|(n, _)| n == v));
            emit_program(em, &src, &spec, &format!("nt={};kind=exec", undefined as u8));
            // the property on the implementation's own answers
            let (s2, sp2) = (src.clone(), spec.clone());
            let law = guarded(move || {
                let p = match Program::compile(&s2) { Ok(p) => p, Err(_) => return "(bool true)".into() };
                let ctx = sp2.build();
                let r = p.references();
                let res = p.execute(&ctx);
                let mut bad = Vec::new();
                if let Err(ExecutionError::UndeclaredReference(n)) = &res {
                    if !r.has_variable(n.as_str()) && !r.has_function(n.as_str()) {
                        bad.push(format!("undeclared-name-not-reported {}", n));
                    }
                }
                for v in r.variables() {
                    if v.starts_with('@') {
                        bad.push("accumulator-reported".to_string());
                    }
                    if !s2.contains(v) {
                        bad.push(format!("reported-variable-not-in-source {}", v));
                    }
                }
                if bad.is_empty() { "(bool true)".into() } else { format!("(law-violated {})", bad.join("; ")) }
            });
            em.case("(echo (bool true))", &law, "nt=1;kind=law-refs", &format!("{} [{}]", src, spec.describe()));
        }
        // completeness: define everything reported
        let (s3,) = (src.clone(),);
        let law2 = guarded(move || {
            let p = match Program::compile(&s3) { Ok(p) => p, Err(_) => return "(bool true)".into() };
            let r = p.references();
            let mut ctx = cel_interpreter::Context::default();
            for v in r.variables() {
                ctx.add_variable_from_value(v, Value::List(Arc::new(vec![Value::Int(1)])));
            }
            for f in r.functions() {
                if !f.starts_with('_') && !f.starts_with('@') && !f.starts_with('!') && !f.starts_with('-') {
                    register(&mut ctx, &HostFn { kind: "hargs", name: f.to_string() });
                }
            }
            match p.execute(&ctx) {
                Err(ExecutionError::UndeclaredReference(n)) => format!("(law-violated undeclared-although-all-reported-defined {})", n),
                _ => "(bool true)".into(),
            }
        });
        em.case("(echo (bool true))", &law2, "nt=1;kind=law-complete", &src);
    }
}
