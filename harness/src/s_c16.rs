//! C16: timestamps keep the instant and calendar fields they were given.
use crate::ctxgen::*;
use crate::prog::*;
use crate::rng::Rng;
use crate::wire::*;
use crate::{guarded, Emit};
use cel_interpreter::{Program, Value};
use std::sync::Arc;

/// civil -> days since the epoch, independent of chrono (Hinnant)
fn days_from_civil(y: i64, m: i64, d: i64) -> i64 {
    let y = if m <= 2 { y - 1 } else { y };
    let era = y.div_euclid(400);
    let yoe = y - era * 400;
    let mp = if m > 2 { m - 3 } else { m + 9 };
    let doy = (153 * mp + 2) / 5 + d - 1;
    let doe = yoe * 365 + yoe / 4 - yoe / 100 + doy;
    era * 146097 + doe - 719468
}
fn is_leap(y: i64) -> bool {
    (y % 4 == 0 && y % 100 != 0) || y % 400 == 0
}
fn dim(y: i64, m: i64) -> i64 {
    match m {
        2 => if is_leap(y) { 29 } else { 28 },
        4 | 6 | 9 | 11 => 30,
        _ => 31,
    }
}

const ACCESSORS: &[&str] = &["getFullYear", "getMonth", "getDayOfYear", "getDayOfMonth", "getDate", "getDayOfWeek", "getHours",
    "getMinutes", "getSeconds", "getMilliseconds"];

fn one(em: &mut Emit, y: i64, mo: i64, d: i64, h: i64, mi: i64, s: i64, nanos: i64, off: i64, kind: &str) {
    let sign = if off < 0 { '-' } else { '+' };
    let ao = off.abs();
    let frac = if nanos == 0 { String::new() } else { format!(".{:09}", nanos) };
    let text = format!("{:04}-{:02}-{:02}T{:02}:{:02}:{:02}{}{}{:02}:{:02}", y, mo, d, h, mi, s, frac, sign, ao / 3600, (ao % 3600) / 60);
    let t = match chrono::DateTime::parse_from_rfc3339(&text) {
        Ok(t) => t,
        Err(_) => return,
    };
    let local_date_differs = {
        let local = (h * 3600 + mi * 60 + s) - off;
        local < 0 || local >= 86400
    };
    let nt = (off != 0 || local_date_differs || d == 1 || d == dim(y, mo)) as u8;
    let spec = CtxSpec { vars: vec![("t".into(), Value::Timestamp(t)), ("s".into(), Value::String(Arc::new(text.clone())))], funs: vec![] };
    let tags = format!("nt={};kind={}", nt, kind);
    for a in ACCESSORS {
        emit_program(em, &format!("t.{}()", a), &spec, &tags);
    }
    for p in ["string(t)", "timestamp(string(t)) == t", "timestamp(s) == t", "timestamp(s)", "timestamp(string(t))", "t == t", "t < t"] {
        emit_program(em, p, &spec, &tags);
    }
    // the fields are those written, by an independent calendar computation
    let law = guarded(move || {
        let ctx = CtxSpec { vars: vec![("t".into(), Value::Timestamp(t))], funs: vec![] }.build();
        let get = |a: &str| match Program::compile(&format!("t.{}()", a)).unwrap().execute(&ctx) { Ok(Value::Int(i)) => i, _ => i64::MIN };
        let mut bad = Vec::new();
        let want = [("getFullYear", y), ("getMonth", mo - 1), ("getDayOfMonth", d - 1), ("getDate", d),
                    ("getDayOfYear", days_from_civil(y, mo, d) - days_from_civil(y, 1, 1)),
                    ("getDayOfWeek", (days_from_civil(y, mo, d) + 4).rem_euclid(7)), ("getHours", h), ("getMinutes", mi),
                    ("getSeconds", s), ("getMilliseconds", nanos / 1_000_000)];
        for (a, w) in want {
            let g = get(a);
            if g != w {
                bad.push(format!("{}={} want {}", a, g, w));
            }
        }
        match Program::compile("timestamp(string(t)) == t").unwrap().execute(&ctx) {
            Ok(Value::Bool(true)) => {}
            o => bad.push(format!("roundtrip {:?}", o.map(|v| sx_value(&v)))),
        }
        // instant as computed independently
        let inst = (days_from_civil(y, mo, d) * 86400 + h * 3600 + mi * 60 + s - off) as i128 * 1_000_000_000 + nanos as i128;
        if ts_ns(&t) != inst {
            bad.push(format!("instant {} want {}", ts_ns(&t), inst));
        }
        if bad.is_empty() { "(bool true)".into() } else { format!("(law-violated {})", bad.join("; ")) }
    });
    em.case("(echo (bool true))", &law, &format!("nt={};kind=law-{}", nt, kind), &text);
}

fn arith(em: &mut Emit, t: chrono::DateTime<chrono::FixedOffset>, d: chrono::Duration, u: chrono::DateTime<chrono::FixedOffset>, kind: &str) {
    let spec = CtxSpec { vars: vec![("t".into(), Value::Timestamp(t)), ("d".into(), Value::Duration(d)), ("u".into(), Value::Timestamp(u))], funs: vec![] };
    for p in ["t + d", "d + t", "t - d", "t + d - d == t", "(t + d) - t == d", "t - u", "t < u", "t == u", "t >= u", "u - t + t == u"] {
        emit_program(em, p, &spec, &format!("nt=1;kind={}", kind));
    }
    let law = guarded(move || {
        let ctx = CtxSpec { vars: vec![("t".into(), Value::Timestamp(t)), ("d".into(), Value::Duration(d)), ("u".into(), Value::Timestamp(u))], funs: vec![] }.build();
        let run = |s: &str| Program::compile(s).unwrap().execute(&ctx);
        let mut bad = Vec::new();
        match run("t + d") {
            Ok(Value::Timestamp(r)) => {
                if ts_ns(&r) != ts_ns(&t) + dur_ns(&d) { bad.push("t + d instant".to_string()); }
                if run("t + d - d == t") != Ok(Value::Bool(true)) { bad.push("t + d - d != t".into()); }
                if dur_ns(&d) >= i64::MIN as i128 && dur_ns(&d) <= i64::MAX as i128 && run("(t + d) - t == d") != Ok(Value::Bool(true)) {
                    bad.push("(t + d) - t != d".into());
                }
            }
            Ok(o) => bad.push(format!("t + d gave {}", sx_value(&o))),
            Err(_) => {}
        }
        match run("t < u") {
            Ok(Value::Bool(b)) if b == (ts_ns(&t) < ts_ns(&u)) => {}
            o => bad.push(format!("t < u {:?}", o.map(|v| sx_value(&v)))),
        }
        match run("t == u") {
            Ok(Value::Bool(b)) if b == (ts_ns(&t) == ts_ns(&u)) => {}
            o => bad.push(format!("t == u {:?}", o.map(|v| sx_value(&v)))),
        }
        if bad.is_empty() { "(bool true)".into() } else { format!("(law-violated {})", bad.join("; ")) }
    });
    em.case("(echo (bool true))", &law, &format!("nt=1;kind=law-{}", kind), &format!("t={} d={} u={}", t.to_rfc3339(), dur_ns(&d), u.to_rfc3339()));
}

pub fn run(em: &mut Emit, thorough: bool, seed: u64) {
    let years = [1i64, 4, 100, 400, 1582, 1600, 1899, 1900, 1969, 1970, 1999, 2000, 2001, 2023, 2024, 2038, 2100, 9999];
    let offsets: Vec<i64> = if thorough {
        (-12..=14).map(|h| h * 3600).chain([5 * 3600 + 1800, -(9 * 3600 + 1800), 23 * 3600 + 59 * 60, -(23 * 3600 + 59 * 60)]).collect()
    } else {
        vec![0, 3600, -12 * 3600, 14 * 3600, 5 * 3600 + 1800, -(9 * 3600 + 1800), 23 * 3600 + 59 * 60, -(23 * 3600 + 59 * 60)]
    };
    for y in years {
        for mo in 1..=12 {
            for d in [1, dim(y, mo)] {
                for (h, mi, s, n) in [(0, 0, 0, 0), (23, 59, 59, 999_999_999), (12, 30, 15, 123_000_000)] {
                    for off in &offsets {
                        if !thorough && (mo % 3 != 1) && *off != 0 && (y % 7 != 0) {
                            continue;
                        }
                        one(em, y, mo, d, h, mi, s, n, *off, "bnd");
                    }
                }
            }
        }
    }
    // spellings of the same instant, and malformed texts
    for s in ["1970-01-01T00:00:00Z", "1970-01-01t00:00:00z", "1970-01-01 00:00:00Z", "1970-01-01T00:00:00+00:00", "1970-01-01T00:00:00-00:00",
              "1970-01-01T01:00:00+01:00", "1970-01-01T00:00:00.0Z", "1970-01-01T00:00:00.123456789123Z", "1970-01-01T00:00:00.Z",
              "1970-01-01T00:00:00", "1970-01-01", "1970-1-1T00:00:00Z", "70-01-01T00:00:00Z", "1970-02-30T00:00:00Z", "1970-13-01T00:00:00Z",
              "1970-01-01T24:00:00Z", "1970-01-01T00:60:00Z", "1970-01-01T00:00:61Z", "1970-01-01T00:00:00+24:00", "1970-01-01T00:00:00+0100",
              "1970-01-01T00:00:00+01", "2024-02-29T00:00:00Z", "2023-02-29T00:00:00Z", "2100-02-29T00:00:00Z", "2000-02-29T00:00:00Z",
              "0000-01-01T00:00:00Z", "0001-01-01T00:00:00Z", "9999-12-31T23:59:59.999999999Z", "10000-01-01T00:00:00Z", "", "junk",
              "1970-01-01T00:00:00Zjunk", " 1970-01-01T00:00:00Z", "1970-01-01T00:00:00 Z", "1970-01-01T00:00:00.5+05:30"] {
        let spec = CtxSpec { vars: vec![("s".into(), Value::String(Arc::new(s.to_string())))], funs: vec![] };
        emit_program(em, "timestamp(s)", &spec, "nt=1;kind=text");
        emit_program(em, "string(timestamp(s))", &spec, "nt=1;kind=text");
    }
    let mut rng = Rng::new(seed ^ 0xC16);
    let n = if thorough { 100_000 } else { 3_000 };
    for _ in 0..n {
        let y = rng.range(1, 9999);
        let mo = rng.range(1, 12);
        let d = rng.range(1, dim(y, mo));
        let off = rng.range(-23 * 60 - 59, 23 * 60 + 59) * 60;
        one(em, y, mo, d, rng.range(0, 23), rng.range(0, 59), rng.range(0, 59), if rng.chance(1, 2) { rng.range(0, 999_999_999) } else { 0 }, off, "rnd");
        let mk = |rng: &mut Rng| {
            let secs = rng.range(-62_135_596_800, 253_402_300_799);
            let off = rng.range(-14 * 60, 14 * 60) * 60;
            chrono::DateTime::from_timestamp(secs, rng.range(0, 999_999_999) as u32).unwrap().with_timezone(&chrono::FixedOffset::east_opt(off as i32).unwrap())
        };
        let t = mk(&mut rng);
        let u = mk(&mut rng);
        let dn = rng.log_i64();
        arith(em, t, chrono::Duration::nanoseconds(dn), u, "arith-rnd");
    }
    // arithmetic at chrono's limits
    let tmax = chrono::DateTime::<chrono::Utc>::MAX_UTC.fixed_offset();
    let tmin = chrono::DateTime::<chrono::Utc>::MIN_UTC.fixed_offset();
    let t0 = chrono::DateTime::parse_from_rfc3339("2000-01-01T00:00:00+02:00").unwrap();
    // the limit instants seen from other offsets: the local date then lies beyond the limit date
    let off = |t: chrono::DateTime<chrono::FixedOffset>, o: i32| t.with_timezone(&chrono::FixedOffset::east_opt(o).unwrap());
    let mut limits = vec![tmax, tmin, t0];
    for o in [-86399, -50400, -3600, -60, -1, 1, 60, 3600, 50400, 86399] {
        limits.push(off(tmin, o));
        limits.push(off(tmax, o));
    }
    for t in limits.iter().copied() {
        for d in [chrono::Duration::nanoseconds(1), chrono::Duration::nanoseconds(-1), chrono::Duration::nanoseconds(i64::MAX),
                  chrono::Duration::nanoseconds(i64::MIN + 1), chrono::Duration::MAX, chrono::Duration::MIN, chrono::Duration::zero()] {
            for u in [tmax, tmin, t0, off(tmin, -3600), off(tmax, 3600)] {
                arith(em, t, d, u, "arith-limits");
            }
        }
        let spec = CtxSpec { vars: vec![("t".into(), Value::Timestamp(t))], funs: vec![] };
        for a in ACCESSORS {
            emit_program(em, &format!("t.{}()", a), &spec, "nt=1;kind=limits-accessor");
        }
        emit_program(em, "string(t)", &spec, "nt=1;kind=limits-accessor");
    }
}
