//! C09: equality and ordering.  All pairs (and triples) of a boundary value set through
//! Value::eq / partial_cmp directly, through the six relations, `in`, max and min; the laws
//! are additionally evaluated on the implementation's own answers.
use crate::ctxgen::*;
use crate::prog::*;
use crate::rng::Rng;
use crate::wire::*;
use crate::{guarded, Emit};
use cel_interpreter::objects::{Key, Map};
use cel_interpreter::Value;
use std::cmp::Ordering;
use std::collections::HashMap;
use std::sync::Arc;

fn s(x: &str) -> Value {
    Value::String(Arc::new(x.to_string()))
}
fn list(v: Vec<Value>) -> Value {
    Value::List(Arc::new(v))
}
fn map(entries: Vec<(Key, Value)>) -> Value {
    let mut m = HashMap::new();
    for (k, v) in entries {
        m.insert(k, v);
    }
    Value::Map(Map { map: Arc::new(m) })
}

pub fn value_set() -> Vec<Value> {
    let p53 = 9007199254740992i64;
    let mut v = vec![
        Value::Int(0), Value::Int(1), Value::Int(-1), Value::Int(2), Value::Int(p53), Value::Int(p53 + 1),
        Value::Int(p53 - 1), Value::Int(-p53 - 1), Value::Int(-p53), Value::Int(i64::MAX), Value::Int(i64::MAX - 1),
        Value::Int(i64::MIN), Value::Int(i64::MIN + 1),
        Value::UInt(0), Value::UInt(1), Value::UInt(2), Value::UInt(p53 as u64), Value::UInt(p53 as u64 + 1),
        Value::UInt(i64::MAX as u64), Value::UInt(i64::MAX as u64 + 1), Value::UInt(u64::MAX), Value::UInt(u64::MAX - 1),
        Value::Float(0.0), Value::Float(-0.0), Value::Float(1.0), Value::Float(-1.0), Value::Float(2.0),
        Value::Float(0.5), Value::Float(1.5), Value::Float(p53 as f64), Value::Float(p53 as f64 + 2.0),
        Value::Float(-(p53 as f64)), Value::Float(9223372036854775808.0), Value::Float(-9223372036854775808.0),
        Value::Float(9223372036854774784.0), Value::Float(18446744073709551616.0),
        Value::Float(18446744073709549568.0), Value::Float(f64::NAN), Value::Float(f64::INFINITY),
        Value::Float(f64::NEG_INFINITY), Value::Float(1e300), Value::Float(5e-324), Value::Float(-5e-324),
        s(""), s("a"), s("b"), s("ab"), s("aa"), s("é"), s("z"), s("😀"), s("\u{ffff}"), s("A"),
        Value::Bool(true), Value::Bool(false), Value::Null,
        Value::Bytes(Arc::new(vec![])), Value::Bytes(Arc::new(vec![97])), Value::Bytes(Arc::new(vec![97, 0])),
        list(vec![]), list(vec![Value::Int(1)]), list(vec![Value::Float(1.0)]), list(vec![Value::UInt(1)]),
        list(vec![Value::Float(f64::NAN)]), list(vec![Value::Int(1), Value::Int(2)]),
        list(vec![Value::Int(2), Value::Int(1)]), list(vec![list(vec![Value::Int(1)])]), list(vec![Value::Null]),
        map(vec![]), map(vec![(Key::Int(1), Value::Int(1))]), map(vec![(Key::Uint(1), Value::Int(1))]),
        map(vec![(Key::Int(1), Value::Float(1.0))]), map(vec![(Key::String(Arc::new("a".into())), Value::Int(1))]),
        map(vec![(Key::Int(1), Value::Int(1)), (Key::Int(2), Value::Int(2))]),
        map(vec![(Key::Bool(true), Value::Float(f64::NAN))]),
        Value::Duration(chrono::Duration::zero()), Value::Duration(chrono::Duration::nanoseconds(1)),
        Value::Duration(chrono::Duration::nanoseconds(-1)), Value::Duration(chrono::Duration::MAX),
        Value::Duration(chrono::Duration::MIN),
        Value::Function(Arc::new("size".into()), None),
        Value::Function(Arc::new("size".into()), Some(Box::new(Value::Int(1)))),
        Value::Function(Arc::new("max".into()), None),
    ];
    for t in [
        "1970-01-01T00:00:00Z",
        "1970-01-01T01:00:00+01:00",
        "1970-01-01T00:00:00.000000001Z",
        "1969-12-31T23:59:59.999999999Z",
        "9999-12-31T23:59:59.999999999-12:00",
        "0001-01-01T00:00:00+14:00",
    ] {
        v.push(Value::Timestamp(chrono::DateTime::parse_from_rfc3339(t).unwrap()));
    }
    v
}

fn sx_ord(o: Option<Ordering>) -> &'static str {
    match o {
        None => "none",
        Some(Ordering::Less) => "lt",
        Some(Ordering::Equal) => "eq",
        Some(Ordering::Greater) => "gt",
    }
}

fn special(v: &Value) -> bool {
    match v {
        Value::Float(f) => f.is_nan() || f.is_infinite() || *f == 0.0 || f.abs() > 9007199254740992.0,
        Value::Int(i) => i.unsigned_abs() > 9007199254740992,
        Value::UInt(u) => *u > 9007199254740992,
        _ => false,
    }
}
fn numeric(v: &Value) -> bool {
    matches!(v, Value::Int(_) | Value::UInt(_) | Value::Float(_))
}

fn nt(a: &Value, b: &Value) -> bool {
    (numeric(a) && numeric(b) && std::mem::discriminant(a) != std::mem::discriminant(b))
        || special(a)
        || special(b)
}

fn direct_pair(em: &mut Emit, a: &Value, b: &Value) {
    let (a2, b2) = (a.clone(), b.clone());
    let eq = guarded(move || format!("(ok (bool {}))", a2 == b2));
    let (a2, b2) = (a.clone(), b.clone());
    let cmp = guarded(move || sx_ord(a2.partial_cmp(&b2)).to_string());
    let tags = format!("nt={};kind=direct", nt(a, b) as u8);
    let disp = format!("{} vs {}", sx_value(a), sx_value(b));
    em.case(
        &format!("(binop eq {} {})", sx_value_iter_order(a), sx_value_iter_order(b)),
        &eq,
        &tags,
        &format!("Value::eq {}", disp),
    );
    em.case(
        &format!("(binop cmp {} {})", sx_value_iter_order(a), sx_value_iter_order(b)),
        &cmp,
        &tags,
        &format!("Value::partial_cmp {}", disp),
    );
    // laws on the implementation's own answers
    let (a2, b2) = (a.clone(), b.clone());
    let law = guarded(move || {
        let eq = a2 == b2;
        let ne = a2 != b2;
        let c = a2.partial_cmp(&b2);
        let c_rev = b2.partial_cmp(&a2);
        let mut bad = Vec::new();
        if ne == eq {
            bad.push("ne-is-not-negation");
        }
        if (b2 == a2) != eq {
            bad.push("eq-not-symmetric");
        }
        if c.map(Ordering::reverse) != c_rev {
            bad.push("cmp-not-antisymmetric");
        }
        if let Some(o) = c {
            if (o == Ordering::Equal) != eq {
                bad.push("cmp-eq-incoherent");
            }
        }
        if bad.is_empty() {
            "(bool true)".to_string()
        } else {
            format!("(law-violated {})", bad.join(" "))
        }
    });
    em.case("(echo (bool true))", &law, &format!("nt={};kind=law-pair", nt(a, b) as u8), &format!("laws on {}", disp));
}

fn prog_pair(em: &mut Emit, a: &Value, b: &Value) {
    let spec = CtxSpec {
        vars: vec![("x".into(), a.clone()), ("y".into(), b.clone())],
        funs: vec![],
    };
    let tags = format!("nt={};kind=prog", nt(a, b) as u8);
    for p in [
        "x == y", "x != y", "x < y", "x <= y", "x > y", "x >= y", "x in [y]", "max(x, y)", "min(x, y)",
        "max([x, y])", "min([y, x])", "[x].contains(y)",
    ] {
        emit_program(em, p, &spec, &tags);
    }
}

fn triple_law(em: &mut Emit, a: &Value, b: &Value, c: &Value) {
    let (a2, b2, c2) = (a.clone(), b.clone(), c.clone());
    let law = guarded(move || {
        let mut bad = Vec::new();
        let lt = |x: &Value, y: &Value| x.partial_cmp(y) == Some(Ordering::Less);
        let le = |x: &Value, y: &Value| matches!(x.partial_cmp(y), Some(Ordering::Less | Ordering::Equal));
        if lt(&a2, &b2) && lt(&b2, &c2) && !lt(&a2, &c2) {
            bad.push("lt-not-transitive");
        }
        if le(&a2, &b2) && le(&b2, &c2) && !le(&a2, &c2) {
            bad.push("le-not-transitive");
        }
        if a2 == b2 && b2 == c2 && a2 != c2 {
            bad.push("eq-not-transitive");
        }
        if a2 == b2 && lt(&b2, &c2) && !lt(&a2, &c2) {
            bad.push("eq-lt-incoherent");
        }
        if bad.is_empty() {
            "(bool true)".to_string()
        } else {
            format!("(law-violated {})", bad.join(" "))
        }
    });
    let n = nt(a, b) || nt(b, c);
    em.case(
        "(echo (bool true))",
        &law,
        &format!("nt={};kind=law-triple", n as u8),
        &format!("laws on {} , {} , {}", sx_value(a), sx_value(b), sx_value(c)),
    );
}

fn minmax_case(em: &mut Emit, rng: &mut Rng, vals: &[Value]) {
    // max/min over a random list of mutually comparable (numeric) values
    let nums: Vec<&Value> = vals.iter().filter(|v| numeric(v)).collect();
    let n = 1 + rng.below(5) as usize;
    let items: Vec<Value> = (0..n).map(|_| (*rng.pick(&nums)).clone()).collect();
    let spec = CtxSpec { vars: vec![("l".into(), list(items.clone()))], funs: vec![] };
    emit_program(em, "max(l)", &spec, "nt=1;kind=minmax");
    emit_program(em, "min(l)", &spec, "nt=1;kind=minmax");
    // law: result is an element bounding all others (NaN makes values incomparable => error)
    let law = guarded(move || {
        let ctx = CtxSpec { vars: vec![("l".into(), list(items.clone()))], funs: vec![] }.build();
        let mut bad = Vec::new();
        // the law speaks of mutually comparable values only
        let comparable = items.iter().all(|x| items.iter().all(|y| x.partial_cmp(y).is_some()));
        if !comparable {
            return "(bool true)".to_string();
        }
        for (f, want) in [("max(l)", Ordering::Greater), ("min(l)", Ordering::Less)] {
            let r = cel_interpreter::Program::compile(f).unwrap().execute(&ctx);
            if r.is_err() {
                bad.push("error-on-comparable-values");
            }
            if let Ok(m) = r {
                if !items.iter().any(|x| x == &m) {
                    bad.push("result-not-an-element");
                }
                for x in &items {
                    match m.partial_cmp(x) {
                        Some(o) if o == want || o == Ordering::Equal => {}
                        _ => bad.push("result-does-not-bound"),
                    }
                }
            }
        }
        if bad.is_empty() { "(bool true)".to_string() } else { format!("(law-violated {})", bad.join(" ")) }
    });
    em.case("(echo (bool true))", &law, "nt=1;kind=law-minmax", "min/max bound law");
}

/// long strings, byte strings and lists that agree up to (nearly) the end: the comparison has
/// to look at every element, whatever chunking or length shortcut it uses
fn long_values() -> Vec<Value> {
    let mut v = Vec::new();
    for &n in &[15usize, 16, 17, 31, 32, 33, 63, 64, 65, 255, 256, 257, 1024] {
        let base: String = (0..n).map(|i| (b'a' + (i % 26) as u8) as char).collect();
        let mut last = base.clone();
        last.pop();
        last.push('é');
        let mut mid: Vec<char> = base.chars().collect();
        mid[n / 2] = 'Z';
        v.push(s(&base));
        v.push(s(&last));
        v.push(s(&mid.iter().collect::<String>()));
        v.push(s(&base[..n - 1]));
        v.push(Value::Bytes(Arc::new(base.as_bytes().to_vec())));
        v.push(Value::Bytes(Arc::new(last.as_bytes().to_vec())));
        let l: Vec<Value> = (0..n).map(|i| Value::Int(i as i64)).collect();
        let mut l2 = l.clone();
        l2[n - 1] = Value::UInt(n as u64 - 1);
        let mut l3 = l.clone();
        l3[n - 1] = Value::Int(-1);
        v.push(list(l.clone()));
        v.push(list(l2));
        v.push(list(l3));
        v.push(list(l[..n - 1].to_vec()));
        v.push(map((0..n).map(|i| (Key::Int(i as i64), Value::Int(i as i64))).collect()));
        v.push(map((0..n).map(|i| (Key::Uint(i as u64), Value::Int(if i + 1 == n { -1 } else { i as i64 }))).collect()));
    }
    v
}

pub fn run(em: &mut Emit, thorough: bool, seed: u64) {
    let vals = value_set();
    let longs = long_values();
    for (i, a) in longs.iter().enumerate() {
        // within a length group (12 values each) and against the neighbouring group
        let lo = (i / 12) * 12;
        for b in longs[lo..(lo + 24).min(longs.len())].iter() {
            direct_pair(em, a, b);
            direct_pair(em, b, a);
            prog_pair(em, a, b);
        }
    }
    for a in &vals {
        for b in &vals {
            direct_pair(em, a, b);
        }
    }
    // programs: all pairs in thorough, numeric x numeric + a sample otherwise
    let mut rng = Rng::new(seed ^ 0xC09);
    for a in &vals {
        for b in &vals {
            if thorough || (numeric(a) && numeric(b)) || rng.chance(1, 8) {
                prog_pair(em, a, b);
            }
        }
    }
    // triples
    if thorough {
        for a in &vals {
            for b in &vals {
                for c in &vals {
                    triple_law(em, a, b, c);
                }
            }
        }
    } else {
        let nums: Vec<&Value> = vals.iter().filter(|v| numeric(v)).collect();
        for a in &nums {
            for b in &nums {
                for c in &nums {
                    if rng.chance(1, 3) {
                        triple_law(em, a, b, c);
                    }
                }
            }
        }
        for _ in 0..30000 {
            triple_law(em, rng.pick(&vals), rng.pick(&vals), rng.pick(&vals));
        }
    }
    for _ in 0..(if thorough { 20000 } else { 1500 }) {
        minmax_case(em, &mut rng, &vals);
    }
    // random numerics
    for _ in 0..(if thorough { 100000 } else { 3000 }) {
        let mk = |rng: &mut Rng| match rng.below(3) {
            0 => Value::Int(rng.log_i64()),
            1 => Value::UInt(rng.log_u64()),
            _ => {
                if rng.chance(1, 2) {
                    Value::Float(rng.log_i64() as f64)
                } else {
                    Value::Float(f64::from_bits(rng.next()))
                }
            }
        };
        let a = mk(&mut rng);
        let b = mk(&mut rng);
        direct_pair(em, &a, &b);
    }
}
