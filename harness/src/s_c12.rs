//! C12: string and bytes literals denote exactly the characters written.
use crate::rng::Rng;
use crate::s_c01::parse_impl;
use crate::wire::*;
use crate::Emit;

#[derive(Clone, Copy, PartialEq, Debug)]
struct Style {
    raw: bool,
    triple: bool,
    quote: char,
    bytes: bool,
    upper_prefix: bool,
}

fn styles() -> Vec<Style> {
    let mut v = Vec::new();
    for bytes in [false, true] {
        for raw in [false, true] {
            for triple in [false, true] {
                for quote in ['"', '\''] {
                    v.push(Style { raw, triple, quote, bytes, upper_prefix: false });
                }
            }
        }
    }
    v
}

fn wrap(st: &Style, body: &str) -> String {
    let mut s = String::new();
    if st.bytes {
        s.push(if st.upper_prefix { 'B' } else { 'b' });
    }
    if st.raw {
        s.push(if st.upper_prefix { 'R' } else { 'r' });
    }
    let q: String = if st.triple { std::iter::repeat(st.quote).take(3).collect() } else { st.quote.to_string() };
    s.push_str(&q);
    s.push_str(body);
    s.push_str(&q);
    s
}

fn expected_str(cps: &[u32]) -> String {
    let mut o = String::from("(ok (lit (str");
    for c in cps {
        o.push_str(&format!(" {}", c));
    }
    o.push_str(")))");
    o
}
fn expected_bytes(bs: &[u8]) -> String {
    let mut o = String::from("(ok (lit (bytes");
    for b in bs {
        o.push_str(&format!(" {}", b));
    }
    o.push_str(")))");
    o
}

fn emit_lit(em: &mut Emit, src: &str, expected: Option<String>, kind: &str) {
    let got = parse_impl(src);
    if let Some(exp) = expected {
        let law = if got == exp { "(bool true)".to_string() } else { format!("(law-violated literal-denotes got {} want {})", got, exp) };
        em.case("(echo (bool true))", &law, &format!("nt=1;kind=law-{}", kind), src);
    }
    em.case(&format!("(compile {})", sx_str(src)), &got, &format!("nt=1;kind={}", kind), src);
}

fn utf8(c: u32) -> Vec<u8> {
    char::from_u32(c).map(|ch| ch.to_string().into_bytes()).unwrap_or_default()
}

/// one escape sequence `esc` denoting code point / byte `val` in every non-raw style
fn escape_everywhere(em: &mut Emit, esc: &str, val: Option<u32>, small: bool, kind: &str) {
    for st in styles() {
        if st.raw {
            continue;
        }
        for (pre, post) in [("", ""), ("q", "z")] {
            let body = format!("{}{}{}", pre, esc, post);
            let src = wrap(&st, &body);
            let exp = val.map(|v| {
                if st.bytes {
                    let mut bs: Vec<u8> = pre.bytes().collect();
                    if small { bs.push(v as u8) } else { bs.extend(utf8(v)) }
                    bs.extend(post.bytes());
                    expected_bytes(&bs)
                } else {
                    let mut cps: Vec<u32> = pre.chars().map(|c| c as u32).collect();
                    cps.push(v);
                    cps.extend(post.chars().map(|c| c as u32));
                    expected_str(&cps)
                }
            });
            let exp = exp.or(Some("(reject)".to_string()));
            emit_lit(em, &src, exp, kind);
        }
    }
}

fn is_scalar(v: u32) -> bool {
    char::from_u32(v).is_some()
}

/// render a target string in a style with random per-character choices; None if the style
/// cannot spell it
fn render_string(rng: &mut Rng, st: &Style, target: &[char]) -> Option<String> {
    let mut body = String::new();
    for (i, &c) in target.iter().enumerate() {
        let v = c as u32;
        let next_is_quote = target.get(i + 1).map_or(true, |n| *n == st.quote);
        let verbatim_ok = if st.triple {
            (st.raw || c != '\\') && !(c == st.quote && next_is_quote)
        } else {
            c != st.quote && c != '\n' && c != '\r' && (st.raw || c != '\\')
        };
        if st.raw {
            if !verbatim_ok {
                return None;
            }
            body.push(c);
            continue;
        }
        let mut forms: Vec<String> = Vec::new();
        if verbatim_ok {
            forms.push(c.to_string());
            forms.push(c.to_string());
        }
        let simple = match c {
            '\u{07}' => Some("\\a"), '\u{08}' => Some("\\b"), '\u{0c}' => Some("\\f"), '\n' => Some("\\n"),
            '\r' => Some("\\r"), '\t' => Some("\\t"), '\u{0b}' => Some("\\v"), '\\' => Some("\\\\"),
            '?' => Some("\\?"), '"' => Some("\\\""), '\'' => Some("\\'"), '`' => Some("\\`"),
            _ => None,
        };
        if let Some(s) = simple {
            forms.push(s.to_string());
            forms.push(s.to_string());
        }
        if !st.bytes {
            if v <= 0xff {
                forms.push(format!("\\x{:02x}", v));
                forms.push(format!("\\X{:02X}", v));
                forms.push(format!("\\{:03o}", v));
            }
            if v <= 0xffff {
                forms.push(format!("\\u{:04x}", v));
            }
            forms.push(format!("\\U{:08X}", v));
        } else {
            // in a bytes literal \x and octal denote single bytes: only usable for ASCII targets
            if v < 0x80 {
                forms.push(format!("\\x{:02x}", v));
                forms.push(format!("\\{:03o}", v));
            }
            if v <= 0xffff {
                forms.push(format!("\\u{:04X}", v));
            }
            forms.push(format!("\\U{:08x}", v));
        }
        body.push_str(&rng.pick(&forms[..]).clone());
    }
    Some(wrap(st, &body))
}

fn render_bytes(rng: &mut Rng, st: &Style, target: &[u8]) -> Option<String> {
    let mut body = String::new();
    for (i, &b) in target.iter().enumerate() {
        let c = b as char;
        let printable = (0x20..0x7f).contains(&b);
        let next_is_quote = target.get(i + 1).map_or(true, |n| *n as char == st.quote);
        let verbatim_ok = printable
            && if st.triple { (st.raw || c != '\\') && !(c == st.quote && next_is_quote) } else { c != st.quote && (st.raw || c != '\\') };
        if st.raw {
            if !verbatim_ok {
                return None;
            }
            body.push(c);
            continue;
        }
        let mut forms = vec![format!("\\x{:02x}", b), format!("\\X{:02x}", b), format!("\\{:03o}", b)];
        if verbatim_ok {
            forms.push(c.to_string());
            forms.push(c.to_string());
        }
        body.push_str(&rng.pick(&forms[..]).clone());
    }
    Some(wrap(st, &body))
}

pub fn run(em: &mut Emit, thorough: bool, seed: u64) {
    // single-character escapes
    for (e, v) in [("\\a", 7u32), ("\\b", 8), ("\\f", 12), ("\\n", 10), ("\\r", 13), ("\\t", 9), ("\\v", 11),
                   ("\\\\", 92), ("\\?", 63), ("\\\"", 34), ("\\'", 39), ("\\`", 96)] {
        escape_everywhere(em, e, Some(v), false, "esc-simple");
    }
    for c in "cdeghijklmopqswyzACDEFGHIJKLMNOPQRSTVWYZ489 !#$%&()*+,-./:;<=>@[]^_{|}~".chars() {
        escape_everywhere(em, &format!("\\{}", c), None, false, "esc-unknown");
    }
    // all \x, \X, octal
    for v in 0..=255u32 {
        escape_everywhere(em, &format!("\\x{:02x}", v), Some(v), true, "esc-x");
        escape_everywhere(em, &format!("\\X{:02X}", v), Some(v), true, "esc-X");
        escape_everywhere(em, &format!("\\{:03o}", v), Some(v), true, "esc-oct");
    }
    for bad in ["\\400", "\\777", "\\08", "\\1", "\\12", "\\x4", "\\xg0", "\\x", "\\u12", "\\u123", "\\U0001f43", "\\ud800", "\\udfff",
                "\\uDBFF", "\\U00110000", "\\UFFFFFFFF", "\\U0000d800", "\\"] {
        escape_everywhere(em, bad, None, false, "esc-invalid");
    }
    // \u: all 65536 in the thorough tier, every 16th plus boundaries otherwise
    let mut rng = Rng::new(seed ^ 0xC12);
    for v in 0..=0xffffu32 {
        let boundary = v < 0x100 || (0xd7f0..=0xe010).contains(&v) || v >= 0xfff0 || v % 0x1000 == 0 || v % 0x1000 == 0xfff;
        if thorough || boundary || v % 16 == (seed % 16) as u32 {
            let e = if v % 2 == 0 { format!("\\u{:04x}", v) } else { format!("\\u{:04X}", v) };
            escape_everywhere(em, &e, if is_scalar(v) { Some(v) } else { None }, false, "esc-u");
        }
    }
    // \U: plane boundaries and a random sample
    let mut us: Vec<u32> = vec![0, 1, 0x7f, 0x80, 0x7ff, 0x800, 0xd7ff, 0xd800, 0xdfff, 0xe000, 0xffff, 0x10000, 0x1f431,
                                0x10ffff, 0x110000, 0x1fffff, 0xffffffff, 0x7fffffff];
    for p in 1..=16u32 {
        us.push(p * 0x10000);
        us.push(p * 0x10000 + 0xffff);
        us.push(p * 0x10000 - 1);
    }
    for _ in 0..(if thorough { 20000 } else { 300 }) {
        us.push(rng.below(0x120000) as u32);
    }
    for v in us {
        escape_everywhere(em, &format!("\\U{:08x}", v), if is_scalar(v) { Some(v) } else { None }, false, "esc-U");
    }
    // random strings and byte sequences in every style with random per-character choices
    let alpha: Vec<char> = "ab \"'\\`?\n\r\t\u{7}\u{0}é\u{ff}\u{100}😀\u{ffff}\u{10ffff}xyz01".chars().collect();
    let n = if thorough { 60000 } else { 2500 };
    for _ in 0..n {
        let len = rng.below(8) as usize;
        let target: Vec<char> = (0..len).map(|_| *rng.pick(&alpha)).collect();
        let cps: Vec<u32> = target.iter().map(|c| *c as u32).collect();
        for mut st in styles() {
            st.upper_prefix = rng.chance(1, 2);
            if let Some(src) = render_string(&mut rng, &st, &target) {
                let exp = if st.bytes {
                    expected_bytes(&target.iter().collect::<String>().into_bytes())
                } else {
                    expected_str(&cps)
                };
                emit_lit(em, &src, Some(exp), "rnd-string");
            }
        }
        let blen = rng.below(8) as usize;
        let bt: Vec<u8> = (0..blen).map(|_| *rng.pick(&[0u8, 1, 10, 13, 34, 39, 92, 96, 97, 98, 127, 128, 200, 255, 32, 63])).collect();
        for mut st in styles() {
            if !st.bytes {
                continue;
            }
            st.upper_prefix = rng.chance(1, 2);
            if let Some(src) = render_bytes(&mut rng, &st, &bt) {
                emit_lit(em, &src, Some(expected_bytes(&bt)), "rnd-bytes");
            }
        }
    }
    // long literals: mixed verbatim / escaped spellings with lengths around buffer-size thresholds
    for &len in &[15usize, 16, 17, 31, 32, 33, 63, 64, 65, 127, 128, 129, 255, 256, 257, 1000] {
        for _ in 0..(if thorough { 6 } else { 2 }) {
            let target: Vec<char> = (0..len).map(|_| *rng.pick(&alpha)).collect();
            let cps: Vec<u32> = target.iter().map(|c| *c as u32).collect();
            for mut st in styles() {
                st.upper_prefix = rng.chance(1, 2);
                if let Some(src) = render_string(&mut rng, &st, &target) {
                    let exp = if st.bytes {
                        expected_bytes(&target.iter().collect::<String>().into_bytes())
                    } else {
                        expected_str(&cps)
                    };
                    emit_lit(em, &src, Some(exp), "long-string");
                }
            }
        }
    }
    // embedded quotes and newlines in triple-quoted forms; raw literals take everything verbatim
    for (src, exp) in [
        ("\"\"\"a\"b\"\"\"", Some("a\"b")), ("'''a'b'''", Some("a'b")), ("\"\"\"a\"\"b\"\"\"", Some("a\"\"b")),
        ("'''it''s'''", Some("it''s")), ("\"\"\"line1\nline2\"\"\"", Some("line1\nline2")), ("'''\n'''", Some("\n")),
        ("r\"a\\n\"", Some("a\\n")), ("r'a\\'", Some("a\\")), ("R\"\"\"a\\\"\"\"", Some("a\\")), ("r'\\x41'", Some("\\x41")),
        ("r\"\"\"a\"b\"\"\"", Some("a\"b")), ("\"\\'\"", Some("'")), ("'\\\"'", Some("\"")), ("\"'\"", Some("'")), ("'\"'", Some("\"")),
        ("\"\"", Some("")), ("''", Some("")), ("\"\"\"\"\"\"", Some("")), ("''''''", Some("")), ("r''", Some("")),
        ("\"a\nb\"", None), ("'a\rb'", None), ("\"abc", None), ("'abc", None), ("\"\"\"abc\"\"", None), ("r\"abc", None),
        ("\"\"\"a\"\"\"\"", None),
        // raw triple-quoted bodies with pairs of the delimiter's quote; a body ending in the quote ends early
        ("r'''it''s \"q\" \\n'''", Some("it''s \"q\" \\n")), ("R\"\"\"a\"\"b'c'''d\"\"\"", Some("a\"\"b'c'''d")),
        ("r'''a''''", None), ("r'''a'''b'''", None),
    ] {
        let e = match exp {
            Some(s) => expected_str(&s.chars().map(|c| c as u32).collect::<Vec<_>>()),
            None => "(reject)".to_string(),
        };
        emit_lit(em, src, Some(e), "quotes");
    }
    for (src, exp) in [
        ("b\"abc\"", Some(b"abc".to_vec())), ("b'''abc'''", Some(b"abc".to_vec())), ("bR\"x\"", Some(b"x".to_vec())),
        ("br'a\\n'", Some(b"a\\n".to_vec())), ("b\"\\n\"", Some(b"\n".to_vec())), ("b'\\u00e9'", Some(vec![0xc3, 0xa9])),
        ("b'é'", Some(vec![0xc3, 0xa9])), ("b'\\xe9'", Some(vec![0xe9])), ("b'\\351'", Some(vec![0xe9])), ("B\"\"", Some(vec![])),
        ("b\"\"\"a\"b\"\"\"", Some(b"a\"b".to_vec())), ("b'\\U0001F431'", Some("🐱".as_bytes().to_vec())),
        ("br'''it''s é'''", Some("it''s é".as_bytes().to_vec())), ("Br\"\"\"x\"\"y\\\"\"\"", Some(b"x\"\"y\\".to_vec())),
        ("bR'é\\x41'", Some("é\\x41".as_bytes().to_vec())), ("br'''a''''", None),
        ("rb'x'", None), ("b 'x'", None), ("b\"abc", None),
    ] {
        let e = match exp {
            Some(b) => expected_bytes(&b),
            None => "(reject)".to_string(),
        };
        emit_lit(em, src, Some(e), "quotes-bytes");
    }
}
