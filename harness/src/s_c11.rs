//! C11: scopes.  (a) every sequence of context operations (define / redefine / open an inner
//! scope / drop it / look up) up to a length bound over 3 names and 3 scope levels, against the
//! real Context API; (b) programs nesting macros whose iteration variables reuse names of
//! context variables and functions, with lookups after the macro finished.
use crate::ctxgen::*;
use crate::prog::*;
use crate::rng::Rng;
use crate::wire::*;
use crate::{guarded, Emit};
use cel_interpreter::{Context, Value};

#[derive(Clone, Copy, Debug, PartialEq)]
enum Op {
    Def(usize),
    Push,
    Pop,
    Get(usize),
}
const NAMES: [&str; 3] = ["a", "b", "size"];

/// the value the k-th operation binds: every third one is null (a binding like any other)
fn bound(k: usize) -> Value {
    match k % 3 {
        2 => Value::Null,
        _ => Value::Int(k as i64),
    }
}

fn exec(ops: &[Op], i: &mut usize, ctx: &mut Context, out: &mut Vec<String>) {
    while *i < ops.len() {
        let k = *i;
        *i += 1;
        match ops[k] {
            Op::Def(n) => {
                // alternate the two ways of adding a variable
                if k % 2 == 0 {
                    ctx.add_variable_from_value(NAMES[n], bound(k));
                } else {
                    ctx.add_variable(NAMES[n], bound(k)).unwrap();
                }
            }
            Op::Get(n) => out.push(sx_result(&ctx.get_variable(NAMES[n]))),
            Op::Push => {
                let mut child = ctx.new_inner_scope();
                exec(ops, i, &mut child, out);
            }
            Op::Pop => return,
        }
    }
}

fn valid(ops: &[Op]) -> bool {
    let mut d = 0i32;
    for o in ops {
        match o {
            Op::Push => {
                d += 1;
                if d > 2 {
                    return false;
                }
            }
            Op::Pop => {
                d -= 1;
                if d < 0 {
                    return false;
                }
            }
            _ => {}
        }
    }
    true
}

fn emit_ops(em: &mut Emit, ops: &[Op], kind: &str) {
    let mut req = String::from("(ctxops (ctx (scopes (scope)) (funs))");
    for (k, o) in ops.iter().enumerate() {
        match o {
            Op::Def(n) => req.push_str(&format!(" (def {} {})", sx_str(NAMES[*n]), sx_value(&bound(k)))),
            Op::Get(n) => req.push_str(&format!(" (get {})", sx_str(NAMES[*n]))),
            Op::Push => req.push_str(" (push)"),
            Op::Pop => req.push_str(" (pop)"),
        }
    }
    req.push(')');
    let ops2: Vec<Op> = ops.to_vec();
    let imp = guarded(move || {
        let mut ctx = Context::default();
        let mut out = Vec::new();
        let mut i = 0;
        exec(&ops2, &mut i, &mut ctx, &mut out);
        format!("(gets{}{})", if out.is_empty() { "" } else { " " }, out.join(" "))
    });
    // shadowing occurs when some name is defined at two live levels
    let mut shadow = false;
    let mut levels: Vec<Vec<usize>> = vec![vec![]];
    for o in ops {
        match o {
            Op::Def(n) => {
                if levels[..levels.len() - 1].iter().any(|l| l.contains(n)) {
                    shadow = true;
                }
                levels.last_mut().unwrap().push(*n);
            }
            Op::Push => levels.push(vec![]),
            Op::Pop => {
                levels.pop();
            }
            _ => {}
        }
    }
    em.case(&req, &imp, &format!("nt={};kind={}", shadow as u8, kind), &format!("{:?}", ops));
}

fn enumerate(em: &mut Emit, len: usize) {
    let alpha: Vec<Op> = vec![
        Op::Def(0), Op::Def(1), Op::Def(2), Op::Push, Op::Pop, Op::Get(0), Op::Get(1), Op::Get(2),
    ];
    let mut idx = vec![0usize; len];
    loop {
        let ops: Vec<Op> = idx.iter().map(|&i| alpha[i]).collect();
        // only sequences that end with a lookup and stay within the level bounds
        if valid(&ops) && matches!(ops.last(), Some(Op::Get(_))) {
            emit_ops(em, &ops, "ops-exh");
        }
        let mut k = len;
        loop {
            if k == 0 {
                return;
            }
            k -= 1;
            idx[k] += 1;
            if idx[k] < alpha.len() {
                break;
            }
            idx[k] = 0;
        }
    }
}

fn macro_programs(em: &mut Emit, rng: &mut Rng, n: u64) {
    let spec = CtxSpec {
        vars: vec![
            ("a".into(), Value::Int(100)),
            ("size".into(), Value::Int(7)),
            ("l".into(), Value::List(std::sync::Arc::new(vec![Value::Int(1), Value::Int(2)]))),
            // ranges whose elements are null, and a map whose keys are uints beyond the int range
            ("ln".into(), Value::List(std::sync::Arc::new(vec![Value::Int(1), Value::Null, Value::Int(3)]))),
            // neighbouring elements that are equal (`==`) without being the same value: the iteration
            // variable has to be rebound for each of them
            ("le".into(), Value::List(std::sync::Arc::new(vec![
                Value::Int(1), Value::UInt(1), Value::Float(1.0), Value::Int(1), Value::Float(0.0), Value::Float(-0.0),
                Value::List(std::sync::Arc::new(vec![Value::Int(2)])), Value::List(std::sync::Arc::new(vec![Value::UInt(2)])),
            ]))),
            ("mu".into(), Value::Map(cel_interpreter::objects::Map { map: std::sync::Arc::new(std::collections::HashMap::from([
                (cel_interpreter::objects::Key::Uint(2), Value::Int(1)),
                (cel_interpreter::objects::Key::Uint(u64::MAX), Value::Int(2)),
            ])) })),
        ],
        funs: vec![HostFn { kind: "hv1", name: "b".into() }, HostFn { kind: "hv1", name: "idf".into() }],
    };
    let names = ["a", "b", "size"];
    let leafs = |rng: &mut Rng| -> String {
        match rng.below(8) {
            0 => "a".into(),
            1 => "b".into(),
            2 => "size".into(),
            3 => "size(l)".into(),
            4 => "b(a)".into(),
            5 => "idf(size)".into(),
            6 => "l.size()".into(),
            _ => "1".into(),
        }
    };
    fn gen(rng: &mut Rng, depth: u32, names: &[&str; 3], leafs: &dyn Fn(&mut Rng) -> String) -> String {
        if depth == 0 {
            return leafs(rng);
        }
        let v = *rng.pick(names);
        let inner = gen(rng, depth - 1, names, leafs);
        let range = match rng.below(12) {
            0 | 1 | 2 => format!("[{}]", leafs(rng)),
            3 => "ln".to_string(),
            4 => "[null]".to_string(),
            5 => "mu".to_string(),
            6 => "le".to_string(),
            7 => "[2, 2u, 2.0, 0.0, -0.0, [0.0], [-0.0]]".to_string(),
            8 => format!("[{}, 7u, 7.0, 7]", leafs(rng)),
            _ => "l".to_string(),
        };
        match rng.below(7) {
            // the iteration variable mentioned only as the key of a map literal
            5 => format!("{}.map({}, {{{}: {}}})", range, v, v, inner),
            6 => format!("[{}.all({}, {{{}: true}}.size() == 1), {}.exists({}, {{{}: {}}}.size() > 1)]", range, v, v, range, v, v, v),
            0 => format!("{}.map({}, [{}, {}])", range, v, v, inner),
            1 => format!("{}.filter({}, {} == {} || {}.size() >= 0)", range, v, v, v, inner_list(&inner)),
            2 => format!("[{}.all({}, [{}].size() > 0), {}]", range, v, inner, leafs(rng)),
            3 => format!("{}.map({}, {} > 0, {})", range, v, v, inner),
            _ => format!("[{}.exists({}, {} == 2), {}, {}]", range, v, v, v, inner),
        }
    }
    fn inner_list(s: &str) -> String {
        format!("[{}]", s)
    }
    for _ in 0..n {
        let d = 1 + rng.below(3) as u32;
        let body = gen(rng, d, &names, &leafs);
        // lookups after the macro finished
        let src = format!("[{}, a, size, l]", body);
        emit_program(em, &src, &spec, "nt=1;kind=macro-scope");
        let src2 = format!("[{}, b]", body);
        emit_program(em, &src2, &spec, "nt=1;kind=macro-scope-undeclared");
    }
}

/// Inside a macro body a host function that reads a variable by name through its
/// `FunctionContext` sees what the body sees: the iteration variable's current element when the
/// macro binds that name, the outer binding otherwise (also when the body never mentions the name
/// itself).  A law on the implementation: every program gives the same result with the identifier
/// and with the host call in its place.
pub fn host_lookup_law(em: &mut Emit) {
    use cel_interpreter::{FunctionContext, Program};
    let build = || {
        let mut ctx = Context::default();
        ctx.add_variable_from_value("a", Value::Int(100));
        ctx.add_variable_from_value("l", Value::List(std::sync::Arc::new(vec![Value::Int(1), Value::Int(2), Value::Int(3)])));
        ctx.add_variable_from_value("ll", Value::List(std::sync::Arc::new(vec![
            Value::List(std::sync::Arc::new(vec![Value::Int(1)])),
            Value::List(std::sync::Arc::new(vec![Value::Int(2), Value::UInt(2), Value::Float(2.0)])),
        ])));
        ctx.add_variable_from_value("m", Value::Map(cel_interpreter::objects::Map { map: std::sync::Arc::new(std::collections::HashMap::from([
            (cel_interpreter::objects::Key::Int(7), Value::Int(1)),
        ])) }));
        ctx.add_function("cura", |ftx: &FunctionContext| ftx.ptx.get_variable("a"));
        ctx.add_function("curb", |ftx: &FunctionContext| ftx.ptx.get_variable("b"));
        // a host function that evaluates its (unevaluated) argument in the scope of the call
        ctx.add_function("ev", |ftx: &FunctionContext, e: cel_parser::Expression| ftx.resolve(e));
        ctx
    };
    let templates = [
        "l.map(a, A)", "l.map(a, [A, A])", "l.filter(a, A > 1)", "l.all(a, A > 0)", "l.exists(a, A == 2)", "l.exists_one(a, A == 2)",
        "l.existsOne(a, A == 3)", "l.map(a, A > 1, A * 2)", "m.map(a, A)", "m.all(a, A == 7)", "[A, l.map(a, A), A]", "l.map(b, A + B)",
        "ll.map(a, a.map(b, [A.size(), B]))", "ll.map(b, b.map(a, A))", "ll.map(a, A.map(a, A))", "l.map(a, l.map(b, A * B))",
        "l.map(a, 1)", "[l.map(b, B), A]", "l.map(a, l.filter(a, A > 1).size() + A)", "l.map(b, B > 1 ? A : B)", "has(m.x) || l.all(a, A < 4)",
        "B", "l.map(a, B)", "[].map(a, A)", "[[]].map(a, A.size())", "l.map(a, {A: A})", "l.map(a, {'k': A}.k)",
    ];
    for t in templates {
        let with_ident = t.replace('A', "a").replace('B', "b");
        // every second template evaluates the identifier through the expression-taking function instead
        let with_host = if t.len() % 2 == 0 { t.replace('A', "cura()").replace('B', "curb()") } else { t.replace('A', "ev(a)").replace('B', "ev(b)") };
        let (s1, s2) = (with_ident.clone(), with_host.clone());
        let law = guarded(move || {
            let ctx = build();
            let run = |s: &str| match Program::compile(s) {
                Ok(p) => sx_result(&p.execute(&ctx)),
                Err(_) => "(reject)".to_string(),
            };
            let (r1, r2) = (run(&s1), run(&s2));
            // the same inside an inner scope of the host's own that rebinds nothing
            let inner = ctx.new_inner_scope();
            let r3 = match Program::compile(&s2) {
                Ok(p) => sx_result(&p.execute(&inner)),
                Err(_) => "(reject)".to_string(),
            };
            if crate::canon_local(&r1) == crate::canon_local(&r2) && crate::canon_local(&r1) == crate::canon_local(&r3) {
                "(bool true)".to_string()
            } else {
                format!("(law-violated host-lookup-differs identifier: {} host function: {} in an inner scope: {})", r1, r2, r3)
            }
        });
        em.case("(echo (bool true))", &law, "nt=1;kind=law-host-lookup", &format!("{}  vs  {}", with_ident, with_host));
    }
}

pub fn run(em: &mut Emit, thorough: bool, seed: u64) {
    host_lookup_law(em);
    for len in 1..=(if thorough { 7 } else { 5 }) {
        enumerate(em, len);
    }
    let mut rng = Rng::new(seed ^ 0xC11);
    // random longer operation sequences
    for _ in 0..(if thorough { 100_000 } else { 5_000 }) {
        let len = 6 + rng.below(20) as usize;
        let mut ops = Vec::new();
        let mut d = 0;
        for _ in 0..len {
            let o = match rng.below(9) {
                0..=2 => Op::Def(rng.below(3) as usize),
                3 if d < 2 => {
                    d += 1;
                    Op::Push
                }
                4 if d > 0 => {
                    d -= 1;
                    Op::Pop
                }
                _ => Op::Get(rng.below(3) as usize),
            };
            ops.push(o);
        }
        emit_ops(em, &ops, "ops-rnd");
    }
    macro_programs(em, &mut rng, if thorough { 100_000 } else { 5_000 });
}
