//! splitmix64: every random choice of a run derives from one seed.
pub struct Rng(pub u64);

impl Rng {
    pub fn new(seed: u64) -> Self {
        Rng(seed ^ 0x9E3779B97F4A7C15)
    }
    pub fn next(&mut self) -> u64 {
        self.0 = self.0.wrapping_add(0x9E3779B97F4A7C15);
        let mut z = self.0;
        z = (z ^ (z >> 30)).wrapping_mul(0xBF58476D1CE4E5B9);
        z = (z ^ (z >> 27)).wrapping_mul(0x94D049BB133111EB);
        z ^ (z >> 31)
    }
    pub fn below(&mut self, n: u64) -> u64 {
        if n == 0 {
            0
        } else {
            self.next() % n
        }
    }
    pub fn range(&mut self, lo: i64, hi: i64) -> i64 {
        lo + self.below((hi - lo + 1) as u64) as i64
    }
    pub fn chance(&mut self, num: u64, den: u64) -> bool {
        self.below(den) < num
    }
    pub fn pick<'a, T>(&mut self, xs: &'a [T]) -> &'a T {
        &xs[self.below(xs.len() as u64) as usize]
    }
    /// log-uniform magnitude: a random bit length, then random bits of that length
    pub fn log_u64(&mut self) -> u64 {
        let bits = self.below(65);
        if bits == 0 {
            0
        } else if bits == 64 {
            self.next() | (1 << 63)
        } else {
            (self.next() & ((1u64 << bits) - 1)) | (1u64 << (bits - 1))
        }
    }
    pub fn log_i64(&mut self) -> i64 {
        let bits = self.below(64);
        let mag: u64 = if bits == 0 {
            0
        } else {
            (self.next() & ((1u64 << bits) - 1)) | (1u64 << (bits - 1))
        };
        let v = mag as i64;
        if self.chance(1, 2) {
            v.wrapping_neg()
        } else {
            v
        }
    }
}
