//! C01: compiling any source text ends in a program or positioned errors.
//! Streams: exhaustive token strings over small alphabets, random characters, random token
//! sequences, grammar-generated valid expressions and their single-token mutations.
use crate::gen::*;
use crate::rng::Rng;
use crate::wire::*;
use crate::{guarded, Emit};

/// Parses `src` with the real parser; wire outcome plus a monitor of the error list.
pub fn parse_impl(src: &str) -> String {
    let s = src.to_string();
    guarded(move || match cel_parser::Parser::default().parse(&s) {
        Ok(e) => format!("(ok {})", sx_expr(&e)),
        Err(errs) => {
            // every reported error renders to non-empty text and points inside the source
            if errs.errors.is_empty() {
                return "(bad-errors empty-list)".into();
            }
            let lines: Vec<&str> = s.split('\n').collect();
            for e in &errs.errors {
                if format!("{}", e).is_empty() || e.msg.is_empty() {
                    return "(bad-errors empty-text)".into();
                }
                let (l, c) = e.pos;
                if (l, c) == (0, 0) {
                    continue;
                }
                if l < 1 || l as usize > lines.len() {
                    return format!("(bad-errors line-out-of-source {} {})", l, c);
                }
                let len = lines[l as usize - 1].len() as isize;
                if c < 1 || c > len + 1 {
                    return format!("(bad-errors column-out-of-source {} {})", l, c);
                }
            }
            if format!("{}", errs).is_empty() {
                return "(bad-errors empty-text)".into();
            }
            "(reject)".into()
        }
    })
}

pub fn emit_src(em: &mut Emit, src: &str, tags: &str) {
    let req = format!("(compile {})", sx_str(src));
    em.case(&req, &parse_impl(src), tags, src);
}

fn enumerate(em: &mut Emit, alpha: &[&str], len: usize, sep: &str, kind: &str) {
    let mut idx = vec![0usize; len];
    loop {
        let toks: Vec<&str> = idx.iter().map(|&i| alpha[i]).collect();
        let src = toks.join(sep);
        emit_src(em, &src, &format!("nt={};kind={}", (len >= 2) as u8, kind));
        let mut k = len;
        loop {
            if k == 0 {
                return;
            }
            k -= 1;
            idx[k] += 1;
            if idx[k] < alpha.len() {
                break;
            }
            idx[k] = 0;
        }
    }
}

const A16: &[&str] = &["a", "1", "'s'", "+", "-", "!", "(", ")", "[", "]", "{", "}", ".", ",", "?", ":"];
const A_OPS: &[&str] = &["a", "b", "1", "&&", "||", "==", "<", "in", "*", "-", "!", "(", ")", "?", ":", "."];
const A_CALL: &[&str] = &["f", "x", "1", "(", ")", ",", ".", "has", "all", "map", "[", "]", "{", "}", ":", "T"];
const A_NUM: &[&str] = &["1", "0x", "1u", "1.5", ".5", "e", "e5", "-", ".", "u", "0", "x1", "+", "1e", "9223372036854775808", "a"];
const A_QUOTE: &[&str] = &["\"", "'", "\\", "a", "r", "b", "n", "\n", "x41", "\"\"\"", "'''", "u0041", " ", "`", "R", "0"];

const TOKENS: &[&str] = &[
    "a", "b", "x", "f", "size", "has", "all", "exists", "exists_one", "map", "filter", "in", "true", "false",
    "null", "1", "0", "42", "1u", "0x1F", "1.5", "2e10", ".5", "'s'", "\"d\"", "r'raw'", "b'by'", "'''t'''",
    "+", "-", "*", "/", "%", "==", "!=", "<", "<=", ">", ">=", "&&", "||", "!", "?", ":", ".", ",", "(", ")", "[",
    "]", "{", "}", "`esc.id`", "// c\n", "\n", "\t", "T", ".?", "[?",
];

fn random_chars(rng: &mut Rng, n: usize) -> String {
    let mut s = String::new();
    for _ in 0..n {
        let c = match rng.below(20) {
            0 => char::from_u32(rng.below(0x20) as u32).unwrap(),
            1 => *rng.pick(&['"', '\'', '\\', '`']),
            2 => *rng.pick(&['é', 'ß', '😀', '\u{ffff}', '\u{7f}', '\u{a0}', 'µ']),
            3 => char::from_u32(0x80 + rng.below(0x700) as u32).unwrap_or('x'),
            4..=7 => *rng.pick(&['(', ')', '[', ']', '{', '}', '.', ',', '?', ':', '+', '-', '*', '/', '%', '!', '=', '<', '>', '&', '|']),
            8..=10 => (b'0' + rng.below(10) as u8) as char,
            11 => ' ',
            _ => (b'a' + rng.below(26) as u8) as char,
        };
        s.push(c);
    }
    s
}

/// Splits a valid source into rough tokens for mutation (identifier/number runs, quoted
/// strings, operator characters).
fn rough_tokens(src: &str) -> Vec<String> {
    let cs: Vec<char> = src.chars().collect();
    let mut out = Vec::new();
    let mut i = 0;
    while i < cs.len() {
        let c = cs[i];
        if c.is_whitespace() {
            i += 1;
        } else if c.is_alphanumeric() || c == '_' {
            let st = i;
            while i < cs.len() && (cs[i].is_alphanumeric() || cs[i] == '_' || (cs[i] == '.' && i + 1 < cs.len() && cs[i + 1].is_ascii_digit() && cs[st].is_ascii_digit())) {
                i += 1;
            }
            // bytes / raw prefixes stay attached to their quote
            if i < cs.len() && (cs[i] == '\'' || cs[i] == '"') && i - st <= 2 {
                let q = cs[i];
                i += 1;
                while i < cs.len() && cs[i] != q {
                    if cs[i] == '\\' {
                        i += 1;
                    }
                    i += 1;
                }
                i += 1;
            }
            out.push(cs[st..i.min(cs.len())].iter().collect());
        } else if c == '\'' || c == '"' {
            let st = i;
            i += 1;
            while i < cs.len() && cs[i] != c {
                if cs[i] == '\\' {
                    i += 1;
                }
                i += 1;
            }
            i += 1;
            out.push(cs[st..i.min(cs.len())].iter().collect());
        } else {
            let two: String = cs[i..(i + 2).min(cs.len())].iter().collect();
            if ["&&", "||", "==", "!=", "<=", ">="].contains(&two.as_str()) {
                out.push(two);
                i += 2;
            } else {
                out.push(c.to_string());
                i += 1;
            }
        }
    }
    out
}

pub fn run(em: &mut Emit, thorough: bool, seed: u64) {
    // witnesses of the defects fixed earlier stay in the stream
    for s in ["", "1 +", "ä", "\"abc", "!-a", "f(1,)", "{1:", "a &&", "$", ") (", "in", "a.in", "/* c */ a", "'\\q'",
              "!!a", "--a", "-0x10", "\"\\'\"", "'''it''s'''", "r'a\\'", "b\"\\n\"", "b'''abc'''", "bR\"x\"", "\"\\X41\"",
              "a?b?c:d:e", "a<b==c", "[,]", "{,}", "[a,]", "{k:v,}", ".a(1)", ".a", "x.map(1)", "has(a,b)", "has(a)",
              "1.e5", "5.", "rb\"x\"", "\"\"\"a\"\"\"b\"\"\"", "'\\08'", "'\\400'", "T{,}", "T{a:1,}", "a.b{c:1}", ".T{}",
              "x.?y", "x[?1]", "[?a]", "{?a:1}", "T{?a:1}", "a.`b c`", "a.`b`(1)", "`a`", "--1", "---1", "-1.f()", "a--1",
              "!-1", "-!a", "- 1u", "-.5", "9223372036854775808", "-9223372036854775808", "18446744073709551616u",
              "1e400", "1e-400", "0.0000000000000000000000000000001e31", "1e99999999999999999999", "0x", "0xg", "1u2",
              "a\n+\nb", "a // c", "// only", "a /", "&", "|", "=", "a = b", "a.b.c(d)[e].f", "[[[[1]]]]", "((((a))))"] {
        emit_src(em, s, "nt=1;kind=corpus");
    }
    // exhaustive token strings
    let maxlen = if thorough { 5 } else { 4 };
    for len in 1..=maxlen {
        enumerate(em, A16, len, " ", "exh-a16");
    }
    for len in 1..=(if thorough { 4 } else { 3 }) {
        enumerate(em, A_OPS, len, " ", "exh-ops");
        enumerate(em, A_CALL, len, " ", "exh-call");
        enumerate(em, A_NUM, len, "", "exh-num-nosep");
        enumerate(em, A_QUOTE, len, "", "exh-quote-nosep");
        enumerate(em, A16, len, "", "exh-a16-nosep");
    }
    let mut rng = Rng::new(seed ^ 0xC01);
    let n = if thorough { 300_000 } else { 8_000 };
    // random characters
    for _ in 0..n {
        let len = 1 + rng.below(24) as usize;
        let s = random_chars(&mut rng, len);
        emit_src(em, &s, "nt=1;kind=rnd-chars");
    }
    // random token sequences
    for _ in 0..n {
        let len = 1 + rng.below(12) as usize;
        let toks: Vec<&str> = (0..len).map(|_| *rng.pick(TOKENS)).collect();
        let sep = if rng.chance(1, 4) { "" } else { " " };
        emit_src(em, &toks.join(sep), "nt=1;kind=rnd-tokens");
    }
    // grammar-generated valid expressions and their single-token mutations
    let (_, tys) = extreme_ctx(&mut rng, false);
    for _ in 0..(n / 2) {
        let depth = 1 + rng.below(7) as u32;
        let src = {
            let mut g = Gen { rng: &mut rng, vars: tys.clone(), idfns: vec!["idf".into()], wrap_pct: 5, boundary_pct: 30, macros: true };
            if g.rng.chance(1, 2) {
                let t = g.rand_ty(1);
                g.typed(&t, depth)
            } else {
                g.untyped(depth)
            }
        };
        emit_src(em, &src, "nt=1;kind=valid");
        let toks = rough_tokens(&src);
        if toks.is_empty() {
            continue;
        }
        for _ in 0..3 {
            let mut t2 = toks.clone();
            let i = rng.below(t2.len() as u64) as usize;
            match rng.below(4) {
                0 => {
                    t2.remove(i);
                }
                1 => t2.insert(i, rng.pick(TOKENS).to_string()),
                2 => t2[i] = rng.pick(TOKENS).to_string(),
                _ => t2.truncate(i),
            }
            emit_src(em, &t2.join(" "), "nt=1;kind=mutated");
        }
    }
}
