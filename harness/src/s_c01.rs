//! C01: compiling any source text ends in a program or positioned errors.
//! Streams: exhaustive token strings over small alphabets, random characters, random token
//! sequences, grammar-generated valid expressions and their single-token mutations.
use crate::gen::*;
use crate::rng::Rng;
use crate::wire::*;
use crate::{guarded, Emit};

/// Parses `src` with the real parser; wire outcome plus a monitor of the error list.
pub fn parse_impl(src: &str) -> String {
    let s = src.to_string();
    guarded(move || match cel_parser::Parser::default().parse(&s) {
        Ok(e) => format!("(ok {})", sx_expr(&e)),
        Err(errs) => {
            // every reported error renders to non-empty text and points inside the source
            if errs.errors.is_empty() {
                return "(bad-errors empty-list)".into();
            }
            let lines: Vec<&str> = s.split('\n').collect();
            for e in &errs.errors {
                if format!("{}", e).is_empty() || e.msg.is_empty() {
                    return "(bad-errors empty-text)".into();
                }
                let (l, c) = e.pos;
                if l < 1 || l as usize > lines.len() {
                    return format!("(bad-errors line-out-of-source {} {})", l, c);
                }
                // columns count characters (ANTLR's charPositionInLine does)
                let len = lines[l as usize - 1].chars().count() as isize;
                if c < 1 || c > len + 1 {
                    return format!("(bad-errors column-out-of-source {} {})", l, c);
                }
            }
            if format!("{}", errs).is_empty() {
                return "(bad-errors empty-text)".into();
            }
            "(reject)".into()
        }
    })
}

pub fn emit_src(em: &mut Emit, src: &str, tags: &str) {
    let req = format!("(compile {})", sx_str(src));
    em.case(&req, &parse_impl(src), tags, src);
}

/// `Program::compile` (the entry point of the interpreter crate) gives the parser's answer for
/// exactly the text it was given: accepted iff the parser accepts, with the parser's tree.
pub fn emit_compile_law(em: &mut Emit, src: &str) {
    let s = src.to_string();
    let law = guarded(move || {
        let parsed = cel_parser::Parser::default().parse(&s);
        let compiled = cel_interpreter::Program::compile(&s);
        match (parsed, compiled) {
            (Ok(e), Ok(p)) => {
                if format!("{:?}", p) == format!("Program {{ expression: {:?} }}", e) { "(bool true)".into() }
                else { format!("(law-violated program-differs-from-parse {:?})", p) }
            }
            (Err(_), Err(_)) => "(bool true)".into(),
            (Ok(_), Err(_)) => "(law-violated compile-rejects-what-the-parser-accepts)".into(),
            (Err(_), Ok(p)) => format!("(law-violated compile-accepts-what-the-parser-rejects {:?})", p),
        }
    });
    em.case("(echo (bool true))", &law, "nt=1;kind=law-compile", src);
}

fn enumerate(em: &mut Emit, alpha: &[&str], len: usize, sep: &str, kind: &str) {
    let mut idx = vec![0usize; len];
    loop {
        let toks: Vec<&str> = idx.iter().map(|&i| alpha[i]).collect();
        let src = toks.join(sep);
        emit_src(em, &src, &format!("nt={};kind={}", (len >= 2) as u8, kind));
        let mut k = len;
        loop {
            if k == 0 {
                return;
            }
            k -= 1;
            idx[k] += 1;
            if idx[k] < alpha.len() {
                break;
            }
            idx[k] = 0;
        }
    }
}

const A16: &[&str] = &["a", "1", "'s'", "+", "-", "!", "(", ")", "[", "]", "{", "}", ".", ",", "?", ":"];
const A_OPS: &[&str] = &["a", "b", "1", "&&", "||", "==", "<", "in", "*", "-", "!", "(", ")", "?", ":", "."];
const A_CALL: &[&str] = &["f", "x", "1", "(", ")", ",", ".", "has", "all", "map", "[", "]", "{", "}", ":", "T"];
const A_NUM: &[&str] = &["1", "0x", "1u", "1.5", ".5", "e", "e5", "-", ".", "u", "0", "x1", "+", "1e", "9223372036854775808", "a"];
const A_QUOTE: &[&str] = &["\"", "'", "\\", "a", "r", "b", "n", "\n", "x41", "\"\"\"", "'''", "u0041", " ", "`", "R", "0"];

const TOKENS: &[&str] = &[
    "a", "b", "x", "f", "size", "has", "all", "exists", "exists_one", "map", "filter", "in", "true", "false",
    "null", "1", "0", "42", "1u", "0x1F", "1.5", "2e10", ".5", "'s'", "\"d\"", "r'raw'", "b'by'", "'''t'''",
    "+", "-", "*", "/", "%", "==", "!=", "<", "<=", ">", ">=", "&&", "||", "!", "?", ":", ".", ",", "(", ")", "[",
    "]", "{", "}", "`esc.id`", "// c\n", "\n", "\t", "T", ".?", "[?",
];

fn random_chars(rng: &mut Rng, n: usize) -> String {
    let mut s = String::new();
    for _ in 0..n {
        let c = match rng.below(20) {
            0 => char::from_u32(rng.below(0x20) as u32).unwrap(),
            1 => *rng.pick(&['"', '\'', '\\', '`']),
            2 => *rng.pick(&['é', 'ß', '😀', '\u{ffff}', '\u{7f}', '\u{a0}', 'µ']),
            3 => char::from_u32(0x80 + rng.below(0x700) as u32).unwrap_or('x'),
            4..=7 => *rng.pick(&['(', ')', '[', ']', '{', '}', '.', ',', '?', ':', '+', '-', '*', '/', '%', '!', '=', '<', '>', '&', '|']),
            8..=10 => (b'0' + rng.below(10) as u8) as char,
            11 => ' ',
            _ => (b'a' + rng.below(26) as u8) as char,
        };
        s.push(c);
    }
    s
}

/// Splits a valid source into rough tokens for mutation (identifier/number runs, quoted
/// strings, operator characters).
fn rough_tokens(src: &str) -> Vec<String> {
    let cs: Vec<char> = src.chars().collect();
    let mut out = Vec::new();
    let mut i = 0;
    while i < cs.len() {
        let c = cs[i];
        if c.is_whitespace() {
            i += 1;
        } else if c.is_alphanumeric() || c == '_' {
            let st = i;
            while i < cs.len() && (cs[i].is_alphanumeric() || cs[i] == '_' || (cs[i] == '.' && i + 1 < cs.len() && cs[i + 1].is_ascii_digit() && cs[st].is_ascii_digit())) {
                i += 1;
            }
            // bytes / raw prefixes stay attached to their quote
            if i < cs.len() && (cs[i] == '\'' || cs[i] == '"') && i - st <= 2 {
                let q = cs[i];
                i += 1;
                while i < cs.len() && cs[i] != q {
                    if cs[i] == '\\' {
                        i += 1;
                    }
                    i += 1;
                }
                i += 1;
            }
            out.push(cs[st..i.min(cs.len())].iter().collect());
        } else if c == '\'' || c == '"' {
            let st = i;
            i += 1;
            while i < cs.len() && cs[i] != c {
                if cs[i] == '\\' {
                    i += 1;
                }
                i += 1;
            }
            i += 1;
            out.push(cs[st..i.min(cs.len())].iter().collect());
        } else {
            let two: String = cs[i..(i + 2).min(cs.len())].iter().collect();
            if ["&&", "||", "==", "!=", "<=", ">="].contains(&two.as_str()) {
                out.push(two);
                i += 2;
            } else {
                out.push(c.to_string());
                i += 1;
            }
        }
    }
    out
}


/// A quoted literal with escapes of every kind, valid and invalid (surrogates, values past the
/// last code point, short digit runs, octal overflow), in any prefix / quote style.
pub fn escape_literal(rng: &mut Rng) -> String {
    let prefix = *rng.pick(&["", "", "", "b", "r", "br", "B", "R", "rb", "bR"]);
    let q = *rng.pick(&["'", "\"", "'''", "\"\"\""]);
    let mut body = String::new();
    for _ in 0..rng.below(4) {
        match rng.below(12) {
            0 => body.push(*rng.pick(&['a', 'z', ' ', '0', 'é', '😀', '\u{80}', '\u{7ff}', '\u{800}', '\u{ffff}'])),
            1 => {
                body.push('\\');
                body.push(*rng.pick(&['a', 'b', 'f', 'n', 'r', 't', 'v', '\\', '?', '"', '\'', '`', 'q', 'e', ' ', 'X', 'N']));
            }
            2 | 3 => {
                let v: u32 = *rng.pick(&[0, 0x41, 0x7f, 0x80, 0xff, 0x7ff, 0x800, 0xd7ff, 0xd800, 0xdbff, 0xdc00, 0xdfff, 0xe000, 0xfffd, 0xffff]);
                body.push_str(&format!("\\u{:04x}", v));
            }
            4 | 5 => {
                let v: u32 = *rng.pick(&[0, 0x41, 0x80, 0xd7ff, 0xd800, 0xdfff, 0xe000, 0xffff, 0x10000, 0x1f600, 0x10ffff, 0x110000, 0x7fffffff, 0xffffffff]);
                if rng.chance(1, 2) {
                    body.push_str(&format!("\\U{:08x}", v));
                } else {
                    body.push_str(&format!("\\U{:08X}", v));
                }
            }
            6 => body.push_str(&format!("\\x{:02x}", rng.below(256))),
            7 => body.push_str(&format!("\\{:03o}", rng.below(512))),
            8 => body.push_str(*rng.pick(&["\\u12", "\\U0001", "\\x4", "\\x", "\\u", "\\7", "\\47", "\\8", "\\uD8", "\\ud800\\udc00", "\\xg0", "\\u00zz"])),
            9 => body.push_str(&format!("\\u{:04X}", 0xd800 + rng.below(0x800) as u32)),
            10 => body.push_str(&format!("\\U{:08x}", rng.below(0x120000) as u32)),
            _ => body.push_str(&format!("\\u{:04x}", rng.below(0x10000) as u32)),
        }
    }
    format!("{}{}{}{}", prefix, q, body, q)
}

const GAPS: &[&str] = &["", "", " ", "\n", "\n  ", "\r\n", "\t", " \n", "// c\n", "\n\n", "  ", "\n\t"];
const PREFIXES: &[&str] = &["", "", "", "1 + ", "'ééé' + ", "'éééééééé'+", "'日本語' +\n'😀😀😀😀' + ", "'''a\nb''' + ", "\"\"\"\n\n\"\"\" +\n", "x.y +\n", "[1,\n2] +", "'😀'+"];

/// A source whose only error is a macro-expansion error, with the byte offset of the argument
/// the error is about (that argument is a single token, so the position is that token's).
fn macro_error_source(rng: &mut Rng) -> (String, usize) {
    let mut s = String::new();
    s.push_str(*rng.pick(PREFIXES));
    let gap = |rng: &mut Rng| *rng.pick(GAPS);
    let start;
    if rng.chance(1, 3) {
        s.push_str("has(");
        s.push_str(gap(rng));
        start = s.len();
        s.push_str(*rng.pick(&["m", "x1", "1", "'é'", "2u", "true", "null", "b'x'", "1.5"]));
        s.push_str(gap(rng));
        s.push(')');
    } else {
        s.push_str(*rng.pick(&["x", "[1]", "a.b", "'s'"]));
        s.push_str(gap(rng));
        s.push('.');
        s.push_str(*rng.pick(&["all", "exists", "exists_one", "map", "filter"]));
        s.push('(');
        s.push_str(gap(rng));
        start = s.len();
        s.push_str(*rng.pick(&["1", "'é'", "2u", "true", "null", "1.5", "b'x'", "\"v\""]));
        s.push_str(gap(rng));
        s.push(',');
        s.push_str(gap(rng));
        s.push_str(*rng.pick(&["true", "v", "1"]));
        s.push_str(gap(rng));
        s.push(')');
    }
    s.push_str(*rng.pick(&["", "", " ", "\n", " + 1", "\n+\n1"]));
    (s, start)
}

/// The position the real parser reports for the macro error of `src`.
fn macro_pos_impl(src: &str) -> String {
    let s = src.to_string();
    guarded(move || match cel_parser::Parser::default().parse(&s) {
        Ok(_) => "(accepted)".into(),
        Err(errs) => {
            let m: Vec<_> = errs
                .errors
                .iter()
                .filter(|e| e.msg == "invalid argument to has() macro" || e.msg == "argument must be a simple name")
                .collect();
            if m.len() != 1 || errs.errors.len() != 1 {
                return format!("(other-errors {})", errs.errors.len());
            }
            format!("(pos {} {})", m[0].pos.0, m[0].pos.1)
        }
    })
}

pub fn emit_macro_pos(em: &mut Emit, src: &str, start: usize, kind: &str) {
    em.case(&format!("(posfor {} {})", sx_str(src), start), &macro_pos_impl(src), &format!("nt=1;kind={}", kind), src);
}

pub fn run(em: &mut Emit, thorough: bool, seed: u64) {
    // witnesses of the defects fixed earlier stay in the stream
    for s in ["", "1 +", "ä", "\"abc", "!-a", "f(1,)", "{1:", "a &&", "$", ") (", "in", "a.in", "/* c */ a", "'\\q'",
              "!!a", "--a", "-0x10", "\"\\'\"", "'''it''s'''", "r'a\\'", "b\"\\n\"", "b'''abc'''", "bR\"x\"", "\"\\X41\"",
              "a?b?c:d:e", "a<b==c", "[,]", "{,}", "[a,]", "{k:v,}", ".a(1)", ".a", "x.map(1)", "has(a,b)", "has(a)",
              "1.e5", "5.", "rb\"x\"", "\"\"\"a\"\"\"b\"\"\"", "'\\08'", "'\\400'", "T{,}", "T{a:1,}", "a.b{c:1}", ".T{}",
              "x.?y", "x[?1]", "[?a]", "{?a:1}", "T{?a:1}", "a.`b c`", "a.`b`(1)", "`a`", "--1", "---1", "-1.f()", "a--1",
              "!-1", "-!a", "- 1u", "-.5", "9223372036854775808", "-9223372036854775808", "18446744073709551616u",
              "1e400", "1e-400", "0.0000000000000000000000000000001e31", "1e99999999999999999999", "0x", "0xg", "1u2",
              "a\n+\nb", "a // c", "// only", "a /", "&", "|", "=", "a = b", "a.b.c(d)[e].f", "[[[[1]]]]", "((((a))))"] {
        emit_src(em, s, "nt=1;kind=corpus");
    }
    // characters that are white space to Unicode but not to CEL (and the other way round), at
    // either end of and inside valid expressions: through the parser and through Program::compile
    for ws in ["\u{a0}", "\u{2003}", "\u{3000}", "\u{2028}", "\u{2029}", "\u{85}", "\u{b}", "\u{feff}", "\u{200b}", "\u{1680}", "\u{c}", "\t", "\r", "\n", " ",
               "\u{1c}", "\u{1f}", "\u{0}"] {
        for e in ["1 + 2", "[1, 2].map(x, x * 2)", "a", "'s'", "f(x)"] {
            for src in [format!("{}{}", ws, e), format!("{}{}", e, ws), format!("{}{}{}", ws, e, ws), e.replacen(' ', ws, 1), format!("{}{}", e, ws.repeat(3))] {
                emit_src(em, &src, "nt=1;kind=unicode-space");
                emit_compile_law(em, &src);
            }
        }
    }
    for s in ["", "1 +", "a", " a ", "\n1\n", "[1, 2].map(x, x * 2)", "has(a.b)", "x.map(1)", "'\\q'", "1 + ", " ", "\t", "a b", "1u", "-9223372036854775808"] {
        emit_compile_law(em, s);
    }
    // an error about an argument that is itself a failed macro (the placeholder has no offset)
    for s in ["has(has(x))", "has(x.all(1, y))", "[1].map(has(1), 2)", "x.all(has(1), true)", "has(has(has(1)))",
              "x.map(1, 2).map(3, 4)", "has(\n has(x))", "'é' + has(has(x))"] {
        emit_src(em, s, "nt=1;kind=corpus-cascade");
    }
    for s in ["\"\\uD800\"", "'\\udfff'", "b\"\\udc00\"", "\"\\U0000D800\"", "\"\\U00110000\"", "'\\U0010FFFF'", "'\\ud7ff\\ue000'",
              "\"\\UFFFFFFFF\"", "'''\\uDBFF'''", "b'\\u0080'", "'\\u12'", "'\\777'", "'\\377'", "b'\\400'", "r'\\uD800'", "size('\\uD800')"] {
        emit_src(em, s, "nt=1;kind=corpus-escapes");
    }
    for (s, st) in [("has(m)", 4usize), ("has(\nm)", 5), ("has(\n  m)", 7), ("has(\r\nm)", 6), ("'ééé' +\nhas(m)", 15), ("'ééé' + has(1)", 15),
                    ("x.all(1, true)", 6), ("x.map(\n'é', 1)", 7), ("x.\nfilter(\n\n2u,\n1)", 12), ("'''a\nb''' + has(\nm)", 17),
                    ("has(\nm)\n", 5), ("\nhas(m)", 5),
                    // several CR LF line ends before the error, the argument at the very end of the last line
                    ("\r\n\r\n\r\nhas(1)", 10), ("1 +\r\n2 +\r\nhas(1)", 14), ("x\r\n.\r\nall(1, true)", 10), ("\r\n\r\n\r\n\r\n\r\n\r\nhas(m)", 16),
                    ("'é' +\r\n'é' +\r\nhas(2)", 20), ("\r\r\nhas(1)", 7), ("\n\r\n\nhas(1)", 8)] {
        emit_src(em, s, "nt=1;kind=corpus-macro-pos");
        emit_macro_pos(em, s, st, "corpus-macro-pos");
    }
    // nesting up to depth 32 of every bracket kind, balanced and unbalanced by one, and sources
    // up to 4 KiB
    for depth in 1..=32usize {
        for (o, c) in [("(", ")"), ("[", "]"), ("{1: ", "}"), ("f(", ")"), ("x.m(", ")"), ("[", "][0]"), ("-(", ")"), ("!(", ")")] {
            let inner = "a";
            let full = format!("{}{}{}", o.repeat(depth), inner, c.repeat(depth));
            emit_src(em, &full, "nt=1;kind=nesting");
            emit_src(em, &format!("{}{}{}", o.repeat(depth), inner, c.repeat(depth - 1)), "nt=1;kind=nesting-open");
            emit_src(em, &format!("{}{}{}", o.repeat(depth - 1), inner, c.repeat(depth)), "nt=1;kind=nesting-close");
        }
        let mixed: String = (0..depth).map(|i| ["(", "[", "{1: ", "f("][i % 4]).collect();
        let mixed_c: String = (0..depth).rev().map(|i| [")", "]", "}", ")"][i % 4]).collect();
        emit_src(em, &format!("{}a{}", mixed, mixed_c), "nt=1;kind=nesting");
        let cond = format!("{}a{}", "c ? (".repeat(depth), " : b)".repeat(depth));
        emit_src(em, &cond, "nt=1;kind=nesting");
    }
    for n in [100usize, 255, 256, 500, 1000] {
        emit_src(em, &(0..n).map(|i| format!("v{}", i % 10)).collect::<Vec<_>>().join(" + "), "nt=1;kind=long");
        emit_src(em, &format!("[{}]", (0..n).map(|i| i.to_string()).collect::<Vec<_>>().join(", ")), "nt=1;kind=long");
        emit_src(em, &format!("'{}'", "é".repeat(n)), "nt=1;kind=long");
        emit_src(em, &format!("{} +", (0..n).map(|i| format!("v{}", i % 10)).collect::<Vec<_>>().join(" * ")), "nt=1;kind=long");
        emit_src(em, &format!("{}{}", "a".repeat(n), " ".repeat(n)), "nt=1;kind=long");
    }
    // every macro name with every argument count, as a global and as a receiver call, with
    // identifier and non-identifier first arguments
    for name in ["has", "all", "exists", "exists_one", "existsOne", "map", "filter"] {
        for arity in 0..=6usize {
            for first in ["v", "1", "a.b"] {
                let args: Vec<String> = (0..arity).map(|i| if i == 0 { first.to_string() } else { format!("a{}", i) }).collect();
                for src in [format!("{}({})", name, args.join(", ")), format!("x.{}({})", name, args.join(", ")),
                            format!("[x.{}({})]", name, args.join(", ")), format!("x.y.{}({}).{}({})", name, args.join(", "), name, args.join(", "))] {
                    emit_src(em, &src, "nt=1;kind=macro-arity");
                }
            }
        }
    }
    // exhaustive token strings
    let maxlen = if thorough { 5 } else { 4 };
    for len in 1..=maxlen {
        enumerate(em, A16, len, " ", "exh-a16");
    }
    for len in 1..=(if thorough { 4 } else { 3 }) {
        enumerate(em, A_OPS, len, " ", "exh-ops");
        enumerate(em, A_CALL, len, " ", "exh-call");
        enumerate(em, A_NUM, len, "", "exh-num-nosep");
        enumerate(em, A_QUOTE, len, "", "exh-quote-nosep");
        enumerate(em, A16, len, "", "exh-a16-nosep");
    }
    let mut rng = Rng::new(seed ^ 0xC01);
    let n = if thorough { 300_000 } else { 8_000 };
    // random characters
    for _ in 0..n {
        let len = 1 + rng.below(24) as usize;
        let s = random_chars(&mut rng, len);
        emit_src(em, &s, "nt=1;kind=rnd-chars");
    }
    // random token sequences
    for _ in 0..n {
        let len = 1 + rng.below(12) as usize;
        let toks: Vec<&str> = (0..len).map(|_| *rng.pick(TOKENS)).collect();
        let sep = if rng.chance(1, 4) { "" } else { " " };
        emit_src(em, &toks.join(sep), "nt=1;kind=rnd-tokens");
        if rng.chance(1, 8) {
            emit_compile_law(em, &toks.join(sep));
        }
    }
    // literals with every kind of escape, alone and inside expressions
    for _ in 0..n {
        let lit = escape_literal(&mut rng);
        let src = match rng.below(5) {
            0 => format!("size({})", lit),
            1 => format!("{} + {}", lit, escape_literal(&mut rng)),
            2 => format!("[{}, {}]", lit, *rng.pick(TOKENS)),
            _ => lit,
        };
        emit_src(em, &src, "nt=1;kind=escapes");
    }
    // macro-expansion errors: the reported position is the model's pos_for at the argument
    for _ in 0..(n / 2) {
        let (src, start) = macro_error_source(&mut rng);
        emit_src(em, &src, "nt=1;kind=macro-pos-src");
        emit_macro_pos(em, &src, start, "macro-pos");
    }
    // grammar-generated valid expressions and their single-token mutations
    let (_, tys) = extreme_ctx(&mut rng, false);
    for _ in 0..(n / 2) {
        let depth = 1 + rng.below(7) as u32;
        let src = {
            let mut g = Gen { rng: &mut rng, vars: tys.clone(), idfns: vec!["idf".into()], wrap_pct: 5, boundary_pct: 30, macros: true };
            if g.rng.chance(1, 2) {
                let t = g.rand_ty(1);
                g.typed(&t, depth)
            } else {
                g.untyped(depth)
            }
        };
        emit_src(em, &src, "nt=1;kind=valid");
        let toks = rough_tokens(&src);
        if toks.is_empty() {
            continue;
        }
        for _ in 0..3 {
            let mut t2 = toks.clone();
            let i = rng.below(t2.len() as u64) as usize;
            match rng.below(4) {
                0 => {
                    t2.remove(i);
                }
                1 => t2.insert(i, rng.pick(TOKENS).to_string()),
                2 => t2[i] = rng.pick(TOKENS).to_string(),
                _ => t2.truncate(i),
            }
            emit_src(em, &t2.join(" "), "nt=1;kind=mutated");
        }
    }
}
