//! C20: receiver style vs function style for every receiver built-in; host functions of every
//! menu signature called with 0..arity+2 arguments of matching and mismatching kinds.
use crate::ctxgen::*;
use crate::prog::*;
use crate::rng::Rng;
use crate::s_c09::value_set;
use crate::wire::*;
use crate::{guarded, Emit};
use cel_interpreter::{Program, Value};
use std::sync::Arc;

const RECV_BUILTINS: &[(&str, usize)] = &[
    ("size", 0), ("contains", 1), ("string", 0), ("double", 0), ("int", 0), ("uint", 0), ("startsWith", 1),
    ("endsWith", 1), ("matches", 1), ("getFullYear", 0), ("getMonth", 0), ("getDayOfYear", 0), ("getDayOfMonth", 0),
    ("getDate", 0), ("getDayOfWeek", 0), ("getHours", 0), ("getMinutes", 0), ("getSeconds", 0), ("getMilliseconds", 0),
];

fn arg_exprs() -> Vec<(&'static str, &'static str)> {
    // (source, kind)
    vec![
        ("1", "int"), ("2u", "uint"), ("1.5", "dbl"), ("'s'", "str"), ("b'b'", "bytes"), ("true", "bool"), ("[1]", "list"),
        ("null", "null"), ("{1: 2}", "map"), ("vdur", "dur"), ("vts", "ts"), ("foo", "ident-undeclared"), ("vi", "ident"),
        ("(1 / 0)", "error"),
        // long values (what an error message about a wrongly typed argument has to render)
        ("'aaaaaaaaaaaaaaaaaaaaaaaaaaaaaaaaaaaaaaaaaaaaaaaaaaaaaaaaaaaaaaaaaaaaaaaaaaaaaaaaaaaaaaaaaaaaaaaaaaaaaaaaaaaaaaaaaaaaaaaaaaaaaaaaaaaaaaaaaaaaaaaaaaaaaaaaaaaaaaaaaaaa'", "str-long"),
        ("'日本語日本語日本語日本語日本語日本語日本語日本語日本語日本語日本語日本語日本語日本語日本語日本語日本語日本語日本語日本語'", "str-long-cjk"),
        ("'a日本語日本語日本語日本語日本語日本語日本語日本語日本語日本語日本語日本語日本語日本語日本語日本語日本語日本語日本語日本語'", "str-long-cjk1"),
        ("'ab日本語日本語日本語日本語日本語日本語日本語日本語日本語日本語日本語日本語日本語日本語日本語日本語日本語日本語日本語日本語'", "str-long-cjk2"),
        ("['é😀é😀é😀é😀é😀é😀é😀é😀é😀é😀é😀é😀é😀é😀é😀é😀é😀é😀é😀é😀é😀é😀é😀é😀é😀é😀é😀é😀é😀é😀é😀é😀', 1, 'ééééééééééééééééééééééééééééééééééééééééééééééééééééééééééééééééééééééé']", "list-long"),
        ("b'\\xff\\xfe\\xfd\\xfc\\xfb\\xfa\\xff\\xfe\\xfd\\xfc\\xfb\\xfa\\xff\\xfe\\xfd\\xfc\\xfb\\xfa\\xff\\xfe\\xfd\\xfc\\xfb\\xfa\\xff\\xfe\\xfd\\xfc\\xfb\\xfa\\xff\\xfe\\xfd\\xfc\\xfb\\xfa\\xff\\xfe\\xfd\\xfc\\xfb\\xfa'", "bytes-long"),
    ]
}

pub fn run(em: &mut Emit, thorough: bool, seed: u64) {
    let mut vals = value_set();
    // receivers that hold an entry named like the function called on them
    for keys in [vec!["size", "b"], vec!["contains", "startsWith", "endsWith", "matches"], vec!["string", "int", "uint", "double", "bytes"],
                 vec!["getFullYear", "getHours", "getDate", "max", "min"]] {
        let m: std::collections::HashMap<cel_interpreter::objects::Key, Value> =
            keys.iter().enumerate().map(|(i, k)| (cel_interpreter::objects::Key::String(Arc::new(k.to_string())), Value::Int(i as i64 + 10))).collect();
        vals.push(Value::Map(cel_interpreter::objects::Map { map: Arc::new(m) }));
    }
    let mut rng = Rng::new(seed ^ 0xC20);
    // (a) receiver style vs function style
    let args: Vec<Value> = vec![
        Value::String(Arc::new("a".into())), Value::String(Arc::new("".into())), Value::Int(1), Value::UInt(1),
        Value::Null, Value::Bytes(Arc::new(vec![97])), Value::List(Arc::new(vec![Value::Int(1)])), Value::Float(1.0),
        Value::Bool(true),
    ];
    for (f, nargs) in RECV_BUILTINS {
        for r in &vals {
            let arglist: Vec<Option<&Value>> = if *nargs == 0 { vec![None] } else { args.iter().map(Some).collect() };
            for a in arglist {
                if !thorough && *nargs == 1 && rng.chance(1, 2) {
                    continue;
                }
                let mut vars = vec![("r".to_string(), r.clone())];
                if let Some(a) = a {
                    vars.push(("a".to_string(), a.clone()));
                }
                let spec = CtxSpec { vars, funs: vec![] };
                let (recv, func) = if a.is_some() {
                    (format!("r.{}(a)", f), format!("{}(r, a)", f))
                } else {
                    (format!("r.{}()", f), format!("{}(r)", f))
                };
                emit_program(em, &recv, &spec, "nt=1;kind=recv-style");
                emit_program(em, &func, &spec, "nt=1;kind=func-style");
                let (s2, rc, fc) = (spec.clone(), recv.clone(), func.clone());
                let law = guarded(move || {
                    let ctx = s2.build();
                    let a = Program::compile(&rc).unwrap().execute(&ctx);
                    let b = Program::compile(&fc).unwrap().execute(&ctx);
                    let same = match (&a, &b) {
                        (Ok(x), Ok(y)) => sx_value(x) == sx_value(y),
                        (Err(x), Err(y)) => sx_err(x) == sx_err(y),
                        _ => false,
                    };
                    if same { "(bool true)".into() } else { format!("(law-violated receiver-vs-function {} {})", sx_result(&a), sx_result(&b)) }
                });
                em.case("(echo (bool true))", &law, "nt=1;kind=law-recv-equiv", &format!("{} vs {} [{}]", recv, func, spec.describe()));
            }
        }
    }
    // (b) host functions: every menu signature, 0..arity+2 arguments, matching and mismatching
    let base_vars = vec![
        ("vi".to_string(), Value::Int(5)),
        ("vdur".to_string(), Value::Duration(chrono::Duration::seconds(3))),
        ("vts".to_string(), Value::Timestamp(chrono::DateTime::parse_from_rfc3339("2020-01-02T03:04:05Z").unwrap())),
    ];
    let exprs = arg_exprs();
    for (kind, params, _) in MENU {
        let arity = params.split(") (").count().min(9);
        let arity = if params.is_empty() { 0 } else { params.matches('(').count().max(1) + params.split_whitespace().filter(|w| *w == "args" || *w == "ident" || *w == "expr").count() };
        let _ = arity;
        for name in ["hf", "size", "_hf"] {
            let spec = CtxSpec { vars: base_vars.clone(), funs: vec![HostFn { kind, name: name.to_string() }] };
            let maxargs = 11usize.min(params.split_whitespace().count() + 2);
            for n in 0..=maxargs.min(4).max(if kind.starts_with("hv") { maxargs } else { 0 }) {
                let reps = if thorough { 12 } else { 4 };
                for _ in 0..reps {
                    let picked: Vec<&(&str, &str)> = (0..n).map(|_| rng.pick(&exprs)).collect();
                    let argsrc: Vec<&str> = picked.iter().map(|p| p.0).collect();
                    let kinds: Vec<&str> = picked.iter().map(|p| p.1).collect();
                    let src = format!("{}({})", name, argsrc.join(", "));
                    let tags = format!("nt=1;kind=host-{}-{}-{}", kind, name, kinds.join("+"));
                    emit_program(em, &src, &spec, &tags);
                    if n >= 1 {
                        let src2 = format!("({}).{}({})", argsrc[0], name, argsrc[1..].join(", "));
                        emit_program(em, &src2, &spec, &format!("{}-recv", tags));
                    }
                }
            }
        }
    }
}
