//! C02: executing any program against any context returns a value or an error; the value
//! operators applied directly to arbitrary values never panic.
use crate::ctxgen::*;
use crate::prog::*;
use crate::rng::Rng;
use crate::s_c09::value_set;
use std::sync::Arc;
use crate::s_eval::{run_profile, Profile};
use crate::wire::*;
use crate::{guarded, Emit};
use cel_interpreter::Value;

pub fn run(em: &mut Emit, thorough: bool, seed: u64) {
    // every pair of the boundary value set under each operator, applied directly to Value
    let mut vals = value_set();
    vals.push(Value::Timestamp(chrono::DateTime::<chrono::Utc>::MAX_UTC.fixed_offset()));
    vals.push(Value::Timestamp(chrono::DateTime::<chrono::Utc>::MIN_UTC.fixed_offset()));
    vals.push(Value::Timestamp(chrono::DateTime::<chrono::Utc>::MIN_UTC.with_timezone(&chrono::FixedOffset::east_opt(-3600).unwrap())));
    vals.push(Value::Timestamp(chrono::DateTime::<chrono::Utc>::MAX_UTC.with_timezone(&chrono::FixedOffset::east_opt(86399).unwrap())));
    vals.push(Value::Duration(chrono::Duration::nanoseconds(i64::MAX)));
    vals.push(Value::Duration(chrono::Duration::nanoseconds(i64::MIN + 1)));
    vals.push(Value::Duration(chrono::Duration::seconds(1)));
    for a in &vals {
        for b in &vals {
            for op in ["add", "sub", "mul", "div", "rem"] {
                let (a2, b2) = (a.clone(), b.clone());
                let imp = guarded(move || {
                    sx_result(&match op {
                        "add" => a2 + b2,
                        "sub" => a2 - b2,
                        "mul" => a2 * b2,
                        "div" => a2 / b2,
                        _ => a2 % b2,
                    })
                });
                let special = matches!(a, Value::Duration(_) | Value::Timestamp(_) | Value::Int(_) | Value::UInt(_));
                em.case(
                    &format!("(binop {} {} {})", op, sx_value_iter_order(a), sx_value_iter_order(b)),
                    &imp,
                    &format!("nt={};kind=direct-{}", special as u8, op),
                    &format!("{} {} {}", sx_value(a), op, sx_value(b)),
                );
            }
        }
    }
    // operands in every ownership state a host can produce: uniquely owned, shared, and uniquely
    // owned while a Weak observer exists (Arc::get_mut then fails although strong_count is 1)
    for n in [0usize, 1, 3, 40] {
        for m in [0usize, 2] {
            for kind in 0..3 {
                for (weak_l, weak_r, share_l) in [(true, false, false), (false, true, false), (true, true, false), (false, false, true), (true, false, true)] {
                    let mk = |len: usize, base: i64| -> Value {
                        match kind {
                            0 => Value::List(Arc::new((0..len as i64).map(|i| Value::Int(base + i)).collect())),
                            1 => Value::String(Arc::new("ab".repeat(len))),
                            _ => Value::Bytes(Arc::new(vec![7u8; len])),
                        }
                    };
                    let (a, b) = (mk(n, 0), mk(m, 100));
                    let req = format!("(binop add {} {})", sx_value_iter_order(&a), sx_value_iter_order(&b));
                    let disp = format!("{} + {} (weak observers: {} {}, shared left: {})", sx_value(&a), sx_value(&b), weak_l, weak_r, share_l);
                    let imp = guarded(move || {
                        let observe = |v: &Value| -> Box<dyn std::any::Any> {
                            match v {
                                Value::List(x) => Box::new(Arc::downgrade(x)),
                                Value::String(x) => Box::new(Arc::downgrade(x)),
                                Value::Bytes(x) => Box::new(Arc::downgrade(x)),
                                _ => Box::new(()),
                            }
                        };
                        let _wl = if weak_l { Some(observe(&a)) } else { None };
                        let _wr = if weak_r { Some(observe(&b)) } else { None };
                        let _keep = if share_l { Some(a.clone()) } else { None };
                        sx_result(&(a + b))
                    });
                    em.case(&req, &imp, "nt=1;kind=direct-add-ownership", &disp);
                }
            }
        }
    }
    // text-consuming built-ins, string indexing and comparison over strings that mix digits,
    // unit letters, signs and multi-byte characters at every position (held by the context, so
    // that no literal spelling is involved)
    let mut rng = Rng::new(seed ^ 0xC02);
    let chunks = ["1", "2", "0", ".", "-", "+", "h", "m", "s", "ms", "us", "\u{b5}s", "\u{3bc}s", "ns", "\u{b5}", "é", "€", "😀", "a", " ",
                  "e", "T", "Z", ":", "\u{0}", "\u{7f}", "\u{80}", "9223372036854775807", "inf", "nan", "0x", "u"];
    for _ in 0..(if thorough { 40_000 } else { 2_500 }) {
        let mk = |rng: &mut Rng| -> String { (0..(1 + rng.below(6))).map(|_| *rng.pick(&chunks)).collect() };
        let (sv, tv) = (mk(&mut rng), mk(&mut rng));
        let spec = CtxSpec {
            vars: vec![("s".into(), Value::String(Arc::new(sv.clone()))), ("t".into(), Value::String(Arc::new(tv))),
                       ("i".into(), Value::Int(rng.below(sv.len() as u64 + 2) as i64))],
            funs: vec![],
        };
        for p in ["duration(s)", "timestamp(s)", "int(s)", "uint(s)", "double(s)", "bytes(s)", "string(bytes(s))", "size(s)", "s[i]", "s[0]",
                  "s.contains(t)", "s.startsWith(t)", "s.endsWith(t)", "s + t", "s < t", "s == t", "[s, t].map(x, x[i])", "s in [t, s]",
                  "{s: 1}[t]", "duration(s + t)", "timestamp(t + s)"] {
            emit_program(em, p, &spec, "nt=1;kind=c02-text");
        }
    }
    // the same built-ins over long texts: digit runs beyond 64 and 128 bits, long fractions,
    // long exponents, long multi-byte runs
    for &n in &[20usize, 26, 39, 40, 41, 64, 130, 300] {
        for sv in [format!("1.{}s", "9".repeat(n)), "9".repeat(n), format!("0.{}1ms", "0".repeat(n)), format!("{}.5h", "1".repeat(n)),
                   "é".repeat(n), format!("a{}", "é".repeat(n)), "日".repeat(n), format!("a{}", "日".repeat(n)), format!("ab{}", "日".repeat(n)),
                   format!("{}u", "9".repeat(n)), format!("-{}", "9".repeat(n)), format!("1e{}", "9".repeat(n)),
                   format!("0.{}1", "0".repeat(n)), format!("{}.{}", "7".repeat(n), "3".repeat(n)), format!("1970-01-01T00:00:00.{}Z", "1".repeat(n)),
                   format!("{}e-{}", "1".repeat(n), n), format!("1{}s", "0".repeat(n.min(18))), format!("-2{}m", "0".repeat(n.min(17))),
                   format!("9{}h", "0".repeat(n.min(18)))] {
            let spec = CtxSpec {
                vars: vec![("s".into(), Value::String(Arc::new(sv.clone()))), ("t".into(), Value::String(Arc::new("s".to_string()))),
                           ("i".into(), Value::Int((n / 2) as i64))],
                funs: vec![],
            };
            for p in ["duration(s)", "timestamp(s)", "int(s)", "uint(s)", "double(s)", "bytes(s)", "string(bytes(s))", "size(s)", "s[i]",
                      "s.contains(t)", "s.endsWith(t)", "duration(s + t)", "duration(s + 'ns')", "double(s + s)", "s.matches(t)",
                      // a value of the wrong kind for the function: the error has to describe it
                      "s.getHours()", "getFullYear(s)", "[s, s].startsWith(t)", "t.endsWith([s])", "{s: s}.contains(1).size()", "bytes(s).getDate()"] {
                emit_program(em, p, &spec, "nt=1;kind=c02-text-long");
            }
        }
    }
    // every built-in that takes a timestamp or a duration, over the limit instants seen from
    // every kind of offset (the local date then lies beyond chrono's limit dates) and the limit
    // durations, in both call styles and inside a macro
    {
        let at = |t: chrono::DateTime<chrono::Utc>, o: i32| Value::Timestamp(t.with_timezone(&chrono::FixedOffset::east_opt(o).unwrap()));
        let (tmin, tmax) = (chrono::DateTime::<chrono::Utc>::MIN_UTC, chrono::DateTime::<chrono::Utc>::MAX_UTC);
        let mut ts = Vec::new();
        for o in [-86399, -3600, -1, 0, 1, 3600, 86399] {
            ts.push(at(tmin, o));
            ts.push(at(tmax, o));
            ts.push(at(tmin + chrono::Duration::days(1), o));
            ts.push(at(tmax - chrono::Duration::days(1), o));
        }
        let ds = [chrono::Duration::MAX, chrono::Duration::MIN, chrono::Duration::nanoseconds(i64::MAX), chrono::Duration::nanoseconds(i64::MIN + 1),
                  chrono::Duration::nanoseconds(1), chrono::Duration::days(1), chrono::Duration::days(-1)];
        for (i, t) in ts.iter().enumerate() {
            let d = ds[i % ds.len()];
            let spec = CtxSpec { vars: vec![("t".into(), t.clone()), ("d".into(), Value::Duration(d)), ("u".into(), ts[(i * 5 + 3) % ts.len()].clone())], funs: vec![] };
            for a in ["getFullYear", "getMonth", "getDayOfYear", "getDayOfMonth", "getDate", "getDayOfWeek", "getHours", "getMinutes", "getSeconds", "getMilliseconds"] {
                emit_program(em, &format!("t.{}()", a), &spec, "nt=1;kind=c02-time-limits");
                emit_program(em, &format!("{}(t)", a), &spec, "nt=1;kind=c02-time-limits");
                emit_program(em, &format!("[t, u].map(x, x.{}())", a), &spec, "nt=1;kind=c02-time-limits");
                emit_program(em, &format!("d.{}()", a), &spec, "nt=1;kind=c02-time-limits");
            }
            for p in ["string(t)", "timestamp(string(t))", "t + d", "t - d", "d + t", "t - u", "u - t", "t < u", "t == u", "string(d)", "duration(string(d))",
                      "d + d", "d - d", "timestamp(t)", "duration(d)", "int(t)", "max(t, u)", "min([t, u])", "[t, u, d].size()", "{'t': t}.t.getDayOfYear()",
                      "string(t - d)", "string(t + d)", "(t + d).getDayOfYear()", "(t - d).getDate()"] {
                emit_program(em, p, &spec, "nt=1;kind=c02-time-limits");
            }
        }
    }
    // library state that could outlive one call: many distinct valid patterns through `matches`
    // on one thread, in one program and in a sequence of programs (the patterns have no
    // metacharacters, so the model interprets them)
    {
        let pats: Vec<String> = (0..48).map(|i| format!("'k{}z'", i)).collect();
        let spec = CtxSpec { vars: vec![("s".into(), Value::String(Arc::new("k7z k33z k40z".to_string())))], funs: vec![] };
        emit_program(em, &format!("[{}].filter(p, s.matches(p))", pats.join(", ")), &spec, "nt=1;kind=c02-many-patterns");
        emit_program(em, &format!("[{}].map(p, 'k12z'.matches(p))", pats.join(", ")), &spec, "nt=1;kind=c02-many-patterns");
        for i in 0..80 {
            emit_program(em, &format!("s.matches('k{}z') || 'q{}'.matches('q{}')", i, i, i % 7), &spec, "nt=1;kind=c02-many-patterns");
        }
        emit_program(em, &format!("[{}].exists(p, s.matches(p))", pats.join(", ")), &spec, "nt=1;kind=c02-many-patterns");
        // beyond a thousand distinct patterns on one thread, in one execution
        let many: Vec<String> = (0..1100).map(|i| format!("'w{}y'", i)).collect();
        emit_program(em, &format!("[{}].filter(p, s.matches(p)).size()", many.join(", ")), &spec, "nt=1;kind=c02-many-patterns");
        emit_program(em, &format!("[{}].map(p, 'w1099y w512y'.matches(p)).filter(x, x).size()", many.join(", ")), &spec, "nt=1;kind=c02-many-patterns");
    }
    // host functions with every kind of extractor called with too few, enough and too many
    // arguments, in both call styles
    {
        let kinds = ["hident", "hident_v", "hv_ident", "hexpr", "hexpr_v", "hargs", "hthis", "hthis_v", "hthis_vv", "hthis_opt_i", "hthis_opt_s_v", "his", "hs2"];
        let spec = CtxSpec {
            vars: vec![("x".into(), Value::Int(1)), ("y".into(), Value::String(Arc::new("s".to_string())))],
            funs: kinds.iter().enumerate().map(|(i, k)| HostFn { kind: k, name: format!("hf{}", i) }).collect(),
        };
        for i in 0..kinds.len() {
            for args in ["", "x", "x, y", "x, y, 1", "y, x, 2, 3", "1 / 0", "x, 1 / 0", "zz", "x.y"] {
                emit_program(em, &format!("hf{}({})", i, args), &spec, "nt=1;kind=c02-host-arity");
                emit_program(em, &format!("x.hf{}({})", i, args), &spec, "nt=1;kind=c02-host-arity");
                emit_program(em, &format!("[x, y].map(v, hf{}({}))", i, args), &spec, "nt=1;kind=c02-host-arity");
            }
        }
    }
    run_profile(
        em,
        seed,
        &Profile {
            n: if thorough { 400_000 } else { 25_000 },
            depth: 8,
            typed_pct: 40,
            wrap_pct: 8,
            boundary_pct: 35,
            with_time: true,
            kind: "c02",
        },
    );
}
