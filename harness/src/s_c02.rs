//! C02: executing any program against any context returns a value or an error; the value
//! operators applied directly to arbitrary values never panic.
use crate::s_c09::value_set;
use crate::s_eval::{run_profile, Profile};
use crate::wire::*;
use crate::{guarded, Emit};
use cel_interpreter::Value;

pub fn run(em: &mut Emit, thorough: bool, seed: u64) {
    // every pair of the boundary value set under each operator, applied directly to Value
    let mut vals = value_set();
    vals.push(Value::Timestamp(chrono::DateTime::<chrono::Utc>::MAX_UTC.fixed_offset()));
    vals.push(Value::Timestamp(chrono::DateTime::<chrono::Utc>::MIN_UTC.fixed_offset()));
    vals.push(Value::Duration(chrono::Duration::nanoseconds(i64::MAX)));
    vals.push(Value::Duration(chrono::Duration::nanoseconds(i64::MIN + 1)));
    vals.push(Value::Duration(chrono::Duration::seconds(1)));
    for a in &vals {
        for b in &vals {
            for op in ["add", "sub", "mul", "div", "rem"] {
                let (a2, b2) = (a.clone(), b.clone());
                let imp = guarded(move || {
                    sx_result(&match op {
                        "add" => a2 + b2,
                        "sub" => a2 - b2,
                        "mul" => a2 * b2,
                        "div" => a2 / b2,
                        _ => a2 % b2,
                    })
                });
                let special = matches!(a, Value::Duration(_) | Value::Timestamp(_) | Value::Int(_) | Value::UInt(_));
                em.case(
                    &format!("(binop {} {} {})", op, sx_value_iter_order(a), sx_value_iter_order(b)),
                    &imp,
                    &format!("nt={};kind=direct-{}", special as u8, op),
                    &format!("{} {} {}", sx_value(a), op, sx_value(b)),
                );
            }
        }
    }
    run_profile(
        em,
        seed,
        &Profile {
            n: if thorough { 400_000 } else { 25_000 },
            depth: 8,
            typed_pct: 40,
            wrap_pct: 8,
            boundary_pct: 35,
            with_time: true,
            kind: "c02",
        },
    );
}
