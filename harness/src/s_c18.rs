//! C18: Value::json.  Values from the boundary set and a recursive generator (depth <= 5,
//! functions nested inside collections, durations on both sides of 2^63 ns, NaN/inf, empty
//! collections, maps whose int/uint/bool/string keys render to the same text) are exported;
//! the model is told the order in which the implementation's hash maps iterate, so that even
//! text-colliding keys have one defined answer.  The import/export law is evaluated on the
//! implementation's own answers for values of JSON-native types with text-distinct keys.
use crate::rng::Rng;
use crate::s_c09::value_set;
use crate::s_c17::{sx_json_result, sx_ser};
use crate::sdata::*;
use crate::wire::*;
use crate::{guarded, Emit};
use cel_interpreter::objects::{Key, Map};
use cel_interpreter::{to_value, Value};
use std::collections::HashMap;
use std::sync::Arc;

fn rand_key(rng: &mut Rng, kind: u64) -> Key {
    match kind {
        0 => Key::String(Arc::new(rand_string(rng))),
        1 => Key::Int(rng.range(-2, 2)),
        2 => Key::Uint(rng.below(3)),
        3 => Key::Bool(rng.chance(1, 2)),
        4 => Key::Int(rng.log_i64()),
        5 => Key::Uint(rng.log_u64()),
        _ => Key::String(Arc::new(rng.pick(&["0", "1", "-1", "true", "false", "2"]).to_string())),
    }
}

pub fn rand_value(rng: &mut Rng, depth: u32, native: bool) -> Value {
    if depth == 0 || rng.chance(3, 10) {
        let k = if native { *rng.pick(&[0u64, 1, 2, 3, 4, 5, 6, 13]) } else { rng.below(14) };
        return match k {
            0 => Value::Null,
            1 => Value::Bool(rng.chance(1, 2)),
            2 => Value::Int(rng.log_i64()),
            3 => Value::UInt(rng.log_u64()),
            4 => {
                let f = rand_f64(rng);
                if native && !f.is_finite() {
                    Value::Float(0.25)
                } else {
                    Value::Float(f)
                }
            }
            5 | 6 => Value::String(Arc::new(rand_string(rng))),
            7 => Value::Bytes(Arc::new((0..rng.below(8)).map(|_| rng.next() as u8).collect())),
            8 | 9 => Value::Duration(rand_duration(rng)),
            10 => Value::Timestamp(rand_timestamp(rng)),
            11 => Value::Function(Arc::new(rng.pick(&["size", "f", ""]).to_string()), None),
            12 => Value::Function(Arc::new("g".to_string()), Some(Box::new(rand_value(rng, 0, native)))),
            _ => Value::Int(*rng.pick(&[0, -1, i64::MAX, i64::MIN])),
        };
    }
    let n = rng.below(4);
    if rng.chance(1, 2) {
        Value::List(Arc::new((0..n).map(|_| rand_value(rng, depth - 1, native)).collect()))
    } else {
        let mut m = HashMap::new();
        let kind = if native { 0 } else if rng.chance(1, 2) { rng.below(7) } else { 99 };
        for _ in 0..n {
            let kk = if kind == 99 { rng.below(7) } else { kind };
            m.insert(rand_key(rng, kk), rand_value(rng, depth - 1, native));
        }
        Value::Map(Map { map: Arc::new(m) })
    }
}

fn has_fn(v: &Value) -> bool {
    match v {
        Value::Function(..) => true,
        Value::List(l) => l.iter().any(has_fn),
        Value::Map(m) => m.map.values().any(has_fn),
        _ => false,
    }
}
fn has_big_dur(v: &Value) -> bool {
    match v {
        Value::Duration(d) => d.num_nanoseconds().is_none(),
        Value::List(l) => l.iter().any(has_big_dur),
        Value::Map(m) => m.map.values().any(has_big_dur),
        _ => false,
    }
}

fn emit_value(em: &mut Emit, v: &Value, tag: &str) {
    let v1 = v.clone();
    let imp = guarded(move || sx_json_result(&v1.json(), "x"));
    // the two error kinds are told apart
    let v2 = v.clone();
    let imp = if imp == "(err x)" {
        guarded(move || match v2.json() {
            Err(cel_interpreter::ConvertToJsonError::DurationOverflow(_)) => "(err overflow)".into(),
            Err(_) => "(err invalid)".into(),
            Ok(_) => "(crash)".into(),
        })
    } else {
        imp
    };
    let tags = format!("nt=1;kind=json-{};fn={};bigdur={}", tag, has_fn(v) as u8, has_big_dur(v) as u8);
    em.case(&format!("(json {})", sx_value_iter_order(v)), &imp, &tags, &sx_value(v));
    // totality stated on the implementation's own answer
    let v3 = v.clone();
    let excluded = has_fn(v) || has_big_dur(v);
    let law = guarded(move || match (v3.json().is_ok(), excluded) {
        (true, false) | (false, true) => "(bool true)".into(),
        (ok, ex) => format!("(law-violated total ok={} excluded={})", ok, ex),
    });
    em.case("(echo (bool true))", &law, &format!("nt=1;kind=law-total-{}", tag), &sx_value(v));
}

pub fn run(em: &mut Emit, thorough: bool, seed: u64) {
    let mut rng = Rng::new(seed ^ 0xC18);
    let set = value_set();
    for v in &set {
        emit_value(em, v, "set");
        // nested inside a list and a map
        let l = Value::List(Arc::new(vec![Value::Int(1), v.clone()]));
        emit_value(em, &l, "set-in-list");
        let mut m = HashMap::new();
        m.insert(Key::String(Arc::new("k".into())), v.clone());
        m.insert(Key::Int(1), Value::Int(1));
        emit_value(em, &Value::Map(Map { map: Arc::new(m) }), "set-in-map");
    }
    // colliding key texts
    for (a, b) in [
        (Key::Int(1), Key::Uint(1)),
        (Key::Int(1), Key::String(Arc::new("1".into()))),
        (Key::Bool(true), Key::String(Arc::new("true".into()))),
        (Key::Uint(0), Key::String(Arc::new("0".into()))),
        (Key::Int(-1), Key::String(Arc::new("-1".into()))),
    ] {
        let mut m = HashMap::new();
        m.insert(a, Value::Int(10));
        m.insert(b, Value::Int(20));
        emit_value(em, &Value::Map(Map { map: Arc::new(m) }), "collide");
    }
    // long and deep values: sizes around buffer / chunk thresholds (base64 groups of three bytes
    // included), nesting to depth 40
    for n in (0..=70usize).chain([127, 128, 129, 255, 256, 257, 1000, 1001, 1002, 1023, 1024, 1025, 1026, 2047, 2048, 2049, 3071, 3072, 3073, 4096, 4097, 8191, 8193, 65536, 65537, 100_001]) {
        emit_value(em, &Value::Bytes(Arc::new((0..n).map(|i| (i * 7 % 256) as u8).collect())), "long");
        if (n > 12 && !(15..=17).contains(&n) && !(31..=33).contains(&n) && !(63..=65).contains(&n) && n < 127) || n > 1002 {
            continue;
        }
        emit_value(em, &Value::List(Arc::new((0..n).map(|i| Value::Int(i as i64)).collect())), "long");
        emit_value(em, &Value::String(Arc::new("é\"".repeat(n))), "long");
        let mut m = HashMap::new();
        for i in 0..n {
            m.insert(Key::Int(i as i64), Value::UInt(i as u64));
        }
        emit_value(em, &Value::Map(Map { map: Arc::new(m) }), "long");
    }
    for depth in [8usize, 16, 32, 40] {
        let mut v = Value::Int(1);
        for i in 0..depth {
            v = if i % 2 == 0 {
                Value::List(Arc::new(vec![v]))
            } else {
                let mut m = HashMap::new();
                m.insert(Key::String(Arc::new("k".into())), v);
                Value::Map(Map { map: Arc::new(m) })
            };
        }
        emit_value(em, &v, "deep");
    }
    let n = if thorough { 400_000 } else { 15_000 };
    for _ in 0..n {
        let depth = rng.below(6) as u32;
        let v = rand_value(&mut rng, depth, false);
        emit_value(em, &v, "rnd");
    }
    // import after export: JSON-native values with text-distinct (string) keys
    let n = if thorough { 200_000 } else { 8_000 };
    for _ in 0..n {
        let depth = rng.below(6) as u32;
        let v = rand_value(&mut rng, depth, true);
        let v1 = v.clone();
        let law = guarded(move || match v1.json() {
            Ok(j) => match to_value(&j) {
                Ok(back) if back == v1 => "(bool true)".into(),
                other => format!("(law-violated import-export {:?})", other),
            },
            Err(e) => format!("(law-violated export {})", e),
        });
        em.case("(echo (bool true))", &law, "nt=1;kind=law-import-export", &sx_value(&v));
        // and the model's import of the implementation's export is the model's value
        let v2 = v.clone();
        if let Ok(j) = v2.json() {
            let imp = guarded(move || sx_ser(&to_value(&j)));
            em.case(&format!("(unjson {})", json_wire(&v.json().unwrap())), &imp, "nt=1;kind=unjson-of-export", &sx_value(&v));
        }
    }
}
