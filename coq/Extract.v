(** Extraction of the executable model to OCaml.  ExtrOcamlBasic only: bool, option, list,
    prod, unit, sumbool map to OCaml's; positive/N/Z/nat/ascii/string stay inductive. *)
From Cel.Model Require Import Driver.
Require Extraction.
Require Import ExtrOcamlBasic.
Extraction "model.ml" handle_line.
