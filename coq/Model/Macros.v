(** Parse-time macro expansion (antlr/src/macros.rs): find_expander and the six expanders,
    producing the comprehension expressions the evaluator runs. *)
From Coq Require Import String.
From Cel.Model Require Export Ast.

Definition accu : str := $"@result".
Definition e_accu : expr := EIdent accu.
Definition call (f : str) (args : list expr) : expr := ECall f None args.

Inductive macro := MHas | MExists | MAll | MExistsOne | MMap | MFilter.

(** find_expander: name, receiver presence and argument count decide. *)
Definition find_expander (f : str) (has_target : bool) (nargs : nat) : option macro :=
  if str_eqb f $"has" then (if negb has_target && Nat.eqb nargs 1 then Some MHas else None)
  else if str_eqb f $"exists" then (if has_target && Nat.eqb nargs 2 then Some MExists else None)
  else if str_eqb f $"all" then (if has_target && Nat.eqb nargs 2 then Some MAll else None)
  else if str_eqb f $"exists_one" || str_eqb f $"existsOne"
       then (if has_target && Nat.eqb nargs 2 then Some MExistsOne else None)
  else if str_eqb f $"map"
       then (if has_target && (Nat.eqb nargs 2 || Nat.eqb nargs 3) then Some MMap else None)
  else if str_eqb f $"filter" then (if has_target && Nat.eqb nargs 2 then Some MFilter else None)
  else None.

Definition expand_exists (r : expr) (x : str) (p : expr) : expr :=
  EComp r x accu (ELit (VBool false))
        (call $"@not_strictly_false" [call $"!_" [e_accu]])
        (call $"_||_" [e_accu; p])
        e_accu.

Definition expand_all (r : expr) (x : str) (p : expr) : expr :=
  EComp r x accu (ELit (VBool true))
        (call $"@not_strictly_false" [e_accu])
        (call $"_&&_" [e_accu; p])
        e_accu.

Definition expand_exists_one (r : expr) (x : str) (p : expr) : expr :=
  EComp r x accu (ELit (VInt 0))
        (ELit (VBool true))
        (call $"_?_:_" [p; call $"_+_" [e_accu; ELit (VInt 1)]; e_accu])
        (call $"_==_" [e_accu; ELit (VInt 1)]).

Definition expand_map (r : expr) (x : str) (flt : option expr) (f : expr) : expr :=
  let step := call $"_+_" [e_accu; EList [f]] in
  EComp r x accu (EList [])
        (ELit (VBool true))
        (match flt with
         | Some p => call $"_?_:_" [p; step; e_accu]
         | None => step
         end)
        e_accu.

Definition expand_filter (r : expr) (x : str) (p : expr) : expr :=
  EComp r x accu (EList [])
        (ELit (VBool true))
        (call $"_?_:_" [p; call $"_+_" [e_accu; EList [EIdent x]]; e_accu])
        e_accu.

(** The expansion of a call node whose children are already expanded; [None]: the macro
    rejects its arguments (a parse error: "argument must be a simple name" / "invalid argument
    to has() macro"). *)
Definition expand_call (f : str) (target : option expr) (args : list expr) : option expr :=
  match find_expander f (match target with Some _ => true | None => false end) (length args) with
  | None => Some (ECall f target args)
  | Some m =>
      match m, target, args with
      | MHas, None, [ESelect o fld _] => Some (ESelect o fld true)
      | MHas, _, _ => None
      | MExists, Some r, [EIdent x; p] => Some (expand_exists r x p)
      | MAll, Some r, [EIdent x; p] => Some (expand_all r x p)
      | MExistsOne, Some r, [EIdent x; p] => Some (expand_exists_one r x p)
      | MMap, Some r, [EIdent x; f'] => Some (expand_map r x None f')
      | MMap, Some r, [EIdent x; p; f'] => Some (expand_map r x (Some p) f')
      | MFilter, Some r, [EIdent x; p] => Some (expand_filter r x p)
      | _, _, _ => None
      end
  end.
