(** Values, keys and outcomes in wire form. *)
From Cel.Model Require Export Sexp Values.
Open Scope string_scope.

Definition tagged (t : string) (args : list sexp) : sexp := SList (Atom t :: args).

Definition sexp_of_str (s : str) : list sexp := map atomN s.

Definition sexp_of_key (k : key) : sexp :=
  match k with
  | KInt z => tagged "int" [atomZ z]
  | KUint z => tagged "uint" [atomZ z]
  | KBool b => tagged "bool" [Atom (if b then "true" else "false")]
  | KStr s => tagged "str" (sexp_of_str s)
  end.

Fixpoint sexp_of_value (v : value) : sexp :=
  match v with
  | VList l => tagged "list" (map sexp_of_value l)
  | VMap m => tagged "map" (map (fun kv => SList [sexp_of_key (fst kv); sexp_of_value (snd kv)]) m)
  | VFun n r => tagged "fn" (tagged "str" (sexp_of_str n) ::
                             match r with Some x => [sexp_of_value x] | None => [] end)
  | VInt z => tagged "int" [atomZ z]
  | VUInt z => tagged "uint" [atomZ z]
  | VDbl f => tagged "dbl" [Atom (hex16 (bits_of_f64 f))]
  | VStr s => tagged "str" (sexp_of_str s)
  | VBytes b => tagged "bytes" (map atomN b)
  | VBool b => tagged "bool" [Atom (if b then "true" else "false")]
  | VDur ns => tagged "dur" [atomZ ns]
  | VTs ns off => tagged "ts" [atomZ ns; atomZ off]
  | VNull => Atom "null"
  end.

Definition sexp_of_err (c : errclass) : sexp :=
  match c with
  | EOverflow => Atom "overflow"
  | EDivZero => Atom "divzero"
  | ENoKey => Atom "nokey"
  | EUndeclared n => tagged "undeclared" (sexp_of_str n)
  | EArgCount => Atom "argcount"
  | EInvalid => Atom "invalid"
  end.

Definition sexp_of_outcome {A} (f : A -> sexp) (o : outcome A) : sexp :=
  match o with
  | Ok a => tagged "ok" [f a]
  | Err c => tagged "err" [sexp_of_err c]
  | Crash n => tagged "crash" [atomN n]
  end.

Definition bool_of_sexp (x : sexp) : option bool :=
  match x with
  | Atom a => if a =? "true" then Some true else if a =? "false" then Some false else None
  | _ => None
  end.

Definition str_of_sexps (l : list sexp) : option str := opt_map_list sexp_N l.

Definition key_of_sexp (x : sexp) : option key :=
  match x with
  | SList (Atom t :: args) =>
      if t =? "int" then match args with [a] => option_map KInt (sexp_Z a) | _ => None end
      else if t =? "uint" then match args with [a] => option_map KUint (sexp_Z a) | _ => None end
      else if t =? "bool" then match args with [a] => option_map KBool (bool_of_sexp a) | _ => None end
      else if t =? "str" then option_map KStr (str_of_sexps args)
      else None
  | _ => None
  end.

Fixpoint value_of_sexp (x : sexp) : option value :=
  match x with
  | Atom a => if a =? "null" then Some VNull else None
  | SList (Atom t :: args) =>
      if t =? "int" then match args with [a] => option_map VInt (sexp_Z a) | _ => None end
      else if t =? "uint" then match args with [a] => option_map VUInt (sexp_Z a) | _ => None end
      else if t =? "dbl" then
        match args with
        | [Atom h] => option_map (fun b => VDbl (f64_of_bits b)) (Z_of_hex h)
        | _ => None
        end
      else if t =? "str" then option_map VStr (str_of_sexps args)
      else if t =? "bytes" then option_map VBytes (str_of_sexps args)
      else if t =? "bool" then match args with [a] => option_map VBool (bool_of_sexp a) | _ => None end
      else if t =? "dur" then match args with [a] => option_map VDur (sexp_Z a) | _ => None end
      else if t =? "ts" then
        match args with
        | [a; b] => match sexp_Z a, sexp_Z b with
                    | Some x, Some y => Some (VTs x y)
                    | _, _ => None
                    end
        | _ => None
        end
      else if t =? "list" then
        option_map VList
          ((fix go (l : list sexp) : option (list value) :=
              match l with
              | [] => Some []
              | y :: l' => match value_of_sexp y, go l' with
                           | Some v, Some vs => Some (v :: vs)
                           | _, _ => None
                           end
              end) args)
      else if t =? "map" then
        option_map VMap
          ((fix go (l : list sexp) : option (list (key * value)) :=
              match l with
              | [] => Some []
              | SList [k; y] :: l' =>
                  match key_of_sexp k, value_of_sexp y, go l' with
                  | Some k', Some v, Some vs => Some ((k', v) :: vs)
                  | _, _, _ => None
                  end
              | _ => None
              end) args)
      else if t =? "fn" then
        match args with
        | [SList (Atom _ :: n)] => option_map (fun n' => VFun n' None) (str_of_sexps n)
        | [SList (Atom _ :: n); r] =>
            match str_of_sexps n, value_of_sexp r with
            | Some n', Some r' => Some (VFun n' (Some r'))
            | _, _ => None
            end
        | _ => None
        end
      else None
  | _ => None
  end.
