(** Values, keys and outcomes in wire form. *)
From Cel.Model Require Export Sexp Values Eval.
Open Scope string_scope.

Definition tagged (t : string) (args : list sexp) : sexp := SList (Atom t :: args).

Definition sexp_of_str (s : str) : list sexp := map atomN s.

Definition sexp_of_key (k : key) : sexp :=
  match k with
  | KInt z => tagged "int" [atomZ z]
  | KUint z => tagged "uint" [atomZ z]
  | KBool b => tagged "bool" [Atom (if b then "true" else "false")]
  | KStr s => tagged "str" (sexp_of_str s)
  end.

Fixpoint sexp_of_value (v : value) : sexp :=
  match v with
  | VList l => tagged "list" (map sexp_of_value l)
  | VMap m => tagged "map" (map (fun kv => SList [sexp_of_key (fst kv); sexp_of_value (snd kv)]) m)
  | VFun n r => tagged "fn" (tagged "str" (sexp_of_str n) ::
                             match r with Some x => [sexp_of_value x] | None => [] end)
  | VInt z => tagged "int" [atomZ z]
  | VUInt z => tagged "uint" [atomZ z]
  | VDbl f => tagged "dbl" [Atom (hex16 (bits_of_f64 f))]
  | VStr s => tagged "str" (sexp_of_str s)
  | VBytes b => tagged "bytes" (map atomN b)
  | VBool b => tagged "bool" [Atom (if b then "true" else "false")]
  | VDur ns => tagged "dur" [atomZ ns]
  | VTs ns off => tagged "ts" [atomZ ns; atomZ off]
  | VNull => Atom "null"
  end.

Definition sexp_of_err (c : errclass) : sexp :=
  match c with
  | EOverflow => Atom "overflow"
  | EDivZero => Atom "divzero"
  | ENoKey => Atom "nokey"
  | EUndeclared n => tagged "undeclared" (sexp_of_str n)
  | EArgCount => Atom "argcount"
  | EInvalid => Atom "invalid"
  | EOracle => Atom "oracle"
  end.

Definition sexp_of_outcome {A} (f : A -> sexp) (o : outcome A) : sexp :=
  match o with
  | Ok a => tagged "ok" [f a]
  | Err c => tagged "err" [sexp_of_err c]
  | Crash n => tagged "crash" [atomN n]
  end.

Definition bool_of_sexp (x : sexp) : option bool :=
  match x with
  | Atom a => if a =? "true" then Some true else if a =? "false" then Some false else None
  | _ => None
  end.

Definition str_of_sexps (l : list sexp) : option str := opt_map_list sexp_N l.

Definition key_of_sexp (x : sexp) : option key :=
  match x with
  | SList (Atom t :: args) =>
      if t =? "int" then match args with [a] => option_map KInt (sexp_Z a) | _ => None end
      else if t =? "uint" then match args with [a] => option_map KUint (sexp_Z a) | _ => None end
      else if t =? "bool" then match args with [a] => option_map KBool (bool_of_sexp a) | _ => None end
      else if t =? "str" then option_map KStr (str_of_sexps args)
      else None
  | _ => None
  end.

Fixpoint value_of_sexp (x : sexp) : option value :=
  match x with
  | Atom a => if a =? "null" then Some VNull else None
  | SList (Atom t :: args) =>
      if t =? "int" then match args with [a] => option_map VInt (sexp_Z a) | _ => None end
      else if t =? "uint" then match args with [a] => option_map VUInt (sexp_Z a) | _ => None end
      else if t =? "dbl" then
        match args with
        | [Atom h] => option_map (fun b => VDbl (f64_of_bits b)) (Z_of_hex h)
        | _ => None
        end
      else if t =? "str" then option_map VStr (str_of_sexps args)
      else if t =? "bytes" then option_map VBytes (str_of_sexps args)
      else if t =? "bool" then match args with [a] => option_map VBool (bool_of_sexp a) | _ => None end
      else if t =? "dur" then match args with [a] => option_map VDur (sexp_Z a) | _ => None end
      else if t =? "ts" then
        match args with
        | [a; b] => match sexp_Z a, sexp_Z b with
                    | Some x, Some y => Some (VTs x y)
                    | _, _ => None
                    end
        | _ => None
        end
      else if t =? "list" then
        option_map VList
          ((fix go (l : list sexp) : option (list value) :=
              match l with
              | [] => Some []
              | y :: l' => match value_of_sexp y, go l' with
                           | Some v, Some vs => Some (v :: vs)
                           | _, _ => None
                           end
              end) args)
      else if t =? "map" then
        option_map VMap
          ((fix go (l : list sexp) : option (list (key * value)) :=
              match l with
              | [] => Some []
              | SList [k; y] :: l' =>
                  match key_of_sexp k, value_of_sexp y, go l' with
                  | Some k', Some v, Some vs => Some ((k', v) :: vs)
                  | _, _, _ => None
                  end
              | _ => None
              end) args)
      else if t =? "fn" then
        match args with
        | [SList (Atom _ :: n)] => option_map (fun n' => VFun n' None) (str_of_sexps n)
        | [SList (Atom _ :: n); r] =>
            match str_of_sexps n, value_of_sexp r with
            | Some n', Some r' => Some (VFun n' (Some r'))
            | _, _ => None
            end
        | _ => None
        end
      else None
  | _ => None
  end.

(** ------------------------------------------------------------------ expressions *)

Definition opt_str (x : sexp) : option str :=
  match x with
  | SList (Atom t :: cps) => if t =? "str" then str_of_sexps cps else None
  | _ => None
  end.

Fixpoint expr_of_sexp (x : sexp) : option expr :=
  match x with
  | Atom a => if a =? "unspec" then Some EUnspec else None
  | SList (Atom t :: args) =>
      let many := (fix go (l : list sexp) : option (list expr) :=
                     match l with
                     | [] => Some []
                     | y :: l' => match expr_of_sexp y, go l' with
                                  | Some e, Some es => Some (e :: es)
                                  | _, _ => None
                                  end
                     end) in
      if t =? "lit" then match args with [v] => option_map ELit (value_of_sexp v) | _ => None end
      else if t =? "id" then option_map EIdent (str_of_sexps args)
      else if t =? "call" then
        match args with
        | f :: tg :: rest =>
            match opt_str f, many rest with
            | Some f', Some es =>
                match tg with
                | Atom _ => Some (ECall f' None es)
                | SList [Atom _; te] => option_map (fun t' => ECall f' (Some t') es) (expr_of_sexp te)
                | _ => None
                end
            | _, _ => None
            end
        | _ => None
        end
      else if t =? "sel" then
        match args with
        | [o; f; b] => match expr_of_sexp o, opt_str f, bool_of_sexp b with
                       | Some o', Some f', Some b' => Some (ESelect o' f' b')
                       | _, _, _ => None
                       end
        | _ => None
        end
      else if t =? "list" then option_map EList (many args)
      else if t =? "map" then
        option_map EMap
          ((fix go (l : list sexp) : option (list (expr * expr)) :=
              match l with
              | [] => Some []
              | SList [k; v] :: l' =>
                  match expr_of_sexp k, expr_of_sexp v, go l' with
                  | Some k', Some v', Some r => Some ((k', v') :: r)
                  | _, _, _ => None
                  end
              | _ => None
              end) args)
      else if t =? "struct" then
        match args with
        | n :: fields =>
            match opt_str n,
                  (fix go (l : list sexp) : option (list (str * expr)) :=
                     match l with
                     | [] => Some []
                     | SList [f; v] :: l' =>
                         match opt_str f, expr_of_sexp v, go l' with
                         | Some f', Some v', Some r => Some ((f', v') :: r)
                         | _, _, _ => None
                         end
                     | _ => None
                     end) fields with
            | Some n', Some fs => Some (EStruct n' fs)
            | _, _ => None
            end
        | _ => None
        end
      else if t =? "comp" then
        match args with
        | [r; iv; av; i; c; s; res] =>
            match expr_of_sexp r, opt_str iv, opt_str av, expr_of_sexp i, expr_of_sexp c,
                  expr_of_sexp s, expr_of_sexp res with
            | Some r', Some iv', Some av', Some i', Some c', Some s', Some res' =>
                Some (EComp r' iv' av' i' c' s' res')
            | _, _, _, _, _, _, _ => None
            end
        | _ => None
        end
      else None
  | _ => None
  end.

Definition vty_of_sexp (x : sexp) : option vty :=
  match x with
  | Atom a =>
      if a =? "int" then Some TyInt else if a =? "uint" then Some TyUInt
      else if a =? "dbl" then Some TyDbl else if a =? "str" then Some TyStr
      else if a =? "bytes" then Some TyBytes else if a =? "bool" then Some TyBool
      else if a =? "list" then Some TyList else if a =? "dur" then Some TyDur
      else if a =? "ts" then Some TyTs else if a =? "value" then Some TyValue else None
  | _ => None
  end.

Definition xtor_of_sexp (x : sexp) : option extractor :=
  match x with
  | Atom a => if a =? "args" then Some XArgs else if a =? "ident" then Some XIdent
              else if a =? "expr" then Some XExpr else None
  | SList [Atom k; t] =>
      match vty_of_sexp t with
      | Some t' => if k =? "this" then Some (XThis t') else if k =? "thisopt" then Some (XThisOpt t')
                   else if k =? "arg" then Some (XArg t') else if k =? "argopt" then Some (XArgOpt t')
                   else None
      | None => None
      end
  | _ => None
  end.

Definition hbody_of_sexp (x : sexp) : option hbody :=
  match x with
  | Atom a => if a =? "fail" then Some HFail else if a =? "sum" then Some HSum else None
  | SList [Atom k; y] =>
      if k =? "const" then option_map HConst (value_of_sexp y)
      else if k =? "arg" then option_map (fun n => HArg (N.to_nat n)) (sexp_N y)
      else None
  | _ => None
  end.

(** (fn (params XTOR...) BODY) *)
Definition fdef_of_sexp (x : sexp) : option fdef :=
  match x with
  | SList [Atom _; SList (Atom _ :: ps); b] =>
      match opt_map_list xtor_of_sexp ps, hbody_of_sexp b with
      | Some ps', Some b' => Some {| params := ps'; body := FHost b' |}
      | _, _ => None
      end
  | _ => None
  end.

Definition binding_of_sexp (x : sexp) : option (str * value) :=
  match x with
  | SList [n; v] => match opt_str n, value_of_sexp v with
                    | Some n', Some v' => Some (n', v')
                    | _, _ => None
                    end
  | _ => None
  end.

(** (ctx (scopes (scope BINDING...)...) (funs ((str..) FDEF)...)); scopes innermost first;
    within a scope a later binding of the same name wins (HashMap::insert), so bindings are
    consed in reverse. *)
Definition ctx_of_sexp (x : sexp) : option ctx :=
  match x with
  | SList [Atom _; SList (Atom _ :: scs); SList (Atom _ :: fs)] =>
      match opt_map_list (fun s => match s with
                                   | SList (Atom _ :: bs) =>
                                       option_map (@rev' _) (opt_map_list binding_of_sexp bs)
                                   | _ => None
                                   end) scs,
            opt_map_list (fun f => match f with
                                   | SList [n; d] => match opt_str n, fdef_of_sexp d with
                                                     | Some n', Some d' => Some (n', d')
                                                     | _, _ => None
                                                     end
                                   | _ => None
                                   end) fs with
      | Some scs', Some fs' => Some {| funs := rev' fs' ++ default_funs; scopes := scs' |}
      | _, _ => None
      end
  | _ => None
  end.

Definition sexp_of_event (e : event) : sexp :=
  match e with
  | Called f args => tagged "call" (tagged "str" (sexp_of_str f) :: map sexp_of_value args)
  end.

Definition sexp_of_result (r : result) : sexp :=
  tagged "res" [sexp_of_outcome sexp_of_value (fst r); tagged "log" (map sexp_of_event (snd r))].

(** Printing expressions (same form the harness dumps the real AST in). *)
Fixpoint sexp_of_expr (e : expr) : sexp :=
  match e with
  | EUnspec => Atom "unspec"
  | ELit v => tagged "lit" [sexp_of_value v]
  | EIdent x => tagged "id" (sexp_of_str x)
  | ECall f t args =>
      tagged "call" (tagged "str" (sexp_of_str f) ::
                     match t with
                     | None => Atom "none"
                     | Some t' => SList [Atom "some"; sexp_of_expr t']
                     end :: map sexp_of_expr args)
  | ESelect o f t =>
      tagged "sel" [sexp_of_expr o; tagged "str" (sexp_of_str f); Atom (if t then "true" else "false")]
  | EList es => tagged "list" (map sexp_of_expr es)
  | EMap es => tagged "map" (map (fun kv => SList [sexp_of_expr (fst kv); sexp_of_expr (snd kv)]) es)
  | EStruct n fs =>
      tagged "struct" (tagged "str" (sexp_of_str n) ::
                       map (fun fv => SList [tagged "str" (sexp_of_str (fst fv)); sexp_of_expr (snd fv)]) fs)
  | EComp r iv av i c s res =>
      tagged "comp" [sexp_of_expr r; tagged "str" (sexp_of_str iv); tagged "str" (sexp_of_str av);
                     sexp_of_expr i; sexp_of_expr c; sexp_of_expr s; sexp_of_expr res]
  end.
