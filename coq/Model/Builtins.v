(** Bodies of the built-in functions of Context::default() (functions.rs), applied to the
    values their extractors produced. *)
From Coq Require Import String.
From Cel.Model Require Export Context Arith Compare FloatText Timestamp.
From Coq Require Import Decimal DecimalZ.

(** Decimal text of an integer as code points. *)
Fixpoint uint_digits (u : Decimal.uint) : str :=
  match u with
  | Nil => []
  | D0 u' => 48%N :: uint_digits u' | D1 u' => 49%N :: uint_digits u'
  | D2 u' => 50%N :: uint_digits u' | D3 u' => 51%N :: uint_digits u'
  | D4 u' => 52%N :: uint_digits u' | D5 u' => 53%N :: uint_digits u'
  | D6 u' => 54%N :: uint_digits u' | D7 u' => 55%N :: uint_digits u'
  | D8 u' => 56%N :: uint_digits u' | D9 u' => 57%N :: uint_digits u'
  end.
Definition Z_to_str (z : Z) : str :=
  match Z.to_int z with
  | Decimal.Pos u => match uint_digits u with [] => [48%N] | d => d end
  | Decimal.Neg u => 45%N :: uint_digits u
  end.

(** Key's Display (objects.rs impl Display for Key). *)
Definition key_text (k : key) : str :=
  match k with
  | KInt z | KUint z => Z_to_str z
  | KBool true => $"true"
  | KBool false => $"false"
  | KStr s => s
  end.

Section Sub.
  Variable A : Type.
  Variable eqA : A -> A -> bool.
  Fixpoint is_prefix (p l : list A) : bool :=
    match p, l with
    | [], _ => true
    | x :: p', y :: l' => eqA x y && is_prefix p' l'
    | _ :: _, [] => false
    end.
  Fixpoint contains_sub (p l : list A) : bool :=
    is_prefix p l || match l with [] => false | _ :: l' => contains_sub p l' end.
  Definition is_suffix (p l : list A) : bool := is_prefix (List.rev p) (List.rev l).
End Sub.
Arguments is_prefix {A} eqA p l.
Arguments contains_sub {A} eqA p l.
Arguments is_suffix {A} eqA p l.

(** str::parse::<i64>() / ::<u64>(): optional sign ('+' always, '-' only for signed), at
    least one ASCII digit, nothing else; out of range is an error. *)
Fixpoint digits_val (s : str) (acc : Z) : option Z :=
  match s with
  | [] => Some acc
  | c :: s' => if ((48 <=? c) && (c <=? 57))%N
               then digits_val s' (acc * 10 + (Z.of_N c - 48)) else None
  end.
Definition parse_int_text (signed : bool) (s : str) : option Z :=
  match s with
  | [] => None
  | c :: s' =>
      if (c =? 43)%N then match s' with [] => None | _ => digits_val s' 0 end
      else if (c =? 45)%N then
        if signed then match s' with
                       | [] => None
                       | _ => option_map Z.opp (digits_val s' 0)
                       end
        else None
      else digits_val s 0
  end.

Definition ferr : outcome value := Err EInvalid.

Definition b_size (this : value) : outcome value :=
  match this with
  | VList l => Ok (VInt (Z.of_nat (length l)))
  | VMap m => Ok (VInt (Z.of_nat (length m)))
  | VStr s => Ok (VInt (Z.of_N (utf8_len s)))
  | VBytes b => Ok (VInt (Z.of_nat (length b)))
  | _ => ferr
  end.

Definition b_contains (this arg : value) : outcome value :=
  match this with
  | VList l => Ok (VBool (existsb (fun e => v_eq e arg) l))
  | VMap m => match key_of_value arg with
              | Some k => Ok (VBool (match map_get k m with Some _ => true | None => false end))
              | None => ferr
              end
  | VStr s => match arg with
              | VStr a => Ok (VBool (contains_sub N.eqb a s))
              | _ => Ok (VBool false)
              end
  | VBytes b => match arg with
                | VBytes a => Ok (VBool (contains_sub N.eqb a b))
                | _ => Ok (VBool false)
                end
  | _ => Ok (VBool false)
  end.

Definition ascii_only (b : list N) : bool := forallb (fun c => (c <? 128)%N) b.

Definition b_string (this : value) : outcome value :=
  match this with
  | VStr s => Ok (VStr s)
  | VInt z | VUInt z => Ok (VStr (Z_text z))
  | VBytes b => match utf8_dec b with
                | Some s => Ok (VStr s)
                | None => Err EOracle     (* from_utf8_lossy's replacement is not modelled *)
                end
  | VDbl f => Ok (VStr (f64_to_text f))
  | VDur d => Ok (VStr (format_duration_str d))
  | VTs ns off => Ok (VStr (rfc3339 ns off))
  | _ => ferr
  end.

Definition two63 : Z := 9223372036854775808.
Definition two64 : Z := 18446744073709551616.

Definition b_int (this : value) : outcome value :=
  match this with
  | VStr s => match parse_int_text true s with
              | Some z => if in_i64 z then Ok (VInt z) else ferr
              | None => ferr
              end
  | VDbl f => match trunc_Z f with
              | Some z => if in_i64 z then Ok (VInt z) else ferr
              | None => ferr
              end
  | VInt z => Ok (VInt z)
  | VUInt z => if z <=? i64_max then Ok (VInt z) else ferr
  | _ => ferr
  end.

(** uint(double): the code tests [v >= 0.0 && v < 2^64] on the double itself, so a negative
    fraction such as -0.5 is rejected although it truncates to 0. *)
Definition f_nonneg (f : f64) : bool :=
  match f with
  | S754_zero _ => true
  | S754_finite s _ _ => negb s
  | S754_infinity s => negb s
  | S754_nan => false
  end.

Definition b_uint (this : value) : outcome value :=
  match this with
  | VStr s => match parse_int_text false s with
              | Some z => if in_u64 z then Ok (VUInt z) else ferr
              | None => ferr
              end
  | VDbl f => match trunc_Z f with
              | Some z => if f_nonneg f && in_u64 z then Ok (VUInt z) else ferr
              | None => ferr
              end
  | VInt z => if 0 <=? z then Ok (VUInt z) else ferr
  | VUInt z => Ok (VUInt z)
  | _ => ferr
  end.

Definition b_double (this : value) : outcome value :=
  match this with
  | VStr s => match parse_f64_text s with
              | Some f => Ok (VDbl f)
              | None => ferr
              end
  | VDbl f => Ok (VDbl f)
  | VInt z | VUInt z => Ok (VDbl (f64_of_Z z))
  | _ => ferr
  end.

Definition is_word_char (c : N) : bool :=
  (((48 <=? c) && (c <=? 57)) || ((65 <=? c) && (c <=? 90)) || ((97 <=? c) && (c <=? 122)))%N.

Definition run_builtin (b : builtin) (xs : list value) : outcome value :=
  match b, xs with
  | FSize, [t] => b_size t
  | FContains, [t; a] => b_contains t a
  | FMax, [VList args] => v_max args
  | FMin, [VList args] => v_min args
  | FStartsWith, [VStr t; VStr p] => Ok (VBool (is_prefix N.eqb p t))
  | FEndsWith, [VStr t; VStr p] => Ok (VBool (is_suffix N.eqb p t))
  | FMatches, [VStr t; VStr p] =>
      if forallb is_word_char p then Ok (VBool (contains_sub N.eqb p t)) else Err EOracle
  | FString, [t] => b_string t
  | FBytes, [VStr s] => Ok (VBytes (utf8_enc s))
  | FDouble, [t] => b_double t
  | FInt, [t] => b_int t
  | FUint, [t] => b_uint t
  | FDuration, [VStr s] => match parse_duration s with Some ns => Ok (VDur ns) | None => ferr end
  | FTimestamp, [VStr s] =>
      match parse_rfc3339 s with
      | Some (Some (ns, off)) => Ok (VTs ns off)
      | Some None => Err EOracle
      | None => ferr
      end
  | FGetFullYear, [VTs ns off] => Ok (VInt (access AYear ns off))
  | FGetMonth, [VTs ns off] => Ok (VInt (access AMonth ns off))
  | FGetDayOfYear, [VTs ns off] => Ok (VInt (access ADayOfYear ns off))
  | FGetDayOfMonth, [VTs ns off] => Ok (VInt (access ADayOfMonth ns off))
  | FGetDate, [VTs ns off] => Ok (VInt (access ADate ns off))
  | FGetDayOfWeek, [VTs ns off] => Ok (VInt (access ADayOfWeek ns off))
  | FGetHours, [VTs ns off] => Ok (VInt (access AHours ns off))
  | FGetMinutes, [VTs ns off] => Ok (VInt (access AMinutes ns off))
  | FGetSeconds, [VTs ns off] => Ok (VInt (access ASeconds ns off))
  | FGetMilliseconds, [VTs ns off] => Ok (VInt (access AMillis ns off))
  | _, _ => Crash 90      (* extractor signature and body disagree: impossible by default_funs *)
  end.
