(** Text of doubles: Rust's Display for f64 (shortest digits that read back to the same
    double, closest to the exact value among the shortest, printed without an exponent) and
    str::parse::<f64>().  Also decimal text of integers and a strict UTF-8 decoder. *)
From Coq Require Import String Ascii.
From Cel.Model Require Export Literals.

(** ** Decimal digits of a non-negative integer *)
Fixpoint digits_fuel (fuel : nat) (n : Z) (acc : str) : str :=
  match fuel with
  | O => acc
  | S f => if n <? 10 then Z.to_N (48 + n) :: acc
           else digits_fuel f (n / 10) (Z.to_N (48 + n mod 10) :: acc)
  end.
Definition nat_digits (n : Z) : str := digits_fuel (S (Z.to_nat (Z.log2 n))) n [].
Definition Z_text (z : Z) : str :=
  if z <? 0 then 45%N :: nat_digits (- z) else nat_digits z.

(** ** Shortest round-tripping digits of a positive finite double m * 2^e *)
Definition pow10 (k : Z) : Z := 10 ^ k.

(** floor (p / q * 10^(-s)) for positive p q *)
Definition scaled_floor (p q s : Z) : Z :=
  if 0 <=? s then p / (q * pow10 s) else (p * pow10 (- s)) / q.

(** compare the exact value p/q with N * 10^s *)
Definition cmp_scaled (p q n s : Z) : comparison :=
  if 0 <=? s then Z.compare p (n * pow10 s * q) else Z.compare (p * pow10 (- s)) (n * q).

(** decimal exponent t with 10^t <= p/q < 10^(t+1) *)
Fixpoint adjust_up (fuel : nat) (p q t : Z) : Z :=
  match fuel with
  | O => t
  | S f => match cmp_scaled p q 1 (t + 1) with
           | Lt => t
           | _ => adjust_up f p q (t + 1)
           end
  end.
Fixpoint adjust_down (fuel : nat) (p q t : Z) : Z :=
  match fuel with
  | O => t
  | S f => match cmp_scaled p q 1 t with
           | Lt => adjust_down f p q (t - 1)
           | _ => t
           end
  end.
Definition dec_exponent (p q : Z) : Z :=
  let est := ((Z.log2 p - Z.log2 q) * 30103) / 100000 in
  adjust_up 4 p q (adjust_down 4 p q (est + 1)).

Definition roundtrips (f : f64) (n s : Z) : bool :=
  match f, f64_of_decimal false n s with
  | S754_finite _ m e, S754_finite _ m' e' => Pos.eqb m m' && (e =? e')
  | _, _ => false
  end.

(** (N, s): the digits as an integer and the power of ten, value = N * 10^s *)
Fixpoint shortest_search (fuel : nat) (f : f64) (p q t : Z) (n : Z) : Z * Z :=
  match fuel with
  | O => (0, 0)
  | S fuel' =>
      let s := t - (n - 1) in
      let lo := scaled_floor p q s in
      let hi := lo + 1 in
      let lo_ok := (0 <? lo) && roundtrips f lo s in
      let hi_ok := roundtrips f hi s in
      match cmp_scaled p q lo s with
      | Eq => (lo, s)
      | _ =>
          if lo_ok && hi_ok then
            (* the closer one: compare 2*v with (lo + hi) * 10^s *)
            match (if 0 <=? s then Z.compare (2 * p) ((lo + hi) * pow10 s * q)
                   else Z.compare (2 * p * pow10 (- s)) ((lo + hi) * q)) with
            | Gt => (hi, s)
            | Lt => (lo, s)
            | Eq => (hi, s)        (* core::num::flt2dec shortest mode rounds a tie up *)
            end
          else if lo_ok then (lo, s)
          else if hi_ok then (hi, s)
          else shortest_search fuel' f p q t (n + 1)
      end
  end.

Fixpoint strip_trailing_zeros (fuel : nat) (n s : Z) : Z * Z :=
  match fuel with
  | O => (n, s)
  | S f => if (n mod 10 =? 0) && negb (n =? 0) then strip_trailing_zeros f (n / 10) (s + 1) else (n, s)
  end.

Definition shortest_digits (m : positive) (e : Z) : Z * Z :=
  let '(p, q) := if 0 <=? e then (Zpos m * 2 ^ e, 1) else (Zpos m, 2 ^ (- e)) in
  let t := dec_exponent p q in
  let '(n, s) := shortest_search 18 (S754_finite false m e) p q t 1 in
  strip_trailing_zeros 20 n s.

(** Display for f64 (no precision): digits without exponent. *)
Definition zeros (k : Z) : str := repeat 48%N (Z.to_nat k).

Definition f64_to_text (f : f64) : str :=
  match f with
  | S754_nan => $"NaN"
  | S754_infinity s => if s then $"-inf" else $"inf"
  | S754_zero s => if s then $"-0" else $"0"
  | S754_finite sg m e =>
      let '(n, s) := shortest_digits m e in
      let ds := nat_digits n in
      let nd := Z.of_nat (length ds) in
      let point := nd + s in                       (* value = 0.DIGITS * 10^point *)
      let body :=
        if point <=? 0 then $"0." ++ zeros (- point) ++ ds
        else if nd <=? point then ds ++ zeros (point - nd)
        else firstn (Z.to_nat point) ds ++ [46%N] ++ skipn (Z.to_nat point) ds in
      if sg then 45%N :: body else body
  end.

(** ** str::parse::<f64>() *)
Definition lower (c : N) : N := if ((65 <=? c) && (c <=? 90))%N then (c + 32)%N else c.

Definition parse_f64_text (t : str) : option f64 :=
  let '(neg, r) := match t with
                   | c :: r' => if (c =? 45)%N then (true, r') else if (c =? 43)%N then (false, r') else (false, t)
                   | [] => (false, t)
                   end in
  let lr := map lower r in
  if str_eqb lr $"nan" then Some S754_nan
  else if str_eqb lr $"inf" || str_eqb lr $"infinity" then Some (S754_infinity neg)
  else
    let '(ip, r1) := span is_digit r in
    let '(fp, r2) := match r1 with
                     | d :: r1' => if (d =? 46)%N then span is_digit r1' else ([], r1)
                     | [] => ([], r1)
                     end in
    match ip ++ fp with
    | [] => None
    | _ =>
        let ev := match r2 with
                  | [] => Some 0
                  | e :: r3 =>
                      if ((e =? ch "e") || (e =? ch "E"))%N then
                        let '(sgn, r4) := match r3 with
                                          | sg :: r4' => if (sg =? 45)%N then (-1, r4')
                                                         else if (sg =? 43)%N then (1, r4') else (1, r3)
                                          | [] => (1, r3)
                                          end in
                        match r4 with
                        | [] => None
                        | _ => if forallb is_digit r4 then Some (sgn * dec_num r4 0) else None
                        end
                      else None
                  end in
        match ev with
        | None => None
        | Some ex =>
            let sd := strip_zeros (ip ++ fp) in
            let m := dec_num sd 0 in
            let nd := Z.of_nat (length sd) in
            let e10 := ex - Z.of_nat (length fp) in
            if m =? 0 then Some (S754_zero neg)
            else if 310 <? e10 + nd then Some (S754_infinity neg)
            else if e10 + nd <? -330 then Some (S754_zero neg)
            else Some (f64_of_decimal neg m e10)
        end
    end.

(** ** Strict UTF-8 decoding ([None] on any ill-formed sequence) *)
Fixpoint utf8_decode (fuel : nat) (b : list N) (acc : str) : option str :=
  match fuel with
  | O => None
  | S f =>
      match b with
      | [] => Some (rev' acc)
      | b0 :: r =>
          let cont (x : N) := ((128 <=? x) && (x <=? 191))%N in
          if (b0 <? 128)%N then utf8_decode f r (b0 :: acc)
          else if ((194 <=? b0) && (b0 <=? 223))%N then
            match r with
            | b1 :: r' => if cont b1 then utf8_decode f r' (((b0 - 192) * 64 + (b1 - 128))%N :: acc) else None
            | _ => None
            end
          else if ((224 <=? b0) && (b0 <=? 239))%N then
            match r with
            | b1 :: b2 :: r' =>
                let c := ((b0 - 224) * 4096 + (b1 - 128) * 64 + (b2 - 128))%N in
                if cont b1 && cont b2 && (2048 <=? c)%N && is_scalar c then utf8_decode f r' (c :: acc) else None
            | _ => None
            end
          else if ((240 <=? b0) && (b0 <=? 244))%N then
            match r with
            | b1 :: b2 :: b3 :: r' =>
                let c := ((b0 - 240) * 262144 + (b1 - 128) * 4096 + (b2 - 128) * 64 + (b3 - 128))%N in
                if cont b1 && cont b2 && cont b3 && (65536 <=? c)%N && (c <? 1114112)%N
                then utf8_decode f r' (c :: acc) else None
            | _ => None
            end
          else None
      end
  end.
Definition utf8_dec (b : list N) : option str := utf8_decode (S (length b)) b [].
