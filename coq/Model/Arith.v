(** The arithmetic operators on [Value] (objects.rs: impl ops::Add/Sub/Mul/Div/Rem for Value,
    and the unary minus arm of Value::resolve).  Definitions only. *)
From Cel.Model Require Export Values.

Definition ts_min_ns : Z := -8334601228800000000000.   (* -262143-01-01T00:00:00Z *)
Definition ts_max_ns : Z := 8210266876799999999999.    (* +262142-12-31T23:59:59.999999999Z *)
Definition ts_in_range (ns : Z) : bool := (ts_min_ns <=? ns) && (ns <=? ts_max_ns).

Definition chk_i64 (z : Z) : outcome value := if in_i64 z then Ok (VInt z) else Err EOverflow.
Definition chk_u64 (z : Z) : outcome value := if in_u64 z then Ok (VUInt z) else Err EOverflow.
Definition chk_dur (z : Z) : outcome value := if in_i64 z then Ok (VDur z) else Err EOverflow.
Definition chk_ts (ns off : Z) : outcome value :=
  if ts_in_range ns then Ok (VTs ns off) else Err EOverflow.

Definition v_add (a b : value) : outcome value :=
  match a, b with
  | VInt l, VInt r => chk_i64 (l + r)
  | VUInt l, VUInt r => chk_u64 (l + r)
  | VDbl l, VDbl r => Ok (VDbl (fadd l r))
  | VList l, VList r => Ok (VList (l ++ r))
  | VStr l, VStr r => Ok (VStr (l ++ r))
  | VDur l, VDur r => chk_dur (l + r)
  | VTs l o, VDur r => chk_ts (l + r) o
  | VDur l, VTs r o => chk_ts (r + l) o
  | _, _ => Err EInvalid
  end.

Definition v_sub (a b : value) : outcome value :=
  match a, b with
  | VInt l, VInt r => chk_i64 (l - r)
  | VUInt l, VUInt r => chk_u64 (l - r)
  | VDbl l, VDbl r => Ok (VDbl (fsub l r))
  | VDur l, VDur r => chk_dur (l - r)
  | VTs l o, VDur r => chk_ts (l - r) o
  | VTs l _, VTs r _ => Ok (VDur (l - r))
  | _, _ => Err EInvalid
  end.

Definition v_mul (a b : value) : outcome value :=
  match a, b with
  | VInt l, VInt r => chk_i64 (l * r)
  | VUInt l, VUInt r => chk_u64 (l * r)
  | VDbl l, VDbl r => Ok (VDbl (fmul l r))
  | _, _ => Err EInvalid
  end.

Definition v_div (a b : value) : outcome value :=
  match a, b with
  | VInt l, VInt r => if r =? 0 then Err EDivZero else chk_i64 (Z.quot l r)
  | VUInt l, VUInt r => if r =? 0 then Err EDivZero else Ok (VUInt (Z.quot l r))
  | VDbl l, VDbl r => Ok (VDbl (fdiv l r))
  | _, _ => Err EInvalid
  end.

(** checked_rem reports overflow for MIN % -1 (the quotient overflows), as the code does. *)
Definition v_rem (a b : value) : outcome value :=
  match a, b with
  | VInt l, VInt r =>
      if r =? 0 then Err EDivZero
      else if in_i64 (Z.quot l r) then Ok (VInt (Z.rem l r)) else Err EOverflow
  | VUInt l, VUInt r => if r =? 0 then Err EDivZero else Ok (VUInt (Z.rem l r))
  | _, _ => Err EInvalid
  end.

Definition v_neg (a : value) : outcome value :=
  match a with
  | VInt i => chk_i64 (- i)
  | VDbl f => Ok (VDbl (fopp f))
  | _ => Err EInvalid
  end.
