(** Wire forms of surface terms, types and type environments (C03). *)
From Cel.Model Require Export Wire Spec.
Open Scope string_scope.

Fixpoint ty_of_sexp (x : sexp) : option ty :=
  match x with
  | Atom a =>
      if a =? "int" then Some TyI else if a =? "uint" then Some TyU else if a =? "dbl" then Some TyD
      else if a =? "bool" then Some TyB else if a =? "str" then Some TyS else if a =? "bytes" then Some TyY
      else if a =? "null" then Some TyN else if a =? "any" then Some TyAny else None
  | SList [Atom t; a] => if t =? "list" then option_map TyL (ty_of_sexp a) else None
  | SList [Atom t; a; b] =>
      if t =? "map" then match ty_of_sexp a, ty_of_sexp b with
                         | Some k, Some v => Some (TyM k v)
                         | _, _ => None
                         end
      else None
  | _ => None
  end.

Fixpoint sexp_of_ty (t : ty) : sexp :=
  match t with
  | TyI => Atom "int" | TyU => Atom "uint" | TyD => Atom "dbl" | TyB => Atom "bool" | TyS => Atom "str"
  | TyY => Atom "bytes" | TyN => Atom "null" | TyAny => Atom "any"
  | TyL a => tagged "list" [sexp_of_ty a]
  | TyM k v => tagged "map" [sexp_of_ty k; sexp_of_ty v]
  end.

Definition binop_of_atom (a : string) : option binop :=
  if a =? "add" then Some BAdd else if a =? "sub" then Some BSub else if a =? "mul" then Some BMul
  else if a =? "div" then Some BDiv else if a =? "rem" then Some BRem else if a =? "eq" then Some BEq
  else if a =? "ne" then Some BNe else if a =? "lt" then Some BLt else if a =? "le" then Some BLe
  else if a =? "gt" then Some BGt else if a =? "ge" then Some BGe else if a =? "in" then Some BIn
  else if a =? "index" then Some BIndex else None.

Definition sfn_of_atom (a : string) : option sfn :=
  if a =? "size" then Some SSize else if a =? "contains" then Some SContains
  else if a =? "startsWith" then Some SStartsWith else if a =? "endsWith" then Some SEndsWith
  else if a =? "string" then Some SString else if a =? "bytes" then Some SBytes
  else if a =? "double" then Some SDouble else if a =? "int" then Some SInt else if a =? "uint" then Some SUint
  else if a =? "max" then Some SMax else if a =? "min" then Some SMin else None.

Fixpoint texpr_of_sexp (x : sexp) : option texpr :=
  let many := (fix go (l : list sexp) : option (list texpr) :=
                 match l with
                 | [] => Some []
                 | y :: l' => match texpr_of_sexp y, go l' with
                              | Some e, Some es => Some (e :: es)
                              | _, _ => None
                              end
                 end) in
  let macro (mk : str -> texpr -> texpr -> texpr) (args : list sexp) : option texpr :=
    match args with
    | [n; r; b] => match opt_str n, texpr_of_sexp r, texpr_of_sexp b with
                   | Some n', Some r', Some b' => Some (mk n' r' b')
                   | _, _, _ => None
                   end
    | _ => None
    end in
  match x with
  | SList (Atom t :: args) =>
      if t =? "lit" then match args with [v] => option_map TLit (value_of_sexp v) | _ => None end
      else if t =? "var" then match args with [n] => option_map TVar (opt_str n) | _ => None end
      else if t =? "un" then
        match args with
        | [Atom o; a] =>
            match texpr_of_sexp a with
            | Some a' => if o =? "not" then Some (TUn UNot a') else if o =? "neg" then Some (TUn UNeg a') else None
            | None => None
            end
        | _ => None
        end
      else if t =? "bin" then
        match args with
        | [Atom o; a; b] => match binop_of_atom o, texpr_of_sexp a, texpr_of_sexp b with
                            | Some o', Some a', Some b' => Some (TBin o' a' b')
                            | _, _, _ => None
                            end
        | _ => None
        end
      else if t =? "and" then
        match args with [a; b] => match texpr_of_sexp a, texpr_of_sexp b with
                                  | Some a', Some b' => Some (TAnd a' b') | _, _ => None end
                      | _ => None end
      else if t =? "or" then
        match args with [a; b] => match texpr_of_sexp a, texpr_of_sexp b with
                                  | Some a', Some b' => Some (TOr a' b') | _, _ => None end
                      | _ => None end
      else if t =? "cond" then
        match args with
        | [c; a; b] => match texpr_of_sexp c, texpr_of_sexp a, texpr_of_sexp b with
                       | Some c', Some a', Some b' => Some (TCond c' a' b')
                       | _, _, _ => None
                       end
        | _ => None
        end
      else if t =? "tlist" then option_map TList (many args)
      else if t =? "tmap" then
        option_map TMap ((fix go (l : list sexp) : option (list (texpr * texpr)) :=
                            match l with
                            | [] => Some []
                            | SList [k; v] :: l' => match texpr_of_sexp k, texpr_of_sexp v, go l' with
                                                    | Some k', Some v', Some r => Some ((k', v') :: r)
                                                    | _, _, _ => None
                                                    end
                            | _ => None
                            end) args)
      else if t =? "sel" then
        match args with [a; n] => match texpr_of_sexp a, opt_str n with
                                  | Some a', Some n' => Some (TSelect a' n') | _, _ => None end
                      | _ => None end
      else if t =? "has" then
        match args with [a; n] => match texpr_of_sexp a, opt_str n with
                                  | Some a', Some n' => Some (THas a' n') | _, _ => None end
                      | _ => None end
      else if t =? "call" then
        match args with
        | Atom f :: Atom style :: rest =>
            match sfn_of_atom f, many rest with
            | Some f', Some es => Some (TCall f' (style =? "recv") es)
            | _, _ => None
            end
        | _ => None
        end
      else if t =? "all" then macro TAll args
      else if t =? "exists" then macro TExists args
      else if t =? "exists1" then macro TExistsOne args
      else if t =? "filter" then macro TFilter args
      else if t =? "mapm" then macro (fun x r b => TMapM x r None b) args
      else if t =? "mapf" then
        match args with
        | [n; r; p; b] => match opt_str n, texpr_of_sexp r, texpr_of_sexp p, texpr_of_sexp b with
                          | Some n', Some r', Some p', Some b' => Some (TMapM n' r' (Some p') b')
                          | _, _, _, _ => None
                          end
        | _ => None
        end
      else None
  | _ => None
  end.

Definition tenv_of_sexp (x : sexp) : option tenv :=
  match x with
  | SList (Atom t :: args) =>
      if t =? "tenv" then
        opt_map_list (fun b => match b with
                               | SList [n; ty] => match opt_str n, ty_of_sexp ty with
                                                  | Some n', Some t' => Some (n', t')
                                                  | _, _ => None
                                                  end
                               | _ => None
                               end) args
      else None
  | _ => None
  end.
