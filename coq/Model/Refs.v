(** Program::references (antlr/src/references.rs): the variable and function names an
    expression mentions; identifiers starting with '@' (macro accumulators) are not reported. *)
From Coq Require Import String.
From Cel.Model Require Export Ast.

Definition starts_at (x : str) : bool :=
  match x with c :: _ => (c =? 64)%N | [] => false end.

Fixpoint ref_vars (e : expr) : list str :=
  match e with
  | EUnspec | ELit _ => []
  | EIdent x => if starts_at x then [] else [x]
  | ECall _ t args =>
      match t with Some t' => ref_vars t' | None => [] end ++
      (fix go (l : list expr) : list str := match l with [] => [] | a :: l' => ref_vars a ++ go l' end) args
  | ESelect o _ _ => ref_vars o
  | EList es => (fix go (l : list expr) : list str := match l with [] => [] | a :: l' => ref_vars a ++ go l' end) es
  | EMap es => (fix go (l : list (expr * expr)) : list str :=
                  match l with [] => [] | (k, v) :: l' => ref_vars k ++ ref_vars v ++ go l' end) es
  | EStruct _ fs => (fix go (l : list (str * expr)) : list str :=
                       match l with [] => [] | (_, v) :: l' => ref_vars v ++ go l' end) fs
  | EComp r _ _ i c s res => ref_vars r ++ ref_vars i ++ ref_vars c ++ ref_vars s ++ ref_vars res
  end.

Fixpoint ref_funs (e : expr) : list str :=
  match e with
  | EUnspec | ELit _ | EIdent _ => []
  | ECall f t args =>
      f :: match t with Some t' => ref_funs t' | None => [] end ++
      (fix go (l : list expr) : list str := match l with [] => [] | a :: l' => ref_funs a ++ go l' end) args
  | ESelect o _ _ => ref_funs o
  | EList es => (fix go (l : list expr) : list str := match l with [] => [] | a :: l' => ref_funs a ++ go l' end) es
  | EMap es => (fix go (l : list (expr * expr)) : list str :=
                  match l with [] => [] | (k, v) :: l' => ref_funs k ++ ref_funs v ++ go l' end) es
  | EStruct _ fs => (fix go (l : list (str * expr)) : list str :=
                       match l with [] => [] | (_, v) :: l' => ref_funs v ++ go l' end) fs
  | EComp r _ _ i c s res => ref_funs r ++ ref_funs i ++ ref_funs c ++ ref_funs s ++ ref_funs res
  end.

(** Free identifiers: occurrences not bound by an enclosing comprehension (the accumulator is
    visible in condition, step and result; the iteration variable in the step). *)
Definition rm (x : str) (l : list str) : list str := filter (fun y => negb (str_eqb y x)) l.

(** free identifiers: occurrences not bound by an enclosing comprehension *)
Fixpoint fv (e : expr) : list str :=
  match e with
  | EUnspec | ELit _ => []
  | EIdent x => [x]
  | ECall _ t args =>
      match t with Some t' => fv t' | None => [] end ++
      (fix go (l : list expr) : list str := match l with [] => [] | a :: l' => fv a ++ go l' end) args
  | ESelect o _ _ => fv o
  | EList es => (fix go (l : list expr) : list str := match l with [] => [] | a :: l' => fv a ++ go l' end) es
  | EMap es => (fix go (l : list (expr * expr)) : list str :=
                  match l with [] => [] | (k, v) :: l' => fv k ++ fv v ++ go l' end) es
  | EStruct _ _ => []
  | EComp r iv av i c s res =>
      fv r ++ fv i ++ rm av (fv c) ++ rm iv (rm av (fv s)) ++ rm av (fv res)
  end.

Definition no_free_at (e : expr) : bool := forallb (fun x => negb (starts_at x)) (fv e).

(** Sorted, duplicate-free form (for the wire). *)
Fixpoint insert_sorted (x : str) (l : list str) : list str :=
  match l with
  | [] => [x]
  | y :: l' => match str_cmp x y with
               | Lt => x :: l
               | Eq => l
               | Gt => y :: insert_sorted x l'
               end
  end.
Definition sort_dedup (l : list str) : list str := fold_right insert_sorted [] l.
