(** Program::references (antlr/src/references.rs): the variable and function names an
    expression mentions; identifiers starting with '@' (macro accumulators) are not reported. *)
From Coq Require Import String.
From Cel.Model Require Export Ast.

Definition starts_at (x : str) : bool :=
  match x with c :: _ => (c =? 64)%N | [] => false end.

Fixpoint ref_vars (e : expr) : list str :=
  match e with
  | EUnspec | ELit _ => []
  | EIdent x => if starts_at x then [] else [x]
  | ECall _ t args =>
      match t with Some t' => ref_vars t' | None => [] end ++
      (fix go (l : list expr) : list str := match l with [] => [] | a :: l' => ref_vars a ++ go l' end) args
  | ESelect o _ _ => ref_vars o
  | EList es => (fix go (l : list expr) : list str := match l with [] => [] | a :: l' => ref_vars a ++ go l' end) es
  | EMap es => (fix go (l : list (expr * expr)) : list str :=
                  match l with [] => [] | (k, v) :: l' => ref_vars k ++ ref_vars v ++ go l' end) es
  | EStruct _ fs => (fix go (l : list (str * expr)) : list str :=
                       match l with [] => [] | (_, v) :: l' => ref_vars v ++ go l' end) fs
  | EComp r _ _ i c s res => ref_vars r ++ ref_vars i ++ ref_vars c ++ ref_vars s ++ ref_vars res
  end.

Fixpoint ref_funs (e : expr) : list str :=
  match e with
  | EUnspec | ELit _ | EIdent _ => []
  | ECall f t args =>
      f :: match t with Some t' => ref_funs t' | None => [] end ++
      (fix go (l : list expr) : list str := match l with [] => [] | a :: l' => ref_funs a ++ go l' end) args
  | ESelect o _ _ => ref_funs o
  | EList es => (fix go (l : list expr) : list str := match l with [] => [] | a :: l' => ref_funs a ++ go l' end) es
  | EMap es => (fix go (l : list (expr * expr)) : list str :=
                  match l with [] => [] | (k, v) :: l' => ref_funs k ++ ref_funs v ++ go l' end) es
  | EStruct _ fs => (fix go (l : list (str * expr)) : list str :=
                       match l with [] => [] | (_, v) :: l' => ref_funs v ++ go l' end) fs
  | EComp r _ _ i c s res => ref_funs r ++ ref_funs i ++ ref_funs c ++ ref_funs s ++ ref_funs res
  end.

(** Sorted, duplicate-free form (for the wire). *)
Fixpoint insert_sorted (x : str) (l : list str) : list str :=
  match l with
  | [] => [x]
  | y :: l' => match str_cmp x y with
               | Lt => x :: l
               | Eq => l
               | Gt => y :: insert_sorted x l'
               end
  end.
Definition sort_dedup (l : list str) : list str := fold_right insert_sorted [] l.
