(** Durations as text (interpreter/src/duration.rs): [format_duration], a port of Go's
    time.Duration.String, and [parse_duration], a port of Go's time.ParseDuration with exact
    integer arithmetic.  A duration is its signed nanosecond count. *)
From Coq Require Import String Ascii.
From Cel.Model Require Export FloatText.

Definition u64_mod : Z := 18446744073709551616.

(** digits of [n] padded on the left with zeros to [width] *)
Definition pad_digits (width : nat) (n : Z) : str :=
  let ds := nat_digits n in
  repeat 48%N (width - length ds) ++ ds.

Fixpoint strip_trailing (l : str) : str :=
  match l with
  | [] => []
  | c :: r => match strip_trailing r with
              | [] => if (c =? 48)%N then [] else [c]
              | r' => c :: r'
              end
  end.

(** format_float: the fraction (with its '.') of v / 10^prec and the integer part *)
Definition fmt_frac (v : Z) (prec : nat) : str * Z :=
  let p := 10 ^ Z.of_nat prec in
  let fr := strip_trailing (pad_digits prec (v mod p)) in
  (match fr with [] => [] | _ => 46%N :: fr end, v / p).

Definition format_duration (d : Z) : str :=
  let neg := d <? 0 in
  let u := if in_i64 d then Z.abs d
           else Z.min (Z.abs (Z.quot d 1000000000) * 1000000000) (u64_mod - 1) in
  let body :=
    if u =? 0 then $"0s"
    else if u <? 1000000000 then
      let '(prec, unit) := if u <? 1000 then (0%nat, $"ns")
                           else if u <? 1000000 then (3%nat, [194; 181; 115]%N)   (* "µs" in UTF-8 *)
                           else (6%nat, $"ms") in
      let '(fr, ip) := fmt_frac u prec in
      nat_digits ip ++ fr ++ unit
    else
      let '(fr, secs) := fmt_frac u 9 in
      let s := secs mod 60 in
      let mins := secs / 60 in
      let tail := nat_digits s ++ fr ++ $"s" in
      if mins =? 0 then tail
      else
        let m := mins mod 60 in
        let hrs := mins / 60 in
        let tail2 := nat_digits m ++ $"m" ++ tail in
        if hrs =? 0 then tail2 else nat_digits hrs ++ $"h" ++ tail2 in
  if neg then 45%N :: body else body.

(** The string [format_duration] yields is a Rust String built with from_utf8_lossy over the
    bytes above; as code points the micro sign is one character. *)
Definition format_duration_str (d : Z) : str :=
  match utf8_dec (format_duration d) with Some s => s | None => [] end.

(** ** parse_duration *)
Definition unit_ns (u : str) : option Z :=
  if str_eqb u $"ns" then Some 1
  else if str_eqb u $"us" || str_eqb u [181; 115]%N || str_eqb u [956; 115]%N then Some 1000
  else if str_eqb u $"ms" then Some 1000000
  else if str_eqb u $"s" then Some 1000000000
  else if str_eqb u $"m" then Some 60000000000
  else if str_eqb u $"h" then Some 3600000000000
  else None.

Definition limit63 : Z := 9223372036854775808.

Definition is_num_char (c : N) : bool := is_digit c || (c =? 46)%N.

(** one term at the start of [s]: its nanoseconds and the rest *)
Definition parse_term (s : str) : option (Z * str) :=
  let '(ip, r) := span is_digit s in
  let '(fp, r1) := match r with
                   | d :: r' => if (d =? 46)%N then span is_digit r' else ([], r)
                   | [] => ([], r)
                   end in
  match ip ++ fp with
  | [] => None
  | _ =>
      let '(u, rest) := span (fun c => negb (is_num_char c)) r1 in
      match unit_ns u with
      | None => None
      | Some ns =>
          let whole := dec_num ip 0 * ns in
          if limit63 <? whole then None
          else
            let fp' := firstn 25 fp in
            let fr := dec_num fp' 0 * ns / 10 ^ Z.of_nat (length fp') in
            Some (whole + fr, rest)
      end
  end.

Fixpoint parse_terms (fuel : nat) (s : str) (total : Z) : option Z :=
  match s with
  | [] => Some total
  | _ =>
      match fuel with
      | O => None
      | S f =>
          match parse_term s with
          | Some (t, rest) => let total' := total + t in
                              if limit63 <? total' then None else parse_terms f rest total'
          | None => None
          end
      end
  end.

Definition parse_duration (s : str) : option Z :=
  let '(neg, r) := match s with
                   | c :: r' => if (c =? 45)%N then (true, r') else if (c =? 43)%N then (false, r') else (false, s)
                   | [] => (false, s)
                   end in
  if str_eqb r $"0" then Some 0
  else match r with
       | [] => None
       | _ => match parse_terms (S (length r)) r 0 with
              | Some t => if neg then Some (- t) else if t <? limit63 then Some t else None
              | None => None
              end
       end.
