(** JSON: Value::json (interpreter/src/json.rs), serde_json's own serializer on the serde data
    model ([json_direct]), and JSON documents as serde data ([sdata_of_json]). *)
From Coq Require Import String Ascii.
From Cel.Model Require Export Serde Builtins.

(** serde_json::Number: an integer, or a finite double. *)
Inductive json :=
| JNull | JBool (b : bool) | JInt (z : Z) | JFloat (f : f64) | JStr (s : str)
| JArr (l : list json) | JObj (m : list (str * json)).

Definition jnum_of_f64 (f : f64) : json := if is_finite f then JFloat f else JNull.

(** serde_json::Map::insert: replace on equal key (order is not compared: objects are sets). *)
Fixpoint jobj_set (k : str) (v : json) (m : list (str * json)) : list (str * json) :=
  match m with
  | [] => [(k, v)]
  | (k', v') :: m' => if str_eqb k k' then (k, v) :: m' else (k', v') :: jobj_set k v m'
  end.

(** RFC 4648 base64, standard alphabet, padded *)
Definition b64_char (n : N) : N :=
  (if n <? 26 then 65 + n else if n <? 52 then 97 + (n - 26) else if n <? 62 then 48 + (n - 52)
   else if n =? 62 then 43 else 47)%N.
Fixpoint base64 (b : list N) : str :=
  match b with
  | [] => []
  | [x] => [b64_char (x / 4); b64_char ((x mod 4) * 16); 61; 61]%N
  | [x; y] => [b64_char (x / 4); b64_char ((x mod 4) * 16 + y / 16); b64_char ((y mod 16) * 4); 61]%N
  | x :: y :: z :: r =>
      [b64_char (x / 4); b64_char ((x mod 4) * 16 + y / 16); b64_char ((y mod 16) * 4 + z / 64);
       b64_char (z mod 64)]%N ++ base64 r
  end.

(** Value::json.  Error classes: EInvalid (a function value), EOverflow (duration too large). *)
Fixpoint json_of_value (v : value) : outcome json :=
  match v with
  | VList l =>
      (fix go (l : list value) (acc : list json) : outcome json :=
         match l with
         | [] => Ok (JArr (rev' acc))
         | x :: l' => match json_of_value x with
                      | Ok j => go l' (j :: acc)
                      | Err c => Err c
                      | Crash s => Crash s
                      end
         end) l []
  | VMap m =>
      (fix go (l : list (key * value)) (acc : list (str * json)) : outcome json :=
         match l with
         | [] => Ok (JObj acc)
         | (k, x) :: l' => match json_of_value x with
                           | Ok j => go l' (jobj_set (key_text k) j acc)
                           | Err c => Err c
                           | Crash s => Crash s
                           end
         end) m []
  | VInt z | VUInt z => Ok (JInt z)
  | VDbl f => Ok (jnum_of_f64 f)
  | VStr s => Ok (JStr s)
  | VBool b => Ok (JBool b)
  | VBytes b => Ok (JStr (base64 b))
  | VNull => Ok JNull
  | VTs ns off => Ok (JStr (rfc3339 ns off))
  | VDur ns => if in_i64 ns then Ok (JInt ns) else Err EOverflow
  | VFun _ _ => Err EInvalid
  end.

(** serde_json::to_value on the serde data model (serde_json 1.0.151): map keys must be
    strings, chars, integers, bools, finite floats, unit variants or newtypes of those. *)
Fixpoint jkey (d : sdata) : outcome str :=
  match d with
  | SBool b => Ok (if b then $"true" else $"false")
  | SInt z | SUint z => Ok (Z_to_str z)
  | SChar c => Ok [c]
  | SStr s => Ok s
  | SUnitVariant v => Ok v
  | SNewtypeStruct d' => jkey d'
  | SFloat f => if is_finite f then Err EOracle else Err EInvalid   (* finite: text not modelled *)
  | SBig | STimestamp _ _ => Err EOracle
  | _ => Err EInvalid
  end.

Fixpoint json_direct (d : sdata) : outcome json :=
  let seq := (fix go (l : list sdata) (acc : list json) : outcome (list json) :=
                match l with
                | [] => Ok (rev' acc)
                | x :: l' => match json_direct x with
                             | Ok j => go l' (j :: acc)
                             | Err c => Err c
                             | Crash s => Crash s
                             end
                end) in
  let fields := (fix go (l : list (str * sdata)) (m : list (str * json)) : outcome (list (str * json)) :=
                   match l with
                   | [] => Ok m
                   | (n, x) :: l' => match json_direct x with
                                     | Ok j => go l' (jobj_set n j m)
                                     | Err c => Err c
                                     | Crash s => Crash s
                                     end
                   end) in
  match d with
  | SBool b => Ok (JBool b)
  | SInt z | SUint z => Ok (JInt z)
  | SBig => Err EOracle
  | SFloat f => Ok (jnum_of_f64 f)
  | SChar c => Ok (JStr [c])
  | SStr s => Ok (JStr s)
  | SBytes b => Ok (JArr (map (fun x => JInt (Z.of_N x)) b))
  | SNone | SUnit | SUnitStruct => Ok JNull
  | SSome d' => json_direct d'
  | SUnitVariant v => Ok (JStr v)
  | SNewtypeStruct d' => json_direct d'
  | SNewtypeVariant v d' => let! j := json_direct d' in Ok (JObj [(v, j)])
  | SSeq l | STuple l | STupleStruct l => let! js := seq l [] in Ok (JArr js)
  | STupleVariant v l => let! js := seq l [] in Ok (JObj [(v, JArr js)])
  | SMap entries =>
      (fix go (l : list (sdata * sdata)) (m : list (str * json)) : outcome json :=
         match l with
         | [] => Ok (JObj m)
         | (k, x) :: l' =>
             match jkey k with
             | Ok k' => match json_direct x with
                        | Ok j => go l' (jobj_set k' j m)
                        | Err c => Err c
                        | Crash s => Crash s
                        end
             | Err c => Err c
             | Crash s => Crash s
             end
         end) entries []
  | SStruct fs => let! m := fields fs [] in Ok (JObj m)
  | SStructVariant v fs => let! m := fields fs [] in Ok (JObj [(v, JObj m)])
  | SDuration _ => Err EOracle       (* serde_json sees a {secs, nanos} struct: not comparable *)
  | STimestamp _ _ => Err EOracle   (* chrono's own Serialize text ("Z" for UTC): not modelled *)
  end.

(** A JSON document as the serde data serde_json::Value's Serialize impl produces. *)
Fixpoint sdata_of_json (j : json) : sdata :=
  match j with
  | JNull => SUnit
  | JBool b => SBool b
  | JInt z => if z <? 0 then SInt z else SUint z
  | JFloat f => SFloat f
  | JStr s => SStr s
  | JArr l => SSeq (map sdata_of_json l)
  | JObj m => SMap (map (fun kv => (SStr (fst kv), sdata_of_json (snd kv))) m)
  end.

(** The nested loops above under names (the proofs reason about these). *)
Fixpoint jv_list (l : list value) (acc : list json) : outcome json :=
  match l with
  | [] => Ok (JArr (rev' acc))
  | x :: l' => match json_of_value x with
               | Ok j => jv_list l' (j :: acc)
               | Err c => Err c
               | Crash s => Crash s
               end
  end.
Fixpoint jv_map (l : list (key * value)) (acc : list (str * json)) : outcome json :=
  match l with
  | [] => Ok (JObj acc)
  | (k, x) :: l' => match json_of_value x with
                    | Ok j => jv_map l' (jobj_set (key_text k) j acc)
                    | Err c => Err c
                    | Crash s => Crash s
                    end
  end.
Fixpoint jd_seq (l : list sdata) (acc : list json) : outcome (list json) :=
  match l with
  | [] => Ok (rev' acc)
  | x :: l' => match json_direct x with
               | Ok j => jd_seq l' (j :: acc)
               | Err c => Err c
               | Crash s => Crash s
               end
  end.
Fixpoint jd_fields (l : list (str * sdata)) (m : list (str * json)) : outcome (list (str * json)) :=
  match l with
  | [] => Ok m
  | (n, x) :: l' => match json_direct x with
                    | Ok j => jd_fields l' (jobj_set n j m)
                    | Err c => Err c
                    | Crash s => Crash s
                    end
  end.
Fixpoint jd_map (l : list (sdata * sdata)) (m : list (str * json)) : outcome json :=
  match l with
  | [] => Ok (JObj m)
  | (k, x) :: l' =>
      match jkey k with
      | Ok k' => match json_direct x with
                 | Ok j => jd_map l' (jobj_set k' j m)
                 | Err c => Err c
                 | Crash s => Crash s
                 end
      | Err c => Err c
      | Crash s => Crash s
      end
  end.

(** ** JSON-representable host data: nothing that JSON has no type for (bytes, 128-bit integers,
    the duration / timestamp wrappers), map keys serde_json accepts, and key texts distinct
    within each map or struct (hash maps iterate in no defined order, so with colliding
    texts the exported object is not determined). *)
Definition jkey_ok (d : sdata) : bool := match jkey d with Ok _ => true | _ => false end.
Definition jkey_text (d : sdata) : str := match jkey d with Ok t => t | _ => [] end.
Fixpoint str_distinct (l : list str) : bool :=
  match l with
  | [] => true
  | s :: l' => negb (existsb (str_eqb s) l') && str_distinct l'
  end.
Fixpoint jrepr (d : sdata) : bool :=
  match d with
  | SBig | SBytes _ | SDuration _ | STimestamp _ _ => false
  | SSome d' | SNewtypeStruct d' | SNewtypeVariant _ d' => jrepr d'
  | SSeq l | STuple l | STupleStruct l | STupleVariant _ l => forallb jrepr l
  | SMap es =>
      forallb (fun kx => match kx with (k, x) => jkey_ok k && jrepr x end) es &&
      str_distinct (map (fun kx => jkey_text (fst kx)) es)
  | SStruct fs | SStructVariant _ fs =>
      forallb (fun nx => match nx with (_, x) => jrepr x end) fs && str_distinct (map fst fs)
  | _ => true
  end.

(** Data [to_value] accepts. *)
Fixpoint key_okb (d : sdata) : bool :=
  match d with
  | SBool _ | SInt _ | SUint _ | SChar _ | SStr _ | SUnitVariant _ => true
  | SSome d' | SNewtypeStruct d' => key_okb d'
  | _ => false
  end.
Fixpoint supported (d : sdata) : bool :=
  match d with
  | SBig => false
  | STimestamp _ off => (Z.abs off + 30) / 60 <? 1440
  | SSome d' | SNewtypeStruct d' | SNewtypeVariant _ d' => supported d'
  | SSeq l | STuple l | STupleStruct l | STupleVariant _ l => forallb supported l
  | SMap es => forallb (fun kx => match kx with (k, x) => key_okb k && supported x end) es
  | SStruct fs | SStructVariant _ fs => forallb (fun nx => match nx with (_, x) => supported x end) fs
  | _ => true
  end.

(** Values [json_of_value] exports. *)
Fixpoint exportable (v : value) : bool :=
  match v with
  | VFun _ _ => false
  | VDur ns => in_i64 ns
  | VList l => forallb exportable l
  | VMap m => forallb (fun kv => match kv with (_, x) => exportable x end) m
  | _ => true
  end.

(** JSON-native values: the types JSON has, string keys, finite doubles, distinct keys. *)
Fixpoint json_native (v : value) : bool :=
  match v with
  | VNull | VBool _ | VInt _ | VUInt _ | VStr _ => true
  | VDbl f => is_finite f
  | VList l => forallb json_native l
  | VMap m =>
      forallb (fun kv => match kv with (KStr _, x) => json_native x | _ => false end) m &&
      str_distinct (map (fun kv => key_text (fst kv)) m)
  | _ => false
  end.
