(** Wire forms for the heap model (C05). *)
From Cel.Model Require Export Wire Heap.
Open Scope string_scope.

Fixpoint hexpr_of_sexp (x : sexp) : option hexpr :=
  match x with
  | SList (Atom t :: args) =>
      if t =? "xint" then match args with [z] => option_map XInt (sexp_Z z) | _ => None end
      else if t =? "xvar" then match args with [i] => option_map (fun n => XVar (N.to_nat n)) (sexp_N i) | _ => None end
      else if t =? "xlist" then option_map XListLit (opt_map_list sexp_Z args)
      else if t =? "xstr" then option_map XStrLit (str_of_sexps args)
      else if t =? "xadd" then
        match args with
        | [a; b] => match hexpr_of_sexp a, hexpr_of_sexp b with
                    | Some a', Some b' => Some (XAdd a' b')
                    | _, _ => None
                    end
        | _ => None
        end
      else None
  | _ => None
  end.

(** an environment: every buffer gets its own cell owned once (by the context) *)
Definition env_entry (x : sexp) : option (Z + payload) :=
  match x with
  | SList (Atom t :: args) =>
      if t =? "int" then match args with [z] => option_map inl (sexp_Z z) | _ => None end
      else if t =? "list" then option_map (fun l => inr (PList l)) (opt_map_list sexp_Z args)
      else if t =? "str" then option_map (fun s => inr (PStr s)) (str_of_sexps args)
      else None
  | _ => None
  end.

Fixpoint build_env (es : list (Z + payload)) (σ : store) : store * list hval :=
  match es with
  | [] => (σ, [])
  | inl z :: es' => let '(σ', ρ) := build_env es' σ in (σ', HInt z :: ρ)
  | inr p :: es' => let '(σ1, l) := alloc σ p in
                    let '(σ', ρ) := build_env es' σ1 in (σ', HRef l :: ρ)
  end.

Definition sexp_of_pval (v : pval) : sexp :=
  match v with
  | VI z => tagged "int" [atomZ z]
  | VL l => tagged "list" (map (fun z => tagged "int" [atomZ z]) l)
  | VS s => tagged "str" (sexp_of_str s)
  end.

Definition heap_answer (entries : list (Z + payload)) (e : hexpr) : sexp :=
  let '(σ, ρ) := build_env entries [] in
  let '(σ', r) := eval_h ρ σ e in
  let alias := match r with
               | Ok (HRef l) =>
                   (fix find (ρ : list hval) (i : Z) : Z :=
                      match ρ with
                      | [] => -1
                      | HRef k :: ρ' => if Nat.eqb k l then i else find ρ' (i + 1)%Z
                      | _ :: ρ' => find ρ' (i + 1)%Z
                      end) ρ 0%Z
               | _ => (-1)%Z
               end in
  tagged "heap"
    [sexp_of_outcome sexp_of_pval (match r with Ok h => Ok (denote σ' h) | Err c => Err c | Crash s => Crash s end);
     tagged "alias" [atomZ alias];
     tagged "owners" (map (fun h => match h with
                                    | HRef l => atomZ (Z.of_nat (rc_of σ' l))
                                    | HInt _ => atomZ (-1)
                                    end) ρ)].

(** the operation-level machine of C05_any_interleaving: [n] context buffers (cell i holds
    [i]), then a sequence of steps; the answer lists every cell that still has an owner *)
Definition op_of_sexp (x : sexp) : option op :=
  match x with
  | SList (Atom t :: args) =>
      if t =? "clone" then match args with [l] => option_map (fun n => OClone (N.to_nat n)) (sexp_N l) | _ => None end
      else if t =? "drop" then match args with [l] => option_map (fun n => ODrop (N.to_nat n)) (sexp_N l) | _ => None end
      else if t =? "alloc" then option_map (fun zs => OAlloc (PList zs)) (opt_map_list sexp_Z args)
      else if t =? "append" then
        match args with
        | l :: zs => match sexp_N l, opt_map_list sexp_Z zs with
                     | Some n, Some zs' => Some (OAppend (N.to_nat n) (PList zs'))
                     | _, _ => None
                     end
        | [] => None
        end
      else None
  | _ => None
  end.

Fixpoint init_cells (n : nat) (i : Z) : store :=
  match n with
  | O => []
  | S n' => {| rc := 1; pl := PList [i] |} :: init_cells n' (i + 1)%Z
  end.

Definition arc_answer (n : nat) (ops : list op) : sexp :=
  let pinned := seq 0 n in
  match steps pinned {| st := init_cells n 0%Z; hs := pinned |} ops with
  | None => Atom "(arc-stuck)"
  | Some c =>
      tagged "arc"
        ((fix go (σ : store) (i : Z) : list sexp :=
            match σ with
            | [] => []
            | cl :: σ' =>
                List.app
                  (if Nat.eqb (rc cl) 0 then nil
                   else cons (tagged "cell" (cons (atomZ i) (cons (atomZ (Z.of_nat (rc cl)))
                                (cons (tagged "list" (match pl cl with PList l => map atomZ l | PStr _ => nil end)) nil)))) nil)
                  (go σ' (i + 1)%Z)
            end) (st c) 0%Z)
  end.
