(** Wire forms for the heap model (C05). *)
From Cel.Model Require Export Wire Heap.
Open Scope string_scope.

Fixpoint hexpr_of_sexp (x : sexp) : option hexpr :=
  match x with
  | SList (Atom t :: args) =>
      if t =? "xint" then match args with [z] => option_map XInt (sexp_Z z) | _ => None end
      else if t =? "xvar" then match args with [i] => option_map (fun n => XVar (N.to_nat n)) (sexp_N i) | _ => None end
      else if t =? "xlist" then option_map XListLit (opt_map_list sexp_Z args)
      else if t =? "xstr" then option_map XStrLit (str_of_sexps args)
      else if t =? "xadd" then
        match args with
        | [a; b] => match hexpr_of_sexp a, hexpr_of_sexp b with
                    | Some a', Some b' => Some (XAdd a' b')
                    | _, _ => None
                    end
        | _ => None
        end
      else None
  | _ => None
  end.

(** an environment: every buffer gets its own cell owned once (by the context) *)
Definition env_entry (x : sexp) : option (Z + payload) :=
  match x with
  | SList (Atom t :: args) =>
      if t =? "int" then match args with [z] => option_map inl (sexp_Z z) | _ => None end
      else if t =? "list" then option_map (fun l => inr (PList l)) (opt_map_list sexp_Z args)
      else if t =? "str" then option_map (fun s => inr (PStr s)) (str_of_sexps args)
      else None
  | _ => None
  end.

Fixpoint build_env (es : list (Z + payload)) (σ : store) : store * list hval :=
  match es with
  | [] => (σ, [])
  | inl z :: es' => let '(σ', ρ) := build_env es' σ in (σ', HInt z :: ρ)
  | inr p :: es' => let '(σ1, l) := alloc σ p in
                    let '(σ', ρ) := build_env es' σ1 in (σ', HRef l :: ρ)
  end.

Definition sexp_of_pval (v : pval) : sexp :=
  match v with
  | VI z => tagged "int" [atomZ z]
  | VL l => tagged "list" (map (fun z => tagged "int" [atomZ z]) l)
  | VS s => tagged "str" (sexp_of_str s)
  end.

Definition heap_answer (entries : list (Z + payload)) (e : hexpr) : sexp :=
  let '(σ, ρ) := build_env entries [] in
  let '(σ', r) := eval_h ρ σ e in
  let alias := match r with
               | Ok (HRef l) =>
                   (fix find (ρ : list hval) (i : Z) : Z :=
                      match ρ with
                      | [] => -1
                      | HRef k :: ρ' => if Nat.eqb k l then i else find ρ' (i + 1)%Z
                      | _ :: ρ' => find ρ' (i + 1)%Z
                      end) ρ 0%Z
               | _ => (-1)%Z
               end in
  tagged "heap"
    [sexp_of_outcome sexp_of_pval (match r with Ok h => Ok (denote σ' h) | Err c => Err c | Crash s => Crash s end);
     tagged "alias" [atomZ alias];
     tagged "owners" (map (fun h => match h with
                                    | HRef l => atomZ (Z.of_nat (rc_of σ' l))
                                    | HInt _ => atomZ (-1)
                                    end) ρ)].
