(** The CEL grammar (antlr/src/gen/CEL.g4, parser rules) as a derivation relation over token
    lists: [Gexpr ts] says that [ts] is derivable from the rule [expr].  Each constructor is one
    alternative of the grammar file, in its order; [x?] is an [opt..] side condition, the
    comma-separated repetitions are the list nonterminals of the grammar. *)
From Coq Require Import String Ascii.
From Cel.Model Require Export Parser.

Definition optq (q : list tk) : Prop := q = [] \/ q = [TQuestion].      (* '?'? *)
Definition optdot (d : list tk) : Prop := d = [] \/ d = [TDot].         (* '.'? *)
Definition optcomma (c : list tk) : Prop := c = [] \/ c = [TComma].     (* ','? *)

(** escapeIdent : IDENTIFIER | ESC_IDENTIFIER *)
Inductive Gesc : tk -> Prop :=
| GI_simple id : Gesc (TIdent id)
| GI_escaped id : Gesc (TEscIdent id).

(** IDENTIFIER ('.' IDENTIFIER)* *)
Inductive Gids : list tk -> Prop :=
| GD_one id : Gids [TIdent id]
| GD_more id l : Gids l -> Gids (TIdent id :: TDot :: l).

(** literal *)
Inductive Gliteral : list tk -> Prop :=
| GT_int t : Gliteral [TInt t]
| GT_negint t : Gliteral [TMinus; TInt t]
| GT_uint t : Gliteral [TUint t]
| GT_float t : Gliteral [TFloat t]
| GT_negfloat t : Gliteral [TMinus; TFloat t]
| GT_string t : Gliteral [TString t]
| GT_bytes t : Gliteral [TBytes t]
| GT_true : Gliteral [TTrue]
| GT_false : Gliteral [TFalse]
| GT_null : Gliteral [TNull].

Inductive Gexpr : list tk -> Prop :=
  (* expr : conditionalOr ('?' conditionalOr ':' expr)? *)
| GE_or c : Gor c -> Gexpr c
| GE_cond c a b : Gor c -> Gor a -> Gexpr b -> Gexpr (c ++ TQuestion :: a ++ TColon :: b)
with Gor : list tk -> Prop :=
  (* conditionalOr : conditionalAnd ('||' conditionalAnd)* *)
| GO_one a : Gand a -> Gor a
| GO_more a b : Gor a -> Gand b -> Gor (a ++ TOrOr :: b)
with Gand : list tk -> Prop :=
  (* conditionalAnd : relation ('&&' relation)* *)
| GA_one a : Grel a -> Gand a
| GA_more a b : Gand a -> Grel b -> Gand (a ++ TAndAnd :: b)
with Grel : list tk -> Prop :=
  (* relation : calc | relation op relation *)
| GR_calc a : Gcalc a -> Grel a
| GR_op a op b n : relop_name op = Some n -> Grel a -> Grel b -> Grel (a ++ op :: b)
with Gcalc : list tk -> Prop :=
  (* calc : unary | calc ('*'|'/'|'%') calc | calc ('+'|'-') calc *)
| GC_unary a : Gunary a -> Gcalc a
| GC_mul a op b n : mulop_name op = Some n -> Gcalc a -> Gcalc b -> Gcalc (a ++ op :: b)
| GC_add a op b n : addop_name op = Some n -> Gcalc a -> Gcalc b -> Gcalc (a ++ op :: b)
with Gunary : list tk -> Prop :=
  (* unary : member | '!'+ member | '-'+ member *)
| GU_member m : Gmember m -> Gunary m
| GU_not n m : Gmember m -> Gunary (repeat TBang (S n) ++ m)
| GU_neg n m : Gmember m -> Gunary (repeat TMinus (S n) ++ m)
with Gmember : list tk -> Prop :=
  (* member : primary | member '.' '?'? escapeIdent | member '.' IDENTIFIER '(' exprList? ')'
            | member '[' '?'? expr ']' *)
| GM_primary p : Gprimary p -> Gmember p
| GM_select m q id : Gmember m -> optq q -> Gesc id -> Gmember (m ++ TDot :: q ++ [id])
| GM_call0 m id : Gmember m -> Gmember (m ++ [TDot; TIdent id; TLParen; TRParen])
| GM_call m id args : Gmember m -> GexprList args ->
    Gmember (m ++ TDot :: TIdent id :: TLParen :: args ++ [TRParen])
| GM_index m q i : Gmember m -> optq q -> Gexpr i -> Gmember (m ++ TLBracket :: q ++ i ++ [TRBracket])
with Gprimary : list tk -> Prop :=
  (* primary *)
| GP_ident d id : optdot d -> Gprimary (d ++ [TIdent id])
| GP_call0 d id : optdot d -> Gprimary (d ++ [TIdent id; TLParen; TRParen])
| GP_call d id args : optdot d -> GexprList args ->
    Gprimary (d ++ TIdent id :: TLParen :: args ++ [TRParen])
| GP_nested e : Gexpr e -> Gprimary (TLParen :: e ++ [TRParen])
| GP_list0 c : optcomma c -> Gprimary (TLBracket :: c ++ [TRBracket])
| GP_list l c : GlistInit l -> optcomma c -> Gprimary (TLBracket :: l ++ c ++ [TRBracket])
| GP_map0 c : optcomma c -> Gprimary (TLBrace :: c ++ [TRBrace])
| GP_map l c : GmapInit l -> optcomma c -> Gprimary (TLBrace :: l ++ c ++ [TRBrace])
| GP_msg0 d ids c : optdot d -> Gids ids -> optcomma c ->
    Gprimary (d ++ ids ++ TLBrace :: c ++ [TRBrace])
| GP_msg d ids l c : optdot d -> Gids ids -> GfieldInit l -> optcomma c ->
    Gprimary (d ++ ids ++ TLBrace :: l ++ c ++ [TRBrace])
| GP_literal l : Gliteral l -> Gprimary l
with GexprList : list tk -> Prop :=
  (* exprList : expr (',' expr)* *)
| GL_one e : Gexpr e -> GexprList e
| GL_more e l : Gexpr e -> GexprList l -> GexprList (e ++ TComma :: l)
with GlistInit : list tk -> Prop :=
  (* listInit : optExpr (',' optExpr)* ;  optExpr : '?'? expr *)
| GLI_one q e : optq q -> Gexpr e -> GlistInit (q ++ e)
| GLI_more q e l : optq q -> Gexpr e -> GlistInit l -> GlistInit (q ++ e ++ TComma :: l)
with GmapInit : list tk -> Prop :=
  (* mapInitializerList : optExpr ':' expr (',' optExpr ':' expr)* *)
| GMI_one q k v : optq q -> Gexpr k -> Gexpr v -> GmapInit (q ++ k ++ TColon :: v)
| GMI_more q k v l : optq q -> Gexpr k -> Gexpr v -> GmapInit l ->
    GmapInit (q ++ k ++ TColon :: v ++ TComma :: l)
with GfieldInit : list tk -> Prop :=
  (* field_initializer_list : optField ':' expr (',' optField ':' expr)* ; optField : '?'? escapeIdent *)
| GFI_one q id v : optq q -> Gesc id -> Gexpr v -> GfieldInit (q ++ id :: TColon :: v)
| GFI_more q id v l : optq q -> Gesc id -> Gexpr v -> GfieldInit l ->
    GfieldInit (q ++ id :: TColon :: v ++ TComma :: l).

(** start : expr EOF *)
Definition Gstart (ts : list tk) : Prop := Gexpr ts.
