(** The expression AST the evaluator walks (cel-parser ast::Expr with the ids dropped)
    and the internal operator names (ast/operators.rs). *)
From Coq Require Import String.
From Cel.Model Require Export Values.

Inductive expr :=
| EUnspec
| ELit (v : value)
| EIdent (x : str)
| ECall (f : str) (target : option expr) (args : list expr)
| ESelect (operand : expr) (field : str) (test : bool)
| EList (es : list expr)
| EMap (entries : list (expr * expr))
| EStruct (ty : str) (fields : list (str * expr))
| EComp (range : expr) (iter_var accu_var : str) (init cond step result : expr).

Inductive binop :=
| BAdd | BSub | BDiv | BMul | BRem | BEq | BNe | BLt | BLe | BGt | BGe | BIn | BOr | BAnd | BIndex.
Inductive unop := UNot | UNeg | UNsf.

Definition op_conditional : str := $"_?_:_".

Definition binop_table : list (str * binop) :=
  [($"_+_", BAdd); ($"_-_", BSub); ($"_/_", BDiv); ($"_*_", BMul); ($"_%_", BRem);
   ($"_==_", BEq); ($"_!=_", BNe); ($"_<_", BLt); ($"_<=_", BLe); ($"_>_", BGt);
   ($"_>=_", BGe); ($"@in", BIn); ($"_||_", BOr); ($"_&&_", BAnd); ($"_[_]", BIndex)].
Definition unop_table : list (str * unop) :=
  [($"!_", UNot); ($"-_", UNeg); ($"@not_strictly_false", UNsf)].

Fixpoint str_assoc {B} (k : str) (m : list (str * B)) : option B :=
  match m with
  | [] => None
  | (k', v) :: m' => if str_eqb k k' then Some v else str_assoc k m'
  end.

Definition binop_of_name (f : str) : option binop := str_assoc f binop_table.
Definition unop_of_name (f : str) : option unop := str_assoc f unop_table.
