(** The lexer of antlr/src/gen/CEL.g4 over code points: maximal munch over all token rules,
    the earlier rule winning ties; whitespace and comments are hidden.  A position where no
    rule matches rejects the source ([None]). *)
From Coq Require Import String Ascii.
From Cel.Model Require Export Base.

Inductive tk :=
| TEq | TNe | TIn | TLt | TLe | TGe | TGt | TAndAnd | TOrOr
| TLBracket | TRBracket | TLBrace | TRBrace | TLParen | TRParen
| TDot | TComma | TMinus | TBang | TQuestion | TColon | TPlus | TStar | TSlash | TPercent
| TTrue | TFalse | TNull
| TFloat (text : str) | TInt (text : str) | TUint (text : str)
| TString (text : str) | TBytes (text : str)
| TIdent (text : str) | TEscIdent (text : str).

Definition ch (s : string) : N :=
  match s with String a _ => N_of_ascii a | EmptyString => 0%N end.

Definition is_digit (c : N) : bool := ((48 <=? c) && (c <=? 57))%N.
Definition is_letter (c : N) : bool :=
  (((65 <=? c) && (c <=? 90)) || ((97 <=? c) && (c <=? 122)))%N.
Definition is_hex (c : N) : bool :=
  (is_digit c || ((65 <=? c) && (c <=? 70)) || ((97 <=? c) && (c <=? 102)))%N.
Definition is_oct (c : N) : bool := ((48 <=? c) && (c <=? 55))%N.
Definition is_ws (c : N) : bool :=
  ((c =? 9) || (c =? 32) || (c =? 13) || (c =? 10) || (c =? 12))%N.
Definition is_ident_start (c : N) : bool := is_letter c || (c =? 95)%N.
Definition is_ident_char (c : N) : bool := is_letter c || is_digit c || (c =? 95)%N.
Definition is_esc_ident_char (c : N) : bool :=
  (is_letter c || is_digit c || (c =? 95) || (c =? 46) || (c =? 45) || (c =? 47) || (c =? 32))%N.

(** [span p s]: the longest prefix whose elements satisfy [p], and the rest. *)
Fixpoint span (p : N -> bool) (s : str) : str * str :=
  match s with
  | c :: s' => if p c then let '(a, b) := span p s' in (c :: a, b) else ([], s)
  | [] => ([], [])
  end.

(** Length (in code points) of the escape sequence starting after a backslash, if [s] begins
    with one of the grammar's ESC_SEQ bodies. *)
Definition esc_len (s : str) : option nat :=
  match s with
  | c :: r =>
      if ((c =? ch "a") || (c =? ch "b") || (c =? ch "f") || (c =? ch "n") || (c =? ch "r")
          || (c =? ch "t") || (c =? ch "v") || (c =? 34) || (c =? 39) || (c =? 92)
          || (c =? ch "?") || (c =? 96))%N then Some 1%nat
      else if ((c =? ch "x") || (c =? ch "X"))%N then
        match r with
        | h1 :: h2 :: _ => if is_hex h1 && is_hex h2 then Some 3%nat else None
        | _ => None
        end
      else if (c =? ch "u")%N then
        match r with
        | h1 :: h2 :: h3 :: h4 :: _ =>
            if is_hex h1 && is_hex h2 && is_hex h3 && is_hex h4 then Some 5%nat else None
        | _ => None
        end
      else if (c =? ch "U")%N then
        match r with
        | h1 :: h2 :: h3 :: h4 :: h5 :: h6 :: h7 :: h8 :: _ =>
            if is_hex h1 && is_hex h2 && is_hex h3 && is_hex h4 &&
               is_hex h5 && is_hex h6 && is_hex h7 && is_hex h8 then Some 9%nat else None
        | _ => None
        end
      else if ((48 <=? c) && (c <=? 51))%N then
        match r with
        | o1 :: o2 :: _ => if is_oct o1 && is_oct o2 then Some 3%nat else None
        | _ => None
        end
      else None
  | [] => None
  end.

(** Scanners for the bodies of the eight STRING alternatives.  Each returns the number of code
    points consumed *after the opening delimiter* up to and including the closing delimiter. *)

(** one-quote forms: (ESC_SEQ | ~[\\ q \n \r])* q   or, raw, ~[q \n \r]* q *)
Fixpoint scan_short (fuel : nat) (q : N) (raw : bool) (s : str) (n : nat) : option nat :=
  match fuel with
  | O => None
  | S fuel' =>
      match s with
      | [] => None
      | c :: r =>
          if (c =? q)%N then Some (S n)
          else if ((c =? 10) || (c =? 13))%N then None
          else if (c =? 92)%N && negb raw then
            match esc_len r with
            | Some k => scan_short fuel' q raw (skipn k r) (S (k + n))
            | None => None
            end
          else scan_short fuel' q raw r (S n)
      end
  end.

(** triple-quote forms: (ESC_SEQ | ~[\\])*? qqq   or, raw, .*? qqq  (first closing triple) *)
Fixpoint scan_long (fuel : nat) (q : N) (raw : bool) (s : str) (n : nat) : option nat :=
  match fuel with
  | O => None
  | S fuel' =>
      match s with
      | a :: b :: c :: _ =>
          if ((a =? q) && (b =? q) && (c =? q))%N then Some (3 + n)%nat
          else if (a =? 92)%N && negb raw then
            match esc_len (tl s) with
            | Some k => scan_long fuel' q raw (skipn k (tl s)) (S (k + n))
            | None => None
            end
          else if raw && ((a =? 0) || (a =? 1114111))%N then None
               (* the runtime's wildcard '.' (raw triple-quoted forms only) does not match
                  U+0000 or U+10FFFF: known finding K01 *)
          else scan_long fuel' q raw (tl s) (S n)
      | _ => None
      end
  end.

(** Length of the longest STRING alternative matching at the start of [s] (after an optional
    raw prefix has been removed by the caller, flagged in [raw]). *)
Definition string_len (raw : bool) (s : str) : option nat :=
  match s with
  | q :: r =>
      if ((q =? 34) || (q =? 39))%N then
        let fuel := S (length s) in
        let short := option_map S (scan_short fuel q raw r 0) in
        let long := match r with
                    | q2 :: q3 :: r3 =>
                        if ((q2 =? q) && (q3 =? q))%N
                        then option_map (fun k => (3 + k)%nat) (scan_long fuel q raw r3 0)
                        else None
                    | _ => None
                    end in
        match short, long with
        | Some a, Some b => Some (Nat.max a b)
        | Some a, None => Some a
        | None, Some b => Some b
        | None, None => None
        end
      else None
  | [] => None
  end.

(** STRING including the raw forms. *)
Definition string_tok_len (s : str) : option nat :=
  match s with
  | c :: r =>
      if ((c =? ch "r") || (c =? ch "R"))%N
      then option_map S (string_len true r)
      else string_len false s
  | [] => None
  end.

Definition bytes_tok_len (s : str) : option nat :=
  match s with
  | c :: r => if ((c =? ch "b") || (c =? ch "B"))%N then option_map S (string_tok_len r) else None
  | [] => None
  end.

(** EXPONENT : [eE] [+-]? DIGIT+ ; length if present *)
Definition exponent_len (s : str) : option nat :=
  match s with
  | e :: r =>
      if ((e =? ch "e") || (e =? ch "E"))%N then
        let '(sign, r') := match r with
                           | c :: r'' => if ((c =? 43) || (c =? 45))%N then (1%nat, r'') else (O, r)
                           | [] => (O, r)
                           end in
        let '(ds, _) := span is_digit r' in
        match ds with
        | [] => None
        | _ => Some (1 + sign + length ds)%nat
        end
      else None
  | [] => None
  end.

Inductive numkind := NFloat | NInt | NUint.

(** the longer candidate; the earlier one on a tie *)
Definition best_num (a b : option (numkind * nat)) : option (numkind * nat) :=
  match a, b with
  | Some (_, x), Some (_, y) => if Nat.ltb x y then b else a
  | None, _ => b
  | _, None => a
  end.

(** Longest numeric token at the start of [s]: (kind, length). *)
Definition num_tok (s : str) : option (numkind * nat) :=
  let '(ds, r) := span is_digit s in
  match ds with
  | [] =>
      (* '.' DIGIT+ EXPONENT? *)
      match s with
      | d :: r1 =>
          if (d =? 46)%N then
            let '(fs, r2) := span is_digit r1 in
            match fs with
            | [] => None
            | _ => Some (NFloat, (1 + length fs + match exponent_len r2 with Some k => k | None => O end)%nat)
            end
          else None
      | [] => None
      end
  | _ =>
      let n := length ds in
      (* candidates; the longest wins, earlier rule (float, int, uint) on ties *)
      let float1 := match r with
                    | d :: r1 =>
                        if (d =? 46)%N then
                          let '(fs, r2) := span is_digit r1 in
                          match fs with
                          | [] => None
                          | _ => Some (n + 1 + length fs +
                                       match exponent_len r2 with Some k => k | None => O end)%nat
                          end
                        else None
                    | [] => None
                    end in
      let float2 := option_map (fun k => (n + k)%nat) (exponent_len r) in
      let hex := match s with
                 | z :: x :: r1 =>
                     if ((z =? 48) && (x =? ch "x"))%N then
                       let '(hs, r2) := span is_hex r1 in
                       match hs with
                       | [] => None
                       | _ => Some (2 + length hs, r2)%nat
                       end
                     else None
                 | _ => None
                 end in
      let is_u (l : str) := match l with
                            | c :: _ => ((c =? ch "u") || (c =? ch "U"))%N
                            | [] => false
                            end in
      let int_len := match hex with Some (k, _) => Nat.max n k | None => n end in
      let uint_dec := if is_u r then Some (S n) else None in
      let uint_hex := match hex with
                      | Some (k, r2) => if is_u r2 then Some (S k) else None
                      | None => None
                      end in
      let fl := match float1, float2 with
                | Some a, Some b => Some (NFloat, Nat.max a b)
                | Some a, None => Some (NFloat, a)
                | None, Some b => Some (NFloat, b)
                | None, None => None
                end in
      let ui := match uint_dec, uint_hex with
                | Some a, Some b => Some (NUint, Nat.max a b)
                | Some a, None => Some (NUint, a)
                | None, Some b => Some (NUint, b)
                | None, None => None
                end in
      best_num (best_num fl (Some (NInt, int_len))) ui
  end.

Definition kw (s : string) : str := str_of_string s.

(** One token (or a hidden one: [None]) at the start of [s], with the rest. *)
Definition lex_one (s : str) : option (option tk * str) :=
  match s with
  | [] => None
  | c :: r =>
      let take (n : nat) := (firstn n s, skipn n s) in
      (* candidates that are longer than one character first *)
      match bytes_tok_len s with
      | Some n => let '(t, rest) := take n in Some (Some (TBytes t), rest)
      | None =>
      match string_tok_len s with
      | Some n => let '(t, rest) := take n in Some (Some (TString t), rest)
      | None =>
      if is_ws c then let '(_, rest) := span is_ws s in Some (None, rest)
      else if is_ident_start c then
        let '(t, rest) := span is_ident_char s in
        Some (Some (if str_eqb t (kw "in") then TIn
                    else if str_eqb t (kw "true") then TTrue
                    else if str_eqb t (kw "false") then TFalse
                    else if str_eqb t (kw "null") then TNull
                    else TIdent t), rest)
      else
      match num_tok s with
      | Some (k, n) =>
          let '(t, rest) := take n in
          Some (Some (match k with NFloat => TFloat t | NInt => TInt t | NUint => TUint t end), rest)
      | None =>
      if (c =? 96)%N then
        let '(body, r2) := span is_esc_ident_char r in
        match body, r2 with
        | _ :: _, q :: rest => if (q =? 96)%N then Some (Some (TEscIdent (c :: body ++ [q])), rest) else None
        | _, _ => None
        end
      else
      let two (d : N) := match r with x :: r' => if (x =? d)%N then Some r' else None | [] => None end in
      if (c =? ch "=")%N then match two (ch "=") with Some r' => Some (Some TEq, r') | None => None end
      else if (c =? ch "!")%N then
        match two (ch "=") with Some r' => Some (Some TNe, r') | None => Some (Some TBang, r) end
      else if (c =? ch "<")%N then
        match two (ch "=") with Some r' => Some (Some TLe, r') | None => Some (Some TLt, r) end
      else if (c =? ch ">")%N then
        match two (ch "=") with Some r' => Some (Some TGe, r') | None => Some (Some TGt, r) end
      else if (c =? ch "&")%N then match two (ch "&") with Some r' => Some (Some TAndAnd, r') | None => None end
      else if (c =? ch "|")%N then match two (ch "|") with Some r' => Some (Some TOrOr, r') | None => None end
      else if (c =? ch "/")%N then
        match two (ch "/") with
        | Some r' => let '(_, rest) := span (fun x => negb (x =? 10)%N) r' in Some (None, rest)
        | None => Some (Some TSlash, r)
        end
      else if (c =? ch "[")%N then Some (Some TLBracket, r)
      else if (c =? ch "]")%N then Some (Some TRBracket, r)
      else if (c =? ch "{")%N then Some (Some TLBrace, r)
      else if (c =? ch "}")%N then Some (Some TRBrace, r)
      else if (c =? ch "(")%N then Some (Some TLParen, r)
      else if (c =? ch ")")%N then Some (Some TRParen, r)
      else if (c =? ch ".")%N then Some (Some TDot, r)
      else if (c =? ch ",")%N then Some (Some TComma, r)
      else if (c =? ch "-")%N then Some (Some TMinus, r)
      else if (c =? ch "?")%N then Some (Some TQuestion, r)
      else if (c =? ch ":")%N then Some (Some TColon, r)
      else if (c =? ch "+")%N then Some (Some TPlus, r)
      else if (c =? ch "*")%N then Some (Some TStar, r)
      else if (c =? ch "%")%N then Some (Some TPercent, r)
      else None
      end end end
  end.

Fixpoint lex_fuel (fuel : nat) (s : str) (acc : list tk) : option (list tk) :=
  match s with
  | [] => Some (rev' acc)
  | _ =>
      match fuel with
      | O => None
      | S fuel' =>
          match lex_one s with
          | Some (Some t, rest) => lex_fuel fuel' rest (t :: acc)
          | Some (None, rest) => lex_fuel fuel' rest acc
          | None => None
          end
      end
  end.

Definition lex (s : str) : option (list tk) := lex_fuel (S (length s)) s [].
