(** The wire format between the Rust harness and the model: one S-expression per line.
    Reader and printer are Gallina so that the extracted driver and the in-Coq
    ([vm_compute]) evaluation of the same request line are the same function. *)
From Cel.Model Require Export Base.
From Coq Require Export String Ascii.
From Coq Require Import DecimalString Decimal DecimalZ.
Open Scope string_scope.

Inductive sexp := Atom (s : string) | SList (l : list sexp).

Inductive tok := TOpen | TClose | TAtom (s : string).

Definition is_space (c : ascii) : bool :=
  match c with
  | " "%char => true
  | "009"%char | "010"%char | "013"%char => true
  | _ => false
  end.

(** [cur] is the atom being accumulated, reversed. *)
Fixpoint rev_string_acc (s acc : string) : string :=
  match s with
  | EmptyString => acc
  | String c s' => rev_string_acc s' (String c acc)
  end.
Definition rev_string (s : string) : string := rev_string_acc s EmptyString.

Definition flush (cur : string) (acc : list tok) : list tok :=
  match cur with
  | EmptyString => acc
  | _ => TAtom (rev_string cur) :: acc
  end.

Fixpoint tokenize_acc (s cur : string) (acc : list tok) : list tok :=
  match s with
  | EmptyString => rev' (flush cur acc)
  | String c s' =>
      if Ascii.eqb c "("%char then tokenize_acc s' EmptyString (TOpen :: flush cur acc)
      else if Ascii.eqb c ")"%char then tokenize_acc s' EmptyString (TClose :: flush cur acc)
      else if is_space c then tokenize_acc s' EmptyString (flush cur acc)
      else tokenize_acc s' (String c cur) acc
  end.
Definition tokenize (s : string) : list tok := tokenize_acc s EmptyString [].

Fixpoint parse_toks (ts : list tok) (stack : list (list sexp)) (cur : list sexp)
  : option sexp :=
  match ts with
  | [] => match stack, cur with
          | [], [x] => Some x
          | _, _ => None
          end
  | TOpen :: ts' => parse_toks ts' (cur :: stack) []
  | TClose :: ts' =>
      match stack with
      | [] => None
      | p :: st => parse_toks ts' st (SList (rev' cur) :: p)
      end
  | TAtom a :: ts' => parse_toks ts' stack (Atom a :: cur)
  end.

Definition read_sexp (s : string) : option sexp := parse_toks (tokenize s) [] [].

(** Printing.  Output is built as a list of strings and concatenated once. *)
Fixpoint print_sexp (x : sexp) : string :=
  match x with
  | Atom a => a
  | SList l =>
      "(" ++ (fix go (l : list sexp) : string :=
                match l with
                | [] => ""
                | [y] => print_sexp y
                | y :: l' => print_sexp y ++ " " ++ go l'
                end) l ++ ")"
  end.

(** Numbers. *)
Definition string_of_Z (z : Z) : string := NilZero.string_of_int (Z.to_int z).
Definition Z_of_string (s : string) : option Z :=
  match NilZero.int_of_string s with
  | Some i => Some (Z.of_int i)
  | None => None
  end.

Definition hex_digit (c : ascii) : option Z :=
  let n := Z.of_N (N_of_ascii c) in
  (if (48 <=? n) && (n <=? 57) then Some (n - 48)
   else if (97 <=? n) && (n <=? 102) then Some (n - 87)
   else if (65 <=? n) && (n <=? 70) then Some (n - 55)
   else None)%Z.
Fixpoint hex_acc (s : string) (acc : Z) : option Z :=
  match s with
  | EmptyString => Some acc
  | String c s' => match hex_digit c with
                   | Some d => hex_acc s' (acc * 16 + d)%Z
                   | None => None
                   end
  end.
Definition Z_of_hex (s : string) : option Z :=
  match s with EmptyString => None | _ => hex_acc s 0%Z end.

Definition hex_char (d : Z) : ascii :=
  ascii_of_N (Z.to_N (if d <? 10 then d + 48 else d + 87)%Z).
Fixpoint hex_of_Z_n (n : nat) (z : Z) (acc : string) : string :=
  match n with
  | O => acc
  | S n' => hex_of_Z_n n' (z / 16)%Z (String (hex_char (z mod 16)%Z) acc)
  end.
Definition hex16 (z : Z) : string := hex_of_Z_n 16 z EmptyString.

Definition atomZ (z : Z) : sexp := Atom (string_of_Z z).
Definition atomN (n : N) : sexp := Atom (string_of_Z (Z.of_N n)).

Definition sexp_Z (x : sexp) : option Z :=
  match x with Atom a => Z_of_string a | _ => None end.
Definition sexp_N (x : sexp) : option N :=
  match sexp_Z x with
  | Some z => if (0 <=? z)%Z then Some (Z.to_N z) else None
  | None => None
  end.

Fixpoint opt_map_list {A B} (f : A -> option B) (l : list A) : option (list B) :=
  match l with
  | [] => Some []
  | x :: l' => match f x, opt_map_list f l' with
               | Some y, Some ys => Some (y :: ys)
               | _, _ => None
               end
  end.
