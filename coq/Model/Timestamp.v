(** Timestamps as the interpreter uses chrono: calendar arithmetic (proleptic Gregorian),
    the accessors of functions.rs, RFC 3339 printing (to_rfc3339) and parsing
    (parse_from_rfc3339).  A timestamp is (UTC instant in ns since the epoch, offset in seconds). *)
From Coq Require Import String Ascii.
From Cel.Model Require Export Duration.

(** Days since 1970-01-01 of a civil date, and back (H. Hinnant's algorithms; Z.div / Z.modulo
    are floor division, so negative years need no special casing). *)
Definition days_from_civil (y m d : Z) : Z :=
  let y' := if m <=? 2 then y - 1 else y in
  let era := y' / 400 in
  let yoe := y' - era * 400 in
  let mp := if 2 <? m then m - 3 else m + 9 in
  let doy := (153 * mp + 2) / 5 + d - 1 in
  let doe := yoe * 365 + yoe / 4 - yoe / 100 + doy in
  era * 146097 + doe - 719468.

Definition civil_from_days (n : Z) : Z * Z * Z :=
  let z := n + 719468 in
  let era := z / 146097 in
  let doe := z - era * 146097 in
  let yoe := (doe - doe / 1460 + doe / 36524 - doe / 146096) / 365 in
  let y := yoe + era * 400 in
  let doy := doe - (365 * yoe + yoe / 4 - yoe / 100) in
  let mp := (5 * doy + 2) / 153 in
  let d := doy - (153 * mp + 2) / 5 + 1 in
  let m := if mp <? 10 then mp + 3 else mp - 9 in
  (if m <=? 2 then y + 1 else y, m, d).

Definition is_leap (y : Z) : bool := ((y mod 4 =? 0) && negb (y mod 100 =? 0)) || (y mod 400 =? 0).
Definition days_in_month (y m : Z) : Z :=
  if m =? 2 then (if is_leap y then 29 else 28)
  else if (m =? 4) || (m =? 6) || (m =? 9) || (m =? 11) then 30 else 31.
Definition valid_date (y m d : Z) : bool :=
  (1 <=? m) && (m <=? 12) && (1 <=? d) && (d <=? days_in_month y m).

Definition ns_per_s : Z := 1000000000.

Record fields := { f_year : Z; f_month : Z; f_day : Z; f_days : Z; f_hour : Z; f_min : Z; f_sec : Z; f_nanos : Z }.

(** the local (at the timestamp's own offset) calendar fields *)
Definition local_fields (ns off : Z) : fields :=
  let local := ns + off * ns_per_s in
  let secs := local / ns_per_s in
  let days := secs / 86400 in
  let sod := secs mod 86400 in
  let '(y, m, d) := civil_from_days days in
  {| f_year := y; f_month := m; f_day := d; f_days := days;
     f_hour := sod / 3600; f_min := (sod mod 3600) / 60; f_sec := sod mod 60;
     f_nanos := local mod ns_per_s |}.

Inductive accessor := AYear | AMonth | ADayOfYear | ADayOfMonth | ADate | ADayOfWeek
                    | AHours | AMinutes | ASeconds | AMillis.

Definition access (a : accessor) (ns off : Z) : Z :=
  let f := local_fields ns off in
  match a with
  | AYear => f_year f
  | AMonth => f_month f - 1
  | ADayOfYear => f_days f - days_from_civil (f_year f) 1 1
  | ADayOfMonth => f_day f - 1
  | ADate => f_day f
  | ADayOfWeek => (f_days f + 4) mod 7          (* 1970-01-01 was a Thursday; 0 = Sunday *)
  | AHours => f_hour f
  | AMinutes => f_min f
  | ASeconds => f_sec f
  | AMillis => f_nanos f / 1000000
  end.

(** DateTime::to_rfc3339 *)
Definition two (n : Z) : str := pad_digits 2 n.
Definition rfc3339 (ns off : Z) : str :=
  let f := local_fields ns off in
  let y := f_year f in
  let year := if (0 <=? y) && (y <=? 9999) then pad_digits 4 y
              else (if y <? 0 then 45%N else 43%N) :: pad_digits 4 (Z.abs y) in
  let nanos := f_nanos f in
  let frac := if nanos =? 0 then []
              else if nanos mod 1000000 =? 0 then 46%N :: pad_digits 3 (nanos / 1000000)
              else if nanos mod 1000 =? 0 then 46%N :: pad_digits 6 (nanos / 1000)
              else 46%N :: pad_digits 9 nanos in
  let ao := (Z.abs off + 30) / 60 * 60 in     (* the offset is written to the nearest minute *)
  year ++ [45%N] ++ two (f_month f) ++ [45%N] ++ two (f_day f) ++ [ch "T"] ++
  two (f_hour f) ++ [58%N] ++ two (f_min f) ++ [58%N] ++ two (f_sec f) ++ frac ++
  [if off <? 0 then 45%N else 43%N] ++ two (ao / 3600) ++ [58%N] ++ two ((ao mod 3600) / 60).

(** DateTime::parse_from_rfc3339 for the standard spelling.  [None]: rejected; the result
    [Some None] marks spellings this model does not interpret (leap second :60, offsets with
    seconds) - the caller treats them as an uninterpreted library call. *)
Definition take_digits (n : nat) (s : str) : option (Z * str) :=
  let ds := firstn n s in
  if Nat.eqb (length ds) n && forallb is_digit ds then Some (dec_num ds 0, skipn n s) else None.

Definition expect (c : N) (s : str) : option str :=
  match s with x :: r => if (x =? c)%N then Some r else None | [] => None end.

Definition parse_rfc3339 (s : str) : option (option (Z * Z)) :=
  match take_digits 4 s with
  | None => None
  | Some (y, s1) =>
  match expect 45 s1 with None => None | Some s2 =>
  match take_digits 2 s2 with None => None | Some (mo, s3) =>
  match expect 45 s3 with None => None | Some s4 =>
  match take_digits 2 s4 with None => None | Some (d, s5) =>
  match s5 with
  | [] => None
  | tc :: s6 =>
  if negb ((tc =? ch "T") || (tc =? ch "t") || (tc =? 32))%N then None else
  match take_digits 2 s6 with None => None | Some (h, s7) =>
  match expect 58 s7 with None => None | Some s8 =>
  match take_digits 2 s8 with None => None | Some (mi, s9) =>
  match expect 58 s9 with None => None | Some s10 =>
  match take_digits 2 s10 with None => None | Some (sec, s11) =>
  let '(nanos, s12, frac_ok) :=
    match s11 with
    | dot :: r => if (dot =? 46)%N then
                    let '(fs, r') := span is_digit r in
                    match fs with
                    | [] => (0, r, false)
                    | _ => let f9 := firstn 9 (fs ++ repeat 48%N 9) in (dec_num f9 0, r', true)
                    end
                  else (0, s11, true)
    | [] => (0, s11, true)
    end in
  if negb frac_ok then None else
  let off :=
    match s12 with
    | [z] => if ((z =? ch "Z") || (z =? ch "z"))%N then Some 0 else None
    | sg :: r =>
        if ((sg =? 43) || (sg =? 45))%N then
          match take_digits 2 r with
          | Some (oh, r1) =>
              match expect 58 r1 with
              | Some r2 => match take_digits 2 r2 with
                           | Some (om, []) =>
                               if (oh <? 24) && (om <? 60)
                               then Some ((if (sg =? 45)%N then -1 else 1) * (oh * 3600 + om * 60)) else None
                           | _ => None
                           end
              | None => None
              end
          | None => None
          end
        else None
    | [] => None
    end in
  match off with
  | None => None
  | Some o =>
      if negb (valid_date y mo d && (h <? 24) && (mi <? 60) && (sec <=? 60)) then None
      else if sec =? 60 then Some None
      else
        let local := ((days_from_civil y mo d * 86400 + h * 3600 + mi * 60 + sec) * ns_per_s + nanos) in
        Some (Some (local - o * ns_per_s, o))
  end end end end end end end end end end end end.
