(** Literal decoding: what the visitor makes of STRING / BYTES / NUM_* token texts
    (antlr/src/parse.rs unquote_string / unquote_bytes, parser.rs visit_Int / Uint / Double). *)
From Coq Require Import String Ascii.
From Cel.Model Require Export Lexer Values.

(** ** Strings and bytes *)

(** literal_body: raw flag and the characters between the delimiters (stripped by length). *)
Definition strip_delims (s : str) : option str :=
  match s with
  | q :: r =>
      if ((q =? 34) || (q =? 39))%N then
        let n := length s in
        let triple := match r with
                      | q2 :: q3 :: _ =>
                          ((q2 =? q) && (q3 =? q))%N && Nat.leb 6 n &&
                          match rev' s with
                          | e1 :: e2 :: e3 :: _ => ((e1 =? q) && (e2 =? q) && (e3 =? q))%N
                          | _ => false
                          end
                      | _ => false
                      end in
        let w := if triple then 3%nat else 1%nat in
        if Nat.ltb n (2 * w) then None
        else match rev' s with
             | e :: _ => if (e =? q)%N then Some (firstn (n - 2 * w) (skipn w s)) else None
             | [] => None
             end
      else None
  | [] => None
  end.

Definition literal_body (s : str) : option (bool * str) :=
  match s with
  | c :: r =>
      if ((c =? ch "r") || (c =? ch "R"))%N
      then option_map (fun b => (true, b)) (strip_delims r)
      else option_map (fun b => (false, b)) (strip_delims s)
  | [] => None
  end.

Definition hex_val (c : N) : N :=
  (if is_digit c then c - 48 else if c <=? 70 then c - 55 else c - 87)%N.
Fixpoint hex_num (s : str) (acc : N) : N :=
  match s with [] => acc | c :: r => hex_num r (acc * 16 + hex_val c)%N end.
Fixpoint oct_num (s : str) (acc : N) : N :=
  match s with [] => acc | c :: r => oct_num r (acc * 8 + (c - 48))%N end.

(** One decoded element: a character (verbatim or from \u / \U), or a value below 256 from
    \x, \X or an octal escape. *)
Inductive unit_ := UChar (c : N) | USmall (b : N).

Definition single_escape (c : N) : option N :=
  (if c =? ch "a" then Some 7 else if c =? ch "b" then Some 8 else if c =? ch "f" then Some 12
   else if c =? ch "n" then Some 10 else if c =? ch "r" then Some 13 else if c =? ch "t" then Some 9
   else if c =? ch "v" then Some 11
   else if (c =? 92) || (c =? ch "?") || (c =? 34) || (c =? 39) || (c =? 96) then Some c
   else None)%N.

Fixpoint unescape (fuel : nat) (raw : bool) (s : str) (acc : list unit_) : option (list unit_) :=
  match fuel with
  | O => None
  | S fuel' =>
      match s with
      | [] => Some (rev' acc)
      | c :: r =>
          if raw || negb (c =? 92)%N then unescape fuel' raw r (UChar c :: acc)
          else
            match r with
            | [] => None
            | c2 :: r2 =>
                match single_escape c2 with
                | Some v => unescape fuel' raw r2 (UChar v :: acc)
                | None =>
                    let hexes (n : nat) (k : N -> option unit_) :=
                      let ds := firstn n r2 in
                      if Nat.eqb (length ds) n && forallb is_hex ds then
                        match k (hex_num ds 0) with
                        | Some u => unescape fuel' raw (skipn n r2) (u :: acc)
                        | None => None
                        end
                      else None in
                    if ((c2 =? ch "x") || (c2 =? ch "X"))%N then hexes 2%nat (fun v => Some (USmall v))
                    else if (c2 =? ch "u")%N then
                      hexes 4%nat (fun v => if is_scalar v then Some (UChar v) else None)
                    else if (c2 =? ch "U")%N then
                      hexes 8%nat (fun v => if is_scalar v then Some (UChar v) else None)
                    else if ((48 <=? c2) && (c2 <=? 51))%N then
                      let ds := c2 :: firstn 2 r2 in
                      if Nat.eqb (length ds) 3 && forallb is_oct ds
                      then unescape fuel' raw (skipn 2 r2) (USmall (oct_num ds 0) :: acc)
                      else None
                    else None
                end
            end
      end
  end.

Definition decode_units (tok : str) : option (list unit_) :=
  match literal_body tok with
  | Some (raw, body) => unescape (S (length body)) raw body []
  | None => None
  end.

(** unquote_string: every unit is a code point. *)
Definition decode_string (tok : str) : option str :=
  option_map (map (fun u => match u with UChar c => c | USmall b => b end)) (decode_units tok).

(** unquote_bytes: small units are single bytes, characters contribute their UTF-8 encoding. *)
Definition decode_bytes (tok : str) : option (list N) :=
  match tok with
  | _ :: rest =>
      option_map (flat_map (fun u => match u with UChar c => utf8_enc1 c | USmall b => [b] end))
                 (decode_units rest)
  | [] => None
  end.

(** ** Numbers *)
Fixpoint dec_num (s : str) (acc : Z) : Z :=
  match s with [] => acc | c :: r => dec_num r (acc * 10 + (Z.of_N c - 48)) end.

(** visit_Int: the token text with its optional sign; "0x" (after the sign) means hex. *)
Definition int_literal (neg : bool) (t : str) : option Z :=
  let mag := match t with
             | z :: x :: hs => if ((z =? 48) && (x =? ch "x"))%N
                               then Z.of_N (hex_num hs 0) else dec_num t 0
             | _ => dec_num t 0
             end in
  let v := if neg then - mag else mag in
  if in_i64 v then Some v else None.

(** visit_Uint: the text without its final u/U. *)
Definition uint_literal (t : str) : option Z :=
  let t' := removelast t in
  let mag := match t' with
             | z :: x :: hs => if ((z =? 48) && (x =? ch "x"))%N
                               then Z.of_N (hex_num hs 0) else dec_num t' 0
             | _ => dec_num t' 0
             end in
  if in_u64 mag then Some mag else None.

(** Correctly rounded (nearest even) binary64 of the decimal text of a NUM_FLOAT token:
    Rust's str::parse::<f64>.  Exponents far outside the double range are decided without
    computing the power of ten. *)
Fixpoint strip_zeros (s : str) : str :=
  match s with
  | c :: r => if (c =? 48)%N then strip_zeros r else s
  | [] => []
  end.

Definition f64_of_decimal (neg : bool) (m e10 : Z) : f64 :=
  let r :=
    if 0 <=? e10 then binary_normalize prec emax (m * 10 ^ e10) 0 false
    else
      let '(mz, ez, lz) := SFdiv_core_binary prec emax m 0 (10 ^ (- e10)) 0 in
      binary_round_aux prec emax false mz ez lz in
  if neg then fopp r else r.

Definition double_literal (neg : bool) (t : str) : option f64 :=
  let '(ip, r) := span is_digit t in
  let '(fp, r2) := match r with
                   | d :: r1 => if (d =? 46)%N then span is_digit r1 else ([], r)
                   | [] => ([], r)
                   end in
  let ev := match r2 with
            | e :: r3 =>
                if ((e =? ch "e") || (e =? ch "E"))%N then
                  match r3 with
                  | sg :: r4 => if (sg =? 45)%N then - dec_num r4 0
                                else if (sg =? 43)%N then dec_num r4 0 else dec_num r3 0
                  | [] => 0
                  end
                else 0
            | [] => 0
            end in
  let sd := strip_zeros (ip ++ fp) in
  let m := dec_num sd 0 in
  let nd := Z.of_nat (length sd) in
  let e10 := ev - Z.of_nat (length fp) in
  if m =? 0 then Some (S754_zero neg)
  else if 310 <? e10 + nd then None                       (* overflows to infinity: rejected *)
  else if e10 + nd <? -330 then Some (S754_zero neg)      (* underflows to zero *)
  else
    let f := f64_of_decimal neg m e10 in
    if is_finite f then Some f else None.
