(** IEEE-754 binary64 as [SpecFloat.spec_float] at prec = 53, emax = 1024, with the
    conversions Rust performs ([as f64], [as i64], bit patterns).  Definitions only. *)
From Cel.Model Require Export Base.
From Coq Require Export Floats.SpecFloat.

Definition prec : Z := 53.
Definition emax : Z := 1024.

Definition f64 := spec_float.
Definition fadd : f64 -> f64 -> f64 := SFadd prec emax.
Definition fsub : f64 -> f64 -> f64 := SFsub prec emax.
Definition fmul : f64 -> f64 -> f64 := SFmul prec emax.
Definition fdiv : f64 -> f64 -> f64 := SFdiv prec emax.
Definition fopp : f64 -> f64 := SFopp.
Definition fcmp : f64 -> f64 -> option comparison := SFcompare.

Definition is_nan (f : f64) : bool := match f with S754_nan => true | _ => false end.
Definition is_finite (f : f64) : bool :=
  match f with S754_zero _ | S754_finite _ _ _ => true | _ => false end.

(** [i as f64] / [u as f64]: round to nearest even. *)
Definition f64_of_Z (z : Z) : f64 := binary_normalize prec emax z 0 false.

(** Truncation toward zero of a finite double; [None] for NaN and infinities. *)
Definition trunc_Z (f : f64) : option Z :=
  match f with
  | S754_zero _ => Some 0
  | S754_finite s m e =>
      let a := match e with
               | Z0 => Zpos m
               | Zpos p => Zpos m * Z.pow_pos 2 p
               | Zneg p => Zpos m / Z.pow_pos 2 p
               end in
      Some (if s then - a else a)
  | _ => None
  end.

(** Exact comparison of an integer with a double ([None] iff NaN). *)
Definition cmp_Z_f64 (z : Z) (f : f64) : option comparison :=
  match f with
  | S754_nan => None
  | S754_infinity s => Some (if s then Gt else Lt)
  | S754_zero _ => Some (Z.compare z 0)
  | S754_finite s m e =>
      let v := if s then Zneg m else Zpos m in
      match e with
      | Z0 => Some (Z.compare z v)
      | Zpos p => Some (Z.compare z (v * Z.pow_pos 2 p))
      | Zneg p => Some (Z.compare (z * Z.pow_pos 2 p) v)
      end
  end.

(** Bit patterns (the wire form of doubles).  NaN is canonicalised to 0x7ff8000000000000. *)
Definition bits_of_f64 (f : f64) : Z :=
  let sgn (s : bool) := if s then 9223372036854775808 else 0 in
  match f with
  | S754_zero s => sgn s
  | S754_infinity s => sgn s + 9218868437227405312
  | S754_nan => 9221120237041090560
  | S754_finite s m e =>
      sgn s +
      (if Zpos m <? 4503599627370496 then Zpos m
       else (e + 1075) * 4503599627370496 + (Zpos m - 4503599627370496))
  end.

Definition f64_of_bits (b : Z) : f64 :=
  let s := 9223372036854775808 <=? b in
  let r := b mod 9223372036854775808 in
  let ex := r / 4503599627370496 in
  let mant := r mod 4503599627370496 in
  if ex =? 2047 then (if mant =? 0 then S754_infinity s else S754_nan)
  else if ex =? 0 then
    match mant with
    | Zpos m => S754_finite s m (-1074)
    | _ => S754_zero s
    end
  else
    match mant + 4503599627370496 with
    | Zpos m => S754_finite s m (ex - 1075)
    | _ => S754_nan
    end.
