(** Base definitions shared by the whole model: outcomes, error classes, strings as
    code-point lists, small list helpers.  Definitions only (proofs live in Proofs/). *)
From Coq Require Export List ZArith NArith Bool.
Export ListNotations.
Open Scope Z_scope.

(** A string is the list of its Unicode scalar values (code points). *)
Definition str := list N.

Fixpoint str_eqb (a b : str) : bool :=
  match a, b with
  | [], [] => true
  | x :: a', y :: b' => N.eqb x y && str_eqb a' b'
  | _, _ => false
  end.

(** Lexicographic comparison of code-point lists (equals Rust's byte-wise comparison of
    the UTF-8 encodings, because UTF-8 preserves code-point order). *)
Fixpoint str_cmp (a b : str) : comparison :=
  match a, b with
  | [], [] => Eq
  | [], _ :: _ => Lt
  | _ :: _, [] => Gt
  | x :: a', y :: b' =>
      match N.compare x y with
      | Eq => str_cmp a' b'
      | c => c
      end
  end.

(** Error classes.  Deliberately coarse: a change of an error variant or message inside a
    class is not an observable difference. *)
Inductive errclass :=
| EOverflow                 (* IntegerOverflow *)
| EDivZero                  (* DivisionByZero / RemainderByZero *)
| ENoKey                    (* NoSuchKey *)
| EUndeclared (name : str)  (* UndeclaredReference *)
| EArgCount                 (* InvalidArgumentCount / MissingArgumentOrTarget *)
| EInvalid                  (* every other type / argument / function error *)
| EOracle.                  (* not an error of the code: the model does not interpret this
                               operation (an uninterpreted library call); wire form (any) *)

(** The result of running a piece of the implementation: a value, an error, or a crash
    (panic / abort) at a numbered site. *)
Inductive outcome (A : Type) :=
| Ok (a : A)
| Err (c : errclass)
| Crash (site : N).
Arguments Ok {A} a.
Arguments Err {A} c.
Arguments Crash {A} site.

Definition obind {A B} (o : outcome A) (f : A -> outcome B) : outcome B :=
  match o with
  | Ok a => f a
  | Err c => Err c
  | Crash s => Crash s
  end.
Definition omap {A B} (f : A -> B) (o : outcome A) : outcome B :=
  obind o (fun a => Ok (f a)).

Notation "'let!' x ':=' e 'in' k" := (obind e (fun x => k))
  (at level 200, x pattern, e at level 100, k at level 200, right associativity).

Definition is_crash {A} (o : outcome A) : bool :=
  match o with Crash _ => true | _ => false end.

(** 64-bit ranges. *)
Definition i64_min : Z := -9223372036854775808.
Definition i64_max : Z := 9223372036854775807.
Definition u64_max : Z := 18446744073709551615.
Definition in_i64 (z : Z) : bool := (i64_min <=? z) && (z <=? i64_max).
Definition in_u64 (z : Z) : bool := (0 <=? z) && (z <=? u64_max).

(** UTF-8 length of a code point and of a string; the encoding itself. *)
Definition utf8_len1 (c : N) : N :=
  (if c <? 128 then 1 else if c <? 2048 then 2 else if c <? 65536 then 3 else 4)%N.
Definition utf8_len (s : str) : N := fold_right (fun c n => utf8_len1 c + n)%N 0%N s.

Definition utf8_enc1 (c : N) : list N :=
  (if c <? 128 then [c]
   else if c <? 2048 then [192 + c / 64; 128 + c mod 64]
   else if c <? 65536 then [224 + c / 4096; 128 + (c / 64) mod 64; 128 + c mod 64]
   else [240 + c / 262144; 128 + (c / 4096) mod 64; 128 + (c / 64) mod 64; 128 + c mod 64])%N.
Definition utf8_enc (s : str) : list N := flat_map utf8_enc1 s.

(** A valid Unicode scalar value. *)
Definition is_scalar (c : N) : bool :=
  ((c <? 55296) || ((57343 <? c) && (c <? 1114112)))%N.

(** Names written as Coq strings in the model are converted to [str] with this. *)
From Coq Require Import String Ascii.
Fixpoint str_of_string (s : string) : str :=
  match s with
  | EmptyString => []
  | String a s' => N_of_ascii a :: str_of_string s'
  end.
Notation "$ s" := (str_of_string s%string) (at level 1, only parsing).
