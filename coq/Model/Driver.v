(** Request dispatch: one request line in, one response line out. *)
From Cel.Model Require Export Wire Arith Compare Macros Parser Refs WireData WireSpec WireHeap WireSurface Position.
Open Scope string_scope.

(** the context holds exactly the standard functions (hypothesis of C03_refines) *)
Definition list_eqb_funs (fs : list (str * fdef)) : bool :=
  Nat.eqb (length fs) (length default_funs) &&
  forallb (fun p => str_eqb (fst (fst p)) (fst (snd p))) (combine fs default_funs).

Definition bad (why : string) : sexp := tagged "bad-request" [Atom why].

Definition sexp_of_cmp (c : option comparison) : sexp :=
  match c with
  | None => Atom "none"
  | Some Lt => Atom "lt" | Some Eq => Atom "eq" | Some Gt => Atom "gt"
  end.

Definition run_binop (op : string) (a b : value) : sexp :=
  let ov := sexp_of_outcome sexp_of_value in
  if op =? "add" then ov (v_add a b)
  else if op =? "sub" then ov (v_sub a b)
  else if op =? "mul" then ov (v_mul a b)
  else if op =? "div" then ov (v_div a b)
  else if op =? "rem" then ov (v_rem a b)
  else if op =? "eq" then ov (Ok (VBool (v_eq a b)))
  else if op =? "ne" then ov (Ok (VBool (v_ne a b)))
  else if op =? "cmp" then sexp_of_cmp (v_cmp a b)
  else bad "binop".

Definition handle (req : sexp) : sexp :=
  match req with
  | SList [Atom "binop"; Atom op; a; b] =>
      match value_of_sexp a, value_of_sexp b with
      | Some va, Some vb => run_binop op va vb
      | _, _ => bad "value"
      end
  | SList [Atom "unop"; Atom op; a] =>
      match value_of_sexp a with
      | Some va => if op =? "neg" then sexp_of_outcome sexp_of_value (v_neg va) else bad "unop"
      | None => bad "value"
      end
  | SList [Atom "eval"; c; e] =>
      match ctx_of_sexp c, expr_of_sexp e with
      | Some c', Some e' => sexp_of_result (eval c' e')
      | None, _ => bad "ctx"
      | _, None => bad "expr"
      end
  | SList (Atom "expand" :: f :: tg :: args) =>
      match opt_str f, opt_map_list expr_of_sexp args,
            match tg with
            | Atom _ => Some None
            | SList [Atom _; te] => option_map Some (expr_of_sexp te)
            | _ => None
            end with
      | Some f', Some args', Some tg' =>
          match expand_call f' tg' args' with
          | Some e => tagged "ok" [sexp_of_expr e]
          | None => Atom "(reject)"
          end
      | _, _, _ => bad "expand"
      end
  | SList (Atom "ctxops" :: c :: ops) =>
      match ctx_of_sexp c,
            opt_map_list (fun o => match o with
                                   | SList [Atom k] =>
                                       if k =? "push" then Some OPush
                                       else if k =? "pop" then Some OPop else None
                                   | SList [Atom k; n] =>
                                       if k =? "get" then option_map OGet (opt_str n) else None
                                   | SList [Atom k; n; v] =>
                                       if k =? "def" then
                                         match opt_str n, value_of_sexp v with
                                         | Some n', Some v' => Some (ODef n' v')
                                         | _, _ => None
                                         end
                                       else None
                                   | _ => None
                                   end) ops with
      | Some c', Some ops' =>
          tagged "gets" (map (sexp_of_outcome sexp_of_value) (run_cops c' ops'))
      | _, _ => bad "ctxops"
      end
  | SList [Atom "compile"; src] =>
      match opt_str src with
      | Some s =>
          match compile s with
          | CExpr e => tagged "ok" [sexp_of_expr e]
          | CReject => Atom "(reject)"
          | COutOfFuel => Atom "(out-of-fuel)"
          end
      | None => bad "compile"
      end
  | SList [Atom "posfor"; src; st] =>
      (* the position reported for a macro error at byte offset [st] (unwrap_or_default: 0 0) *)
      match opt_str src, sexp_N st with
      | Some s, Some n =>
          match pos_for (utf8_enc s) (N.to_nat n) with
          | Some (l, c) => tagged "pos" [atomZ (Z.of_nat l); atomZ (Z.of_nat c)]
          | None => tagged "pos" [atomZ 0; atomZ 0]
          end
      | _, _ => bad "posfor"
      end
  | SList [Atom "evalsrc"; c; src] =>
      match ctx_of_sexp c, opt_str src with
      | Some c', Some s =>
          match compile s with
          | CExpr e => sexp_of_result (eval c' e)
          | CReject => Atom "(reject)"
          | COutOfFuel => Atom "(out-of-fuel)"
          end
      | _, _ => bad "evalsrc"
      end
  | SList [Atom "refs"; src] =>
      match opt_str src with
      | Some s =>
          match compile s with
          | CExpr e =>
              tagged "refs" [tagged "vars" (map (fun x => tagged "str" (sexp_of_str x)) (sort_dedup (ref_vars e)));
                             tagged "funs" (map (fun x => tagged "str" (sexp_of_str x)) (sort_dedup (ref_funs e)));
                             tagged "closed" [Atom (if no_free_at e then "true" else "false")]]
          | CReject => Atom "(reject)"
          | COutOfFuel => Atom "(out-of-fuel)"
          end
      | None => bad "refs"
      end
  | SList [Atom "c03"; c; g; t; src] =>
      match ctx_of_sexp c, tenv_of_sexp g, texpr_of_sexp t, opt_str src with
      | Some c', Some g', Some t', Some s =>
          match compile s with
          | CExpr e =>
              let status :=
                if negb (String.eqb (print_sexp (sexp_of_expr e)) (print_sexp (sexp_of_expr (Spec.lower t')))) then
                  tagged "lower-mismatch" [sexp_of_expr e; sexp_of_expr (Spec.lower t')]
                else match type_of g' t' with
                     | None => Atom "untyped"
                     | Some _ => if negb (env_okb g' (env_of c')) then Atom "env-mismatch"
                                 else if negb (list_eqb_funs (funs c')) then Atom "extra-functions"
                                 else Atom "typed"
                     end in
              let r := eval c' e in
              tagged "c03" [status; sexp_of_outcome sexp_of_value (fst r);
                            tagged "log" (map sexp_of_event (snd r));
                            sexp_of_outcome sexp_of_value (sem (env_of c') t')]
          | CReject => Atom "(reject)"
          | COutOfFuel => Atom "(out-of-fuel)"
          end
      | _, _, _, _ => bad "c03"
      end
  | SList [Atom "c04"; t; src] =>
      match st_of_sexp t, opt_str src with
      | Some t', Some s =>
          let toks_ok := match lex s with Some ts => tks_eqb ts (raw t') | None => false end in
          tagged "c04" [Atom (if toks_ok && wf_stb t' then "true" else "false");
                        tagged "ok" [sexp_of_expr (ast t')]]
      | _, _ => bad "c04"
      end
  | SList (Atom "arcops" :: n :: ops) =>
      match sexp_N n, opt_map_list op_of_sexp ops with
      | Some n', Some ops' => arc_answer (N.to_nat n') ops'
      | _, _ => bad "arcops"
      end
  | SList [Atom "heap"; SList (Atom "env" :: es); prog] =>
      match opt_map_list env_entry es, hexpr_of_sexp prog with
      | Some entries, Some e => heap_answer entries e
      | _, _ => bad "heap"
      end
  | SList [Atom "ser"; d] =>
      match sdata_of_sexp d with
      | Some d' => sexp_of_outcome sexp_of_value (to_value d')
      | None => bad "sdata"
      end
  | SList [Atom "serjson"; d] =>
      match sdata_of_sexp d with
      | Some d' => sexp_of_outcome sexp_of_json (json_direct d')
      | None => bad "sdata"
      end
  | SList [Atom "json"; v] =>
      match value_of_sexp v with
      | Some v' => sexp_of_outcome sexp_of_json (json_of_value v')
      | None => bad "value"
      end
  | SList [Atom "unjson"; j] =>
      match json_of_sexp j with
      | Some j' => sexp_of_outcome sexp_of_value (to_value (sdata_of_json j'))
      | None => bad "json"
      end
  | SList [Atom "echo"; a] =>
      match value_of_sexp a with
      | Some va => sexp_of_value va
      | None => bad "value"
      end
  | _ => bad "request"
  end.

Definition handle_line (line : string) : string :=
  match read_sexp line with
  | Some req => print_sexp (handle req)
  | None => "(bad-request syntax)"
  end.
