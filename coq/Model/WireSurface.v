(** Wire form of surface operator trees (C04). *)
From Cel.Model Require Export Wire Surface.
Open Scope string_scope.

Definition optk_of_atom (a : string) : option tk :=
  if a =? "star" then Some TStar else if a =? "slash" then Some TSlash else if a =? "percent" then Some TPercent
  else if a =? "plus" then Some TPlus else if a =? "minus" then Some TMinus
  else if a =? "lt" then Some TLt else if a =? "le" then Some TLe else if a =? "ge" then Some TGe
  else if a =? "gt" then Some TGt else if a =? "eq" then Some TEq else if a =? "ne" then Some TNe
  else if a =? "in" then Some TIn else None.

Fixpoint st_of_sexp (x : sexp) : option st :=
  let many := (fix go (l : list sexp) : option (list st) :=
                 match l with
                 | [] => Some []
                 | y :: l' => match st_of_sexp y, go l' with
                              | Some e, Some es => Some (e :: es)
                              | _, _ => None
                              end
                 end) in
  let pairs := (fix go (l : list sexp) : option (list (st * st)) :=
                  match l with
                  | [] => Some []
                  | SList [k; v] :: l' => match st_of_sexp k, st_of_sexp v, go l' with
                                          | Some k', Some v', Some r => Some ((k', v') :: r)
                                          | _, _, _ => None
                                          end
                  | _ => None
                  end) in
  let flds := (fix go (l : list sexp) : option (list (str * st)) :=
                 match l with
                 | [] => Some []
                 | SList [n; v] :: l' => match opt_str n, st_of_sexp v, go l' with
                                         | Some n', Some v', Some r => Some ((n', v') :: r)
                                         | _, _, _ => None
                                         end
                 | _ => None
                 end) in
  let bin (mk : tk -> st -> st -> st) (args : list sexp) : option st :=
    match args with
    | [Atom o; a; b] => match optk_of_atom o, st_of_sexp a, st_of_sexp b with
                        | Some o', Some a', Some b' => Some (mk o' a' b')
                        | _, _, _ => None
                        end
    | _ => None
    end in
  match x with
  | SList (Atom t :: args) =>
      if t =? "id" then match args with [n] => option_map SId (opt_str n) | _ => None end
      else if t =? "not" then
        match args with [n; a] => match sexp_N n, st_of_sexp a with
                                  | Some n', Some a' => Some (SNot (N.to_nat n') a') | _, _ => None end
                      | _ => None end
      else if t =? "neg" then
        match args with [n; a] => match sexp_N n, st_of_sexp a with
                                  | Some n', Some a' => Some (SNeg (N.to_nat n') a') | _, _ => None end
                      | _ => None end
      else if t =? "mul" then bin SMul args
      else if t =? "add" then bin SAdd args
      else if t =? "rel" then bin SRel args
      else if t =? "and" then
        match args with a :: rs => match st_of_sexp a, many rs with
                                   | Some a', Some rs' => Some (SAnd a' rs') | _, _ => None end
                      | _ => None end
      else if t =? "or" then
        match args with a :: rs => match st_of_sexp a, many rs with
                                   | Some a', Some rs' => Some (SOr a' rs') | _, _ => None end
                      | _ => None end
      else if t =? "cond" then
        match args with
        | [c; a; b] => match st_of_sexp c, st_of_sexp a, st_of_sexp b with
                       | Some c', Some a', Some b' => Some (SCond c' a' b')
                       | _, _, _ => None
                       end
        | _ => None
        end
      else if t =? "paren" then match args with [a] => option_map SParen (st_of_sexp a) | _ => None end
      else if t =? "lint" then match args with [z] => option_map (fun z' => SLit (LInt z')) (sexp_Z z) | _ => None end
      else if t =? "ldbl" then match args with [tok] => option_map (fun t' => SLit (LDbl t')) (opt_str tok) | _ => None end
      else if t =? "lnegdbl" then match args with [tok] => option_map SNegDbl (opt_str tok) | _ => None end
      else if t =? "lneg" then match args with [z] => option_map SNegLit (sexp_Z z) | _ => None end
      else if t =? "luint" then match args with [z] => option_map (fun z' => SLit (LUint z')) (sexp_Z z) | _ => None end
      else if t =? "ltrue" then match args with [] => Some (SLit (LBool true)) | _ => None end
      else if t =? "lfalse" then match args with [] => Some (SLit (LBool false)) | _ => None end
      else if t =? "lnull" then match args with [] => Some (SLit LNull) | _ => None end
      else if t =? "lstr" then
        match args with [tok; v] => match opt_str tok, opt_str v with
                                    | Some tok', Some v' => Some (SLit (LStr tok' v')) | _, _ => None end
                      | _ => None end
      else if t =? "lbytes" then
        match args with [tok; v] => match opt_str tok, opt_str v with
                                    | Some tok', Some v' => Some (SLit (LBytes tok' v')) | _, _ => None end
                      | _ => None end
      else if t =? "sel" then
        match args with [a; f] => match st_of_sexp a, opt_str f with
                                  | Some a', Some f' => Some (SSel a' f') | _, _ => None end
                      | _ => None end
      else if t =? "idx" then
        match args with [a; i] => match st_of_sexp a, st_of_sexp i with
                                  | Some a', Some i' => Some (SIdx a' i') | _, _ => None end
                      | _ => None end
      else if t =? "mcall" then
        match args with a :: f :: rs => match st_of_sexp a, opt_str f, many rs with
                                        | Some a', Some f', Some rs' => Some (SMCall a' f' rs') | _, _, _ => None end
                      | _ => None end
      else if t =? "call" then
        match args with f :: rs => match opt_str f, many rs with
                                   | Some f', Some rs' => Some (SCall f' rs') | _, _ => None end
                      | _ => None end
      else if t =? "msg" then
        match args with
        | Atom lead :: SList (Atom "names" :: ns) :: fs =>
            match opt_map_list opt_str ns, flds fs with
            | Some ns', Some fs' => Some (SMsg (lead =? "true") ns' fs')
            | _, _ => None
            end
        | _ => None
        end
      else if t =? "list" then option_map SLst (many args)
      else if t =? "map" then option_map SMap (pairs args)
      else if t =? "listt" then option_map SLstT (many args)
      else if t =? "mapt" then option_map SMapT (pairs args)
      else if t =? "msgt" then
        match args with
        | Atom lead :: SList (Atom "names" :: ns) :: fs =>
            match opt_map_list opt_str ns, flds fs with
            | Some ns', Some fs' => Some (SMsgT (lead =? "true") ns' fs')
            | _, _ => None
            end
        | _ => None
        end
      else if t =? "dotid" then match args with [n] => option_map SDotId (opt_str n) | _ => None end
      else if t =? "dotcall" then
        match args with f :: rs => match opt_str f, many rs with
                                   | Some f', Some rs' => Some (SDotCall f' rs') | _, _ => None end
                      | _ => None end
      else if t =? "selesc" then
        match args with [a; f] => match st_of_sexp a, opt_str f with
                                  | Some a', Some f' => Some (SSelEsc a' f') | _, _ => None end
                      | _ => None end
      else None
  | _ => None
  end.
