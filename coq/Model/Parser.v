(** The parser: a recursive-descent transcription of the grammar rules of CEL.g4 and of the
    visitor (antlr/src/parser.rs) that builds the AST, including macro expansion at call nodes
    (children first), the literal checks, the balanced trees for && / || chains and the
    rejected optional ('?') syntax.  Fuelled; out-of-fuel is a distinct result. *)
From Coq Require Import String Ascii.
From Cel.Model Require Export Literals Macros.

Inductive pres (A : Type) :=
| POk (a : A) (rest : list tk)
| PFail
| PFuel.
Arguments POk {A} a rest.
Arguments PFail {A}.
Arguments PFuel {A}.

(** LogicManager::balanced_tree over terms[lo..hi+1] *)
Fixpoint balanced (fuel : nat) (fn : str) (terms : list expr) (lo hi : nat) : expr :=
  match fuel with
  | O => EUnspec
  | S f =>
      let mid := Nat.div (lo + hi + 1) 2 in
      let left := if Nat.eqb mid lo then nth mid terms EUnspec
                  else balanced f fn terms lo (mid - 1) in
      let right := if Nat.eqb mid hi then nth (mid + 1) terms EUnspec
                   else balanced f fn terms (mid + 1) hi in
      ECall fn None [left; right]
  end.

Definition logic_tree (fn : str) (terms : list expr) : expr :=
  match terms with
  | [t] => t
  | _ => balanced (length terms) fn terms 0 (length terms - 2)
  end.

Definition relop_name (t : tk) : option str :=
  match t with
  | TLt => Some $"_<_" | TLe => Some $"_<=_" | TGe => Some $"_>=_" | TGt => Some $"_>_"
  | TEq => Some $"_==_" | TNe => Some $"_!=_" | TIn => Some $"@in"
  | _ => None
  end.
Definition addop_name (t : tk) : option str :=
  match t with TPlus => Some $"_+_" | TMinus => Some $"_-_" | _ => None end.
Definition mulop_name (t : tk) : option str :=
  match t with TStar => Some $"_*_" | TSlash => Some $"_/_" | TPercent => Some $"_%_" | _ => None end.

Fixpoint count_prefix (t : tk -> bool) (ts : list tk) : nat * list tk :=
  match ts with
  | x :: r => if t x then let '(n, r') := count_prefix t r in (S n, r') else (O, ts)
  | [] => (O, [])
  end.
Definition is_bang (t : tk) : bool := match t with TBang => true | _ => false end.
Definition is_minus (t : tk) : bool := match t with TMinus => true | _ => false end.

(** IDENT ('.' IDENT)* '{' : the message-literal prefix (unbounded lookahead). *)
Fixpoint msg_prefix (fuel : nat) (ts : list tk) (acc : list str) : option (list str * list tk) :=
  match fuel with
  | O => None
  | S f =>
      match ts with
      | TIdent a :: TLBrace :: r => Some (rev' (a :: acc), r)
      | TIdent a :: TDot :: r => msg_prefix f r (a :: acc)
      | _ => None
      end
  end.

Fixpoint join_dots (l : list str) : str :=
  match l with
  | [] => []
  | [a] => a
  | a :: r => a ++ [46%N] ++ join_dots r
  end.

Definition lit (v : value) : expr := ELit v.

Definition literal_of (ts : list tk) : option (expr * list tk) :=
  match ts with
  | TMinus :: TInt t :: r => option_map (fun z => (lit (VInt z), r)) (int_literal true t)
  | TMinus :: TFloat t :: r => option_map (fun d => (lit (VDbl d), r)) (double_literal true t)
  | TInt t :: r => option_map (fun z => (lit (VInt z), r)) (int_literal false t)
  | TUint t :: r => option_map (fun z => (lit (VUInt z), r)) (uint_literal t)
  | TFloat t :: r => option_map (fun d => (lit (VDbl d), r)) (double_literal false t)
  | TString t :: r => option_map (fun s => (lit (VStr s), r)) (decode_string t)
  | TBytes t :: r => option_map (fun b => (lit (VBytes b), r)) (decode_bytes t)
  | TTrue :: r => Some (lit (VBool true), r)
  | TFalse :: r => Some (lit (VBool false), r)
  | TNull :: r => Some (lit VNull, r)
  | _ => None
  end.

Definition is_number_tok (ts : list tk) : bool :=
  match ts with
  | TInt _ :: _ | TFloat _ :: _ => true
  | _ => false
  end.

Definition mk_call (f : str) (target : option expr) (args : list expr) (rest : list tk)
  : pres expr :=
  match expand_call f target args with
  | Some e => POk e rest
  | None => PFail
  end.

Fixpoint p_expr (f : nat) (ts : list tk) {struct f} : pres expr :=
  match f with
  | O => PFuel
  | S f' =>
      match p_or f' ts with
      | POk c (TQuestion :: ts1) =>
          match p_or f' ts1 with
          | POk a (TColon :: ts2) =>
              match p_expr f' ts2 with
              | POk b ts3 => POk (ECall op_conditional None [c; a; b]) ts3
              | PFail => PFail
              | PFuel => PFuel
              end
          | POk _ _ => PFail
          | PFail => PFail
          | PFuel => PFuel
          end
      | r => r
      end
  end

with p_or (f : nat) (ts : list tk) {struct f} : pres expr :=
  match f with
  | O => PFuel
  | S f' =>
      match p_and f' ts with
      | POk t ts1 => p_or_loop f' [t] ts1
      | r => r
      end
  end

with p_or_loop (f : nat) (acc : list expr) (ts : list tk) {struct f} : pres expr :=
  match f with
  | O => PFuel
  | S f' =>
      match ts with
      | TOrOr :: ts1 =>
          match p_and f' ts1 with
          | POk t ts2 => p_or_loop f' (t :: acc) ts2
          | r => r
          end
      | _ => POk (logic_tree $"_||_" (rev' acc)) ts
      end
  end

with p_and (f : nat) (ts : list tk) {struct f} : pres expr :=
  match f with
  | O => PFuel
  | S f' =>
      match p_rel f' ts with
      | POk t ts1 => p_and_loop f' [t] ts1
      | r => r
      end
  end

with p_and_loop (f : nat) (acc : list expr) (ts : list tk) {struct f} : pres expr :=
  match f with
  | O => PFuel
  | S f' =>
      match ts with
      | TAndAnd :: ts1 =>
          match p_rel f' ts1 with
          | POk t ts2 => p_and_loop f' (t :: acc) ts2
          | r => r
          end
      | _ => POk (logic_tree $"_&&_" (rev' acc)) ts
      end
  end

with p_rel (f : nat) (ts : list tk) {struct f} : pres expr :=
  match f with
  | O => PFuel
  | S f' =>
      match p_add f' ts with
      | POk l ts1 => p_rel_loop f' l ts1
      | r => r
      end
  end

with p_rel_loop (f : nat) (lhs : expr) (ts : list tk) {struct f} : pres expr :=
  match f with
  | O => PFuel
  | S f' =>
      match ts with
      | op :: ts1 =>
          match relop_name op with
          | Some name =>
              match p_add f' ts1 with
              | POk r ts2 => p_rel_loop f' (ECall name None [lhs; r]) ts2
              | x => x
              end
          | None => POk lhs ts
          end
      | [] => POk lhs ts
      end
  end

with p_add (f : nat) (ts : list tk) {struct f} : pres expr :=
  match f with
  | O => PFuel
  | S f' =>
      match p_mul f' ts with
      | POk l ts1 => p_add_loop f' l ts1
      | r => r
      end
  end

with p_add_loop (f : nat) (lhs : expr) (ts : list tk) {struct f} : pres expr :=
  match f with
  | O => PFuel
  | S f' =>
      match ts with
      | op :: ts1 =>
          match addop_name op with
          | Some name =>
              match p_mul f' ts1 with
              | POk r ts2 => p_add_loop f' (ECall name None [lhs; r]) ts2
              | x => x
              end
          | None => POk lhs ts
          end
      | [] => POk lhs ts
      end
  end

with p_mul (f : nat) (ts : list tk) {struct f} : pres expr :=
  match f with
  | O => PFuel
  | S f' =>
      match p_unary f' ts with
      | POk l ts1 => p_mul_loop f' l ts1
      | r => r
      end
  end

with p_mul_loop (f : nat) (lhs : expr) (ts : list tk) {struct f} : pres expr :=
  match f with
  | O => PFuel
  | S f' =>
      match ts with
      | op :: ts1 =>
          match mulop_name op with
          | Some name =>
              match p_unary f' ts1 with
              | POk r ts2 => p_mul_loop f' (ECall name None [lhs; r]) ts2
              | x => x
              end
          | None => POk lhs ts
          end
      | [] => POk lhs ts
      end
  end

with p_unary (f : nat) (ts : list tk) {struct f} : pres expr :=
  match f with
  | O => PFuel
  | S f' =>
      match ts with
      | TBang :: _ =>
          let '(n, ts1) := count_prefix is_bang ts in
          match p_member f' ts1 with
          | POk m ts2 => POk (if Nat.odd n then ECall $"!_" None [m] else m) ts2
          | r => r
          end
      | TMinus :: ts0 =>
          if is_number_tok ts0 then p_member f' ts
          else
            let '(n, ts1) := count_prefix is_minus ts in
            match p_member f' ts1 with
            | POk m ts2 => POk (if Nat.odd n then ECall $"-_" None [m] else m) ts2
            | r => r
            end
      | _ => p_member f' ts
      end
  end

with p_member (f : nat) (ts : list tk) {struct f} : pres expr :=
  match f with
  | O => PFuel
  | S f' =>
      match p_primary f' ts with
      | POk p ts1 => p_postfix f' p ts1
      | r => r
      end
  end

with p_postfix (f : nat) (e : expr) (ts : list tk) {struct f} : pres expr :=
  match f with
  | O => PFuel
  | S f' =>
      match ts with
      | TDot :: TIdent id :: TLParen :: ts1 =>
          match p_args f' ts1 with
          | POk args ts2 =>
              match mk_call id (Some e) args ts2 with
              | POk e' ts3 => p_postfix f' e' ts3
              | r => r
              end
          | PFail => PFail
          | PFuel => PFuel
          end
      | TDot :: TIdent id :: ts1 => p_postfix f' (ESelect e id false) ts1
      | TDot :: TEscIdent id :: ts1 => p_postfix f' (ESelect e id false) ts1
      | TLBracket :: TQuestion :: _ => PFail
      | TLBracket :: ts1 =>
          match p_expr f' ts1 with
          | POk i (TRBracket :: ts2) => p_postfix f' (ECall $"_[_]" None [e; i]) ts2
          | POk _ _ => PFail
          | PFail => PFail
          | PFuel => PFuel
          end
      | _ => POk e ts
      end
  end

with p_args (f : nat) (ts : list tk) {struct f} : pres (list expr) :=
  (* after '(' : ')' | expr (',' expr)* ')' *)
  match f with
  | O => PFuel
  | S f' =>
      match ts with
      | TRParen :: ts1 => POk [] ts1
      | _ => p_args_rest f' [] ts
      end
  end

with p_args_rest (f : nat) (acc : list expr) (ts : list tk) {struct f} : pres (list expr) :=
  match f with
  | O => PFuel
  | S f' =>
      match p_expr f' ts with
      | POk a (TComma :: ts1) => p_args_rest f' (a :: acc) ts1
      | POk a (TRParen :: ts1) => POk (rev' (a :: acc)) ts1
      | POk _ _ => PFail
      | PFail => PFail
      | PFuel => PFuel
      end
  end

with p_elems (f : nat) (acc : list expr) (ts : list tk) {struct f} : pres (list expr) :=
  (* list elements after '[' ; trailing comma allowed; '?' elements rejected *)
  match f with
  | O => PFuel
  | S f' =>
      match ts with
      | TRBracket :: ts1 => POk (rev' acc) ts1
      | TQuestion :: _ => PFail
      | _ =>
          match p_expr f' ts with
          | POk a (TComma :: ts1) => p_elems f' (a :: acc) ts1
          | POk a (TRBracket :: ts1) => POk (rev' (a :: acc)) ts1
          | POk _ _ => PFail
          | PFail => PFail
          | PFuel => PFuel
          end
      end
  end

with p_entries (f : nat) (acc : list (expr * expr)) (ts : list tk) {struct f}
  : pres (list (expr * expr)) :=
  match f with
  | O => PFuel
  | S f' =>
      match ts with
      | TRBrace :: ts1 => POk (rev' acc) ts1
      | TQuestion :: _ => PFail
      | _ =>
          match p_expr f' ts with
          | POk k (TColon :: ts1) =>
              match p_expr f' ts1 with
              | POk v (TComma :: ts2) => p_entries f' ((k, v) :: acc) ts2
              | POk v (TRBrace :: ts2) => POk (rev' ((k, v) :: acc)) ts2
              | POk _ _ => PFail
              | PFail => PFail
              | PFuel => PFuel
              end
          | POk _ _ => PFail
          | PFail => PFail
          | PFuel => PFuel
          end
      end
  end

with p_fields (f : nat) (acc : list (str * expr)) (ts : list tk) {struct f}
  : pres (list (str * expr)) :=
  match f with
  | O => PFuel
  | S f' =>
      match ts with
      | TRBrace :: ts1 => POk (rev' acc) ts1
      | TQuestion :: _ => PFail
      | (TIdent n | TEscIdent n) :: TColon :: ts1 =>
          match p_expr f' ts1 with
          | POk v (TComma :: ts2) => p_fields f' ((n, v) :: acc) ts2
          | POk v (TRBrace :: ts2) => POk (rev' ((n, v) :: acc)) ts2
          | POk _ _ => PFail
          | PFail => PFail
          | PFuel => PFuel
          end
      | _ => PFail
      end
  end

with p_primary (f : nat) (ts : list tk) {struct f} : pres expr :=
  match f with
  | O => PFuel
  | S f' =>
      let ident_forms (leading : bool) (ts0 : list tk) : pres expr :=
        match msg_prefix (S (length ts0)) ts0 [] with
        | Some (names, TComma :: TRBrace :: ts2) =>
            let n := join_dots names in
            POk (EStruct (if leading then 46%N :: n else n) []) ts2
        | Some (names, ts1) =>
            match p_fields f' [] ts1 with
            | POk fs ts2 =>
                let n := join_dots names in
                POk (EStruct (if leading then 46%N :: n else n) fs) ts2
            | PFail => PFail
            | PFuel => PFuel
            end
        | None =>
            match ts0 with
            | TIdent id :: TLParen :: ts1 =>
                match p_args f' ts1 with
                | POk args ts2 => mk_call (if leading then 46%N :: id else id) None args ts2
                | PFail => PFail
                | PFuel => PFuel
                end
            | TIdent id :: ts1 => POk (EIdent id) ts1
            | _ => PFail
            end
        end in
      match ts with
      | TDot :: ts0 => ident_forms true ts0
      | TIdent _ :: _ => ident_forms false ts
      | TLParen :: ts1 =>
          match p_expr f' ts1 with
          | POk e (TRParen :: ts2) => POk e ts2
          | POk _ _ => PFail
          | r => r
          end
      | TLBracket :: TComma :: TRBracket :: ts1 => POk (EList []) ts1
      | TLBracket :: ts1 =>
          match p_elems f' [] ts1 with
          | POk es ts2 => POk (EList es) ts2
          | PFail => PFail
          | PFuel => PFuel
          end
      | TLBrace :: TComma :: TRBrace :: ts1 => POk (EMap []) ts1
      | TLBrace :: ts1 =>
          match p_entries f' [] ts1 with
          | POk es ts2 => POk (EMap es) ts2
          | PFail => PFail
          | PFuel => PFuel
          end
      | _ =>
          match literal_of ts with
          | Some (e, r) => POk e r
          | None => PFail
          end
      end
  end.

Definition parse_fuel (ts : list tk) : nat := (16 * (length ts + 2))%nat.

Inductive compiled := CExpr (e : expr) | CReject | COutOfFuel.

Definition parse_tokens (ts : list tk) : compiled :=
  match p_expr (parse_fuel ts) ts with
  | POk e [] => CExpr e
  | POk _ _ => CReject
  | PFail => CReject
  | PFuel => COutOfFuel
  end.

Definition compile (src : str) : compiled :=
  match lex src with
  | Some ts => parse_tokens ts
  | None => CReject
  end.
