(** CEL values as the interpreter represents them (objects.rs, enum Value / enum Key). *)
From Cel.Model Require Export Base Num.

Inductive key :=
| KInt (z : Z) | KUint (z : Z) | KBool (b : bool) | KStr (s : str).

(** Durations are total signed nanoseconds (chrono's TimeDelta ranges over
    +-i64::MAX milliseconds); timestamps are the UTC instant in nanoseconds since the epoch
    plus the offset in seconds (leap-second representations are outside the model). *)
Inductive value :=
| VList (l : list value)
| VMap (m : list (key * value))            (* entries in iteration order, keys distinct *)
| VFun (name : str) (recv : option value)
| VInt (z : Z) | VUInt (z : Z) | VDbl (f : f64)
| VStr (s : str) | VBytes (b : list N) | VBool (b : bool)
| VDur (ns : Z) | VTs (ns : Z) (off : Z)
| VNull.

Definition key_eqb (a b : key) : bool :=
  match a, b with
  | KInt x, KInt y => x =? y
  | KUint x, KUint y => x =? y
  | KBool x, KBool y => Bool.eqb x y
  | KStr x, KStr y => str_eqb x y
  | _, _ => false
  end.

Definition value_of_key (k : key) : value :=
  match k with
  | KInt z => VInt z | KUint z => VUInt z | KBool b => VBool b | KStr s => VStr s
  end.

(** TryInto<Key> for Value *)
Definition key_of_value (v : value) : option key :=
  match v with
  | VInt z => Some (KInt z) | VUInt z => Some (KUint z)
  | VStr s => Some (KStr s) | VBool b => Some (KBool b)
  | _ => None
  end.

Fixpoint assoc_get {B} (k : key) (m : list (key * B)) : option B :=
  match m with
  | [] => None
  | (k', v) :: m' => if key_eqb k k' then Some v else assoc_get k m'
  end.

(** HashMap::insert: replace in place when present (iteration order is not observable
    through this model except for context-supplied maps), append otherwise. *)
Fixpoint assoc_set {B} (k : key) (v : B) (m : list (key * B)) : list (key * B) :=
  match m with
  | [] => [(k, v)]
  | (k', v') :: m' => if key_eqb k k' then (k, v) :: m' else (k', v') :: assoc_set k v m'
  end.

(** Map::get with the int/uint cross lookup (objects.rs Map::get). *)
Definition map_get {B} (k : key) (m : list (key * B)) : option B :=
  match assoc_get k m with
  | Some v => Some v
  | None =>
      match k with
      | KInt z => if 0 <=? z then assoc_get (KUint z) m else None
      | KUint z => if z <=? i64_max then assoc_get (KInt z) m else None
      | _ => None
      end
  end.

(** chrono ranges. *)
Definition dur_max_ns : Z := i64_max * 1000000.          (* TimeDelta::MAX = i64::MAX ms *)
Definition dur_in_range (ns : Z) : bool := (- dur_max_ns <=? ns) && (ns <=? dur_max_ns).
Definition dur_in_i64 (ns : Z) : bool := in_i64 ns.

(** Value::to_bool (objects.rs) *)
Definition to_bool (v : value) : bool :=
  match v with
  | VList l => match l with [] => false | _ => true end
  | VMap m => match m with [] => false | _ => true end
  | VInt z | VUInt z => negb (z =? 0)
  | VDbl f => match f with S754_zero _ => false | _ => true end
  | VStr s => match s with [] => false | _ => true end
  | VBytes b => match b with [] => false | _ => true end
  | VBool b => b
  | VNull => false
  | VDur ns => if in_i64 ns then negb (ns =? 0) else false
  | VTs ns _ => if in_i64 ns then 0 <? ns else false
  | VFun _ _ => false
  end.
