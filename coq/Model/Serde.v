(** Host data -> CEL values (interpreter/src/ser.rs): the serde data model as an inductive
    type (one constructor per Serializer entry point a Serialize impl can drive), [to_value]
    (struct Serializer), [key_ser] (struct KeySerializer) and the duration / timestamp wrappers. *)
From Coq Require Import String Ascii.
From Cel.Model Require Export Timestamp.

Inductive sdata :=
| SBool (b : bool)
| SInt (z : Z)                        (* serialize_i8 .. serialize_i64 *)
| SUint (z : Z)                       (* serialize_u8 .. serialize_u64 *)
| SBig                                (* serialize_i128 / u128: serde's default "not supported" *)
| SFloat (f : f64)                    (* serialize_f32 (widened) / serialize_f64 *)
| SChar (c : N)
| SStr (s : str)
| SBytes (b : list N)
| SNone
| SSome (d : sdata)
| SUnit
| SUnitStruct
| SUnitVariant (variant : str)
| SNewtypeStruct (d : sdata)
| SNewtypeVariant (variant : str) (d : sdata)
| SSeq (l : list sdata)
| STuple (l : list sdata)
| STupleStruct (l : list sdata)
| STupleVariant (variant : str) (l : list sdata)
| SMap (entries : list (sdata * sdata))
| SStruct (fields : list (str * sdata))
| SStructVariant (variant : str) (fields : list (str * sdata))
| SDuration (ns : Z)                  (* cel_interpreter::Duration wrapper *)
| STimestamp (ns off : Z).            (* cel_interpreter::Timestamp wrapper *)

(** KeySerializer *)
Fixpoint key_ser (d : sdata) : outcome key :=
  match d with
  | SBool b => Ok (KBool b)
  | SInt z => Ok (KInt z)
  | SUint z => Ok (KUint z)
  | SChar c => Ok (KStr [c])
  | SStr s => Ok (KStr s)
  | SUnitVariant v => Ok (KStr v)
  | SSome d' => key_ser d'
  | SNewtypeStruct d' => key_ser d'
  | STimestamp _ _ => Err EOracle      (* chrono's own text for the instant: not modelled *)
  | _ => Err EInvalid
  end.

(** The Timestamp wrapper travels as text: chrono's Serialize writes the offset to the minute
    (the absolute value rounded half up) and keeps the local reading, so an offset that is not
    a whole number of minutes moves the instant; an offset that rounds to 24:00 is refused by
    the parser. *)
Definition ts_wrapper (ns off : Z) : outcome value :=
  let a := Z.abs off in
  let m := (a + 30) / 60 in
  if 1440 <=? m then Err EInvalid
  else let off' := (if off <? 0 then - (m * 60) else m * 60) in
       Ok (VTs (ns + (off - off') * 1000000000) off').

Fixpoint to_value (d : sdata) : outcome value :=
  let seq := (fix go (l : list sdata) (acc : list value) : outcome (list value) :=
                match l with
                | [] => Ok (rev' acc)
                | x :: l' => match to_value x with
                             | Ok v => go l' (v :: acc)
                             | Err c => Err c
                             | Crash s => Crash s
                             end
                end) in
  let fields := (fix go (l : list (str * sdata)) (m : list (key * value)) : outcome (list (key * value)) :=
                   match l with
                   | [] => Ok m
                   | (n, x) :: l' => match to_value x with
                                     | Ok v => go l' (assoc_set (KStr n) v m)
                                     | Err c => Err c
                                     | Crash s => Crash s
                                     end
                   end) in
  match d with
  | SBool b => Ok (VBool b)
  | SInt z => Ok (VInt z)
  | SUint z => Ok (VUInt z)
  | SBig => Err EInvalid
  | SFloat f => Ok (VDbl f)
  | SChar c => Ok (VStr [c])
  | SStr s => Ok (VStr s)
  | SBytes b => Ok (VBytes b)
  | SNone | SUnit | SUnitStruct => Ok VNull
  | SSome d' => to_value d'
  | SUnitVariant v => Ok (VStr v)
  | SNewtypeStruct d' => to_value d'
  | SNewtypeVariant v d' => let! x := to_value d' in Ok (VMap [(KStr v, x)])
  | SSeq l | STuple l | STupleStruct l => let! vs := seq l [] in Ok (VList vs)
  | STupleVariant v l => let! vs := seq l [] in Ok (VMap [(KStr v, VList vs)])
  | SMap entries =>
      (fix go (l : list (sdata * sdata)) (m : list (key * value)) : outcome value :=
         match l with
         | [] => Ok (VMap m)
         | (k, x) :: l' =>
             match key_ser k with
             | Ok k' => match to_value x with
                        | Ok v => go l' (assoc_set k' v m)
                        | Err c => Err c
                        | Crash s => Crash s
                        end
             | Err c => Err c
             | Crash s => Crash s
             end
         end) entries []
  | SStruct fs => let! m := fields fs [] in Ok (VMap m)
  | SStructVariant v fs => let! m := fields fs [] in Ok (VMap [(KStr v, VMap m)])
  | SDuration ns => Ok (VDur ns)
  | STimestamp ns off => ts_wrapper ns off
  end.

(** The nested loops above under names (the proofs reason about these). *)
Fixpoint tv_seq (l : list sdata) (acc : list value) : outcome (list value) :=
  match l with
  | [] => Ok (rev' acc)
  | x :: l' => match to_value x with
               | Ok v => tv_seq l' (v :: acc)
               | Err c => Err c
               | Crash s => Crash s
               end
  end.
Fixpoint tv_fields (l : list (str * sdata)) (m : list (key * value)) : outcome (list (key * value)) :=
  match l with
  | [] => Ok m
  | (n, x) :: l' => match to_value x with
                    | Ok v => tv_fields l' (assoc_set (KStr n) v m)
                    | Err c => Err c
                    | Crash s => Crash s
                    end
  end.
Fixpoint tv_map (l : list (sdata * sdata)) (m : list (key * value)) : outcome value :=
  match l with
  | [] => Ok (VMap m)
  | (k, x) :: l' =>
      match key_ser k with
      | Ok k' => match to_value x with
                 | Ok v => tv_map l' (assoc_set k' v m)
                 | Err c => Err c
                 | Crash s => Crash s
                 end
      | Err c => Err c
      | Crash s => Crash s
      end
  end.
