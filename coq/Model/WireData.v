(** Wire forms of serde data and JSON documents. *)
From Cel.Model Require Export Wire Json.
Open Scope string_scope.

Definition named (x : sexp) : option str := opt_str x.

Fixpoint sdata_of_sexp (x : sexp) : option sdata :=
  let many := (fix go (l : list sexp) : option (list sdata) :=
                 match l with
                 | [] => Some []
                 | y :: l' => match sdata_of_sexp y, go l' with
                              | Some d, Some ds => Some (d :: ds)
                              | _, _ => None
                              end
                 end) in
  let fields := (fix go (l : list sexp) : option (list (str * sdata)) :=
                   match l with
                   | [] => Some []
                   | SList [n; y] :: l' => match named n, sdata_of_sexp y, go l' with
                                           | Some n', Some d, Some r => Some ((n', d) :: r)
                                           | _, _, _ => None
                                           end
                   | _ => None
                   end) in
  match x with
  | Atom a =>
      if a =? "sbig" then Some SBig else if a =? "snone" then Some SNone
      else if a =? "sunit" then Some SUnit else if a =? "sunitstruct" then Some SUnitStruct else None
  | SList (Atom t :: args) =>
      if t =? "sbool" then match args with [b] => option_map SBool (bool_of_sexp b) | _ => None end
      else if t =? "sint" then match args with [z] => option_map SInt (sexp_Z z) | _ => None end
      else if t =? "suint" then match args with [z] => option_map SUint (sexp_Z z) | _ => None end
      else if t =? "sfloat" then
        match args with [Atom h] => option_map (fun b => SFloat (f64_of_bits b)) (Z_of_hex h) | _ => None end
      else if t =? "schar" then match args with [c] => option_map SChar (sexp_N c) | _ => None end
      else if t =? "sstr" then option_map SStr (str_of_sexps args)
      else if t =? "sbytes" then option_map SBytes (str_of_sexps args)
      else if t =? "ssome" then match args with [d] => option_map SSome (sdata_of_sexp d) | _ => None end
      else if t =? "sunitvariant" then match args with [n] => option_map SUnitVariant (named n) | _ => None end
      else if t =? "snewtype" then match args with [d] => option_map SNewtypeStruct (sdata_of_sexp d) | _ => None end
      else if t =? "snewtypevariant" then
        match args with
        | [n; d] => match named n, sdata_of_sexp d with Some n', Some d' => Some (SNewtypeVariant n' d') | _, _ => None end
        | _ => None
        end
      else if t =? "sseq" then option_map SSeq (many args)
      else if t =? "stuple" then option_map STuple (many args)
      else if t =? "stuplestruct" then option_map STupleStruct (many args)
      else if t =? "stuplevariant" then
        match args with
        | n :: ds => match named n, many ds with Some n', Some l => Some (STupleVariant n' l) | _, _ => None end
        | _ => None
        end
      else if t =? "smap" then
        option_map SMap
          ((fix go (l : list sexp) : option (list (sdata * sdata)) :=
              match l with
              | [] => Some []
              | SList [k; y] :: l' => match sdata_of_sexp k, sdata_of_sexp y, go l' with
                                      | Some k', Some d, Some r => Some ((k', d) :: r)
                                      | _, _, _ => None
                                      end
              | _ => None
              end) args)
      else if t =? "sstruct" then option_map SStruct (fields args)
      else if t =? "sstructvariant" then
        match args with
        | n :: fs => match named n, fields fs with Some n', Some l => Some (SStructVariant n' l) | _, _ => None end
        | _ => None
        end
      else if t =? "sduration" then match args with [z] => option_map SDuration (sexp_Z z) | _ => None end
      else if t =? "stimestamp" then
        match args with
        | [a; b] => match sexp_Z a, sexp_Z b with Some x', Some y' => Some (STimestamp x' y') | _, _ => None end
        | _ => None
        end
      else None
  | _ => None
  end.

Fixpoint sexp_of_json (j : json) : sexp :=
  match j with
  | JNull => Atom "null"
  | JBool b => tagged "bool" [Atom (if b then "true" else "false")]
  | JInt z => tagged "num" [atomZ z]
  | JFloat f => tagged "fnum" [Atom (hex16 (bits_of_f64 f))]
  | JStr s => tagged "str" (sexp_of_str s)
  | JArr l => tagged "arr" (map sexp_of_json l)
  | JObj m => tagged "obj" (map (fun kv => SList [tagged "str" (sexp_of_str (fst kv)); sexp_of_json (snd kv)]) m)
  end.

Fixpoint json_of_sexp (x : sexp) : option json :=
  match x with
  | Atom a => if a =? "null" then Some JNull else None
  | SList (Atom t :: args) =>
      if t =? "bool" then match args with [b] => option_map JBool (bool_of_sexp b) | _ => None end
      else if t =? "num" then match args with [z] => option_map JInt (sexp_Z z) | _ => None end
      else if t =? "fnum" then
        match args with [Atom h] => option_map (fun b => JFloat (f64_of_bits b)) (Z_of_hex h) | _ => None end
      else if t =? "str" then option_map JStr (str_of_sexps args)
      else if t =? "arr" then
        option_map JArr ((fix go (l : list sexp) : option (list json) :=
                            match l with
                            | [] => Some []
                            | y :: l' => match json_of_sexp y, go l' with
                                         | Some j, Some js => Some (j :: js)
                                         | _, _ => None
                                         end
                            end) args)
      else if t =? "obj" then
        option_map JObj ((fix go (l : list sexp) : option (list (str * json)) :=
                            match l with
                            | [] => Some []
                            | SList [n; y] :: l' => match opt_str n, json_of_sexp y, go l' with
                                                    | Some n', Some j, Some r => Some ((n', j) :: r)
                                                    | _, _, _ => None
                                                    end
                            | _ => None
                            end) args)
      else None
  | _ => None
  end.
