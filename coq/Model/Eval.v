(** The evaluator: Value::resolve (objects.rs), Value::member, the extractor machinery of
    magic.rs / resolvers.rs.  [eval] returns the outcome together with the ordered log of
    host-function invocations.  It is a structural Fixpoint on the expression - no fuel - so
    termination of evaluation is the guard checker's verdict. *)
From Coq Require Import String.
From Cel.Model Require Export Builtins.

Inductive event := Called (f : str) (args : list value).
Definition result := (outcome value * list event)%type.

Definition ret (o : outcome value) : result := (o, []).

(** Sequencing of evaluations: run [r]; on a value continue with [k] and concatenate logs. *)
Definition rbind (r : result) (k : value -> result) : result :=
  match r with
  | (Ok v, l) => let '(o, l') := k v in (o, l ++ l')
  | (Err c, l) => (Err c, l)
  | (Crash s, l) => (Crash s, l)
  end.

(** FromValue for the parameter types (macros.rs impl_conversions). *)
Definition has_vty (t : vty) (v : value) : bool :=
  match t, v with
  | TyValue, _ => true
  | TyInt, VInt _ | TyUInt, VUInt _ | TyDbl, VDbl _ | TyStr, VStr _ | TyBytes, VBytes _
  | TyBool, VBool _ | TyList, VList _ | TyDur, VDur _ | TyTs, VTs _ _ => true
  | _, _ => false
  end.
Definition from_value (t : vty) (opt : bool) (v : value) : outcome value :=
  if has_vty t v then Ok v
  else if opt then match v with VNull => Ok VNull | _ => Err EInvalid end
  else Err EInvalid.

(** Run the extractors of a function in parameter order.  [rs] are the (pure) results of
    resolving each argument expression; an extractor that resolves argument [i] appends that
    result's log and propagates its error, exactly as the lazy resolution in the code does.
    [es] are the argument expressions themselves (for Identifier / Expression). *)
Fixpoint extract (ps : list extractor) (this : option value) (rs : list result)
         (es : list expr) (idx : nat) (acc : list value) (log : list event)
  : outcome (list value) * list event :=
  match ps with
  | [] => (Ok (rev' acc), log)
  | p :: ps' =>
      let positional (t : vty) (opt : bool) (missing : errclass) :=
        match nth_error rs idx with
        | None => (Err missing, log)
        | Some (r, l) =>
            match r with
            | Ok v => match from_value t opt v with
                      | Ok x => extract ps' this rs es (S idx) (x :: acc) (log ++ l)
                      | Err c => (Err c, log ++ l)
                      | Crash s => (Crash s, log ++ l)
                      end
            | Err c => (Err c, log ++ l)
            | Crash s => (Crash s, log ++ l)
            end
        end in
      let receiver (t : vty) (opt : bool) :=
        match this with
        | Some v => match from_value t opt v with
                    | Ok x => extract ps' this rs es idx (x :: acc) log
                    | Err c => (Err c, log)
                    | Crash s => (Crash s, log)
                    end
        | None => positional t opt EArgCount
        end in
      match p with
      | XThis t => receiver t false
      | XThisOpt t => receiver t true
      | XArg t => positional t false EArgCount
      | XArgOpt t => positional t true EArgCount
      | XArgs =>
          (fix all (rs' : list result) (vs : list value) (lg : list event) :=
             match rs' with
             | [] => extract ps' this rs es idx (VList (rev' vs) :: acc) lg
             | (r, l) :: rs'' =>
                 match r with
                 | Ok v => all rs'' (v :: vs) (lg ++ l)
                 | Err c => (Err c, lg ++ l)
                 | Crash s => (Crash s, lg ++ l)
                 end
             end) rs [] log
      | XIdent =>
          match nth_error es idx with
          | None => (Err EArgCount, log)
          | Some (EIdent x) => extract ps' this rs es (S idx) (VStr x :: acc) log
          | Some _ => (Err EInvalid, log)
          end
      | XExpr =>
          match nth_error es idx with
          | None => (Err EArgCount, log)
          | Some _ => extract ps' this rs es (S idx) (VNull :: acc) log
          end
      end
  end.

Definition run_host (h : hbody) (xs : list value) : outcome value :=
  match h with
  | HConst v => Ok v
  | HArg i => Ok (nth i xs VNull)
  | HFail => Err EInvalid
  | HSum => match xs with
            | [] => Ok VNull
            | x :: xs' => fold_left (fun acc y => let! a := acc in v_add a y) xs' (Ok x)
            end
  end.

(** Invoke a function value on a receiver and resolved-argument results. *)
Definition call_fn (name : str) (d : fdef) (this : option value) (rs : list result)
           (es : list expr) (log0 : list event) : result :=
  match extract (params d) this rs es 0 [] log0 with
  | (Ok xs, log) =>
      match body d with
      | FBuiltin b => (run_builtin b xs, log)
      | FHost h => (run_host h xs, log ++ [Called name xs])
      end
  | (Err c, log) => (Err c, log)
  | (Crash s, log) => (Crash s, log)
  end.

(** The element a string index denotes: the one-byte character starting at byte [idx]. *)
Fixpoint str_byte_at (s : str) (idx : Z) : value :=
  match s with
  | [] => VNull
  | c :: s' =>
      if idx <? 0 then VNull
      else if idx =? 0 then (if (c <? 128)%N then VStr [c] else VNull)
      else str_byte_at s' (idx - Z.of_N (utf8_len1 c))
  end.

Definition v_index (target idx : value) : outcome value :=
  match target, idx with
  | VList items, VInt i =>
      if (i <? 0) || (Z.of_nat (length items) <=? i) then Ok VNull
      else Ok (nth (Z.to_nat i) items VNull)
  | VStr s, VInt i => Ok (str_byte_at s i)
  | VMap m, (VStr _ | VBool _ | VInt _ | VUInt _) =>
      match key_of_value idx with
      | Some k => Ok (match map_get k m with Some v => v | None => VNull end)
      | None => Err EInvalid
      end
  | _, _ => Err EInvalid
  end.

Definition v_in (left right : value) : outcome value :=
  match left, right with
  | VStr l, VStr r => Ok (VBool (contains_sub N.eqb l r))
  | any, VList v => Ok (VBool (existsb (fun e => v_eq e any) v))
  | any, VMap m => match key_of_value any with
                   | Some k => Ok (VBool (match map_get k m with Some _ => true | None => false end))
                   | None => Ok (VBool false)
                   end
  | _, _ => Err EInvalid
  end.

(** The strict binary operators (both operands already resolved). *)
Definition strict_binop (o : binop) (l r : value) : outcome value :=
  match o with
  | BAdd => v_add l r | BSub => v_sub l r | BDiv => v_div l r | BMul => v_mul l r
  | BRem => v_rem l r
  | BEq => Ok (VBool (v_eq l r)) | BNe => Ok (VBool (v_ne l r))
  | BLt => v_lt l r | BLe => v_le l r | BGt => v_gt l r | BGe => v_ge l r
  | BIn => v_in l r
  | BIndex => v_index l r
  | BOr | BAnd => Crash 91   (* not strict; handled in eval *)
  end.

Definition v_unop (o : unop) (v : value) : outcome value :=
  match o with
  | UNot => Ok (VBool (negb (to_bool v)))
  | UNeg => v_neg v
  | UNsf => match v with VBool b => Ok (VBool b) | _ => Ok (VBool true) end
  end.

(** Value::member *)
Definition member (c : ctx) (v : value) (name : str) : outcome value :=
  let child := match v with VMap m => assoc_get (KStr name) m | _ => None end in
  match child with
  | Some x => Ok x
  | None => if has_function c name then Ok (VFun name (Some v)) else Err ENoKey
  end.

Definition has_field (v : value) (field : str) : bool :=
  match v with
  | VMap m => existsb (fun kv => str_eqb (key_text (fst kv)) field) m
  | _ => false
  end.

Definition range_items (v : value) : option (list value) :=
  match v with
  | VList l => Some l
  | VMap m => Some (map (fun kv => value_of_key (fst kv)) m)
  | _ => None
  end.

Fixpoint eval (c : ctx) (e : expr) {struct e} : result :=
  match e with
  | EUnspec => ret (Crash 1)
  | ELit v => ret (Ok v)
  | EIdent x => ret (lookup c x)
  | ECall f target args =>
      let rs := (fix go (l : list expr) : list result :=
                   match l with [] => [] | a :: l' => eval c a :: go l' end) args in
      let general :=
        match get_function c f with
        | None => ret (Err (EUndeclared f))
        | Some d =>
            match target with
            | None => call_fn f d None rs args []
            | Some t =>
                match eval c t with
                | (Ok tv, lt) => call_fn f d (Some tv) rs args lt
                | (Err x, lt) => (Err x, lt)
                | (Crash s, lt) => (Crash s, lt)
                end
            end
        end in
      match rs with
      | [rc; rx; ry] =>
          if str_eqb f op_conditional
          then rbind rc (fun vc => if to_bool vc then rx else ry)
          else general
      | [rl; rr] =>
          match binop_of_name f with
          | Some BOr => rbind rl (fun l => if to_bool l then ret (Ok l) else rr)
          | Some BAnd => rbind rl (fun l => if to_bool l
                                            then rbind rr (fun r => ret (Ok (VBool (to_bool r))))
                                            else ret (Ok (VBool false)))
          | Some o => rbind rl (fun l => rbind rr (fun r => ret (strict_binop o l r)))
          | None => general
          end
      | [ra] =>
          match unop_of_name f with
          | Some o => rbind ra (fun v => ret (v_unop o v))
          | None => general
          end
      | _ => general
      end
  | ESelect operand field test =>
      rbind (eval c operand) (fun v =>
        if test then ret (Ok (VBool (has_field v field))) else ret (member c v field))
  | EList es =>
      (fix go (l : list expr) (acc : list value) (log : list event) : result :=
         match l with
         | [] => (Ok (VList (rev' acc)), log)
         | a :: l' =>
             match eval c a with
             | (Ok v, la) => go l' (v :: acc) (log ++ la)
             | (Err x, la) => (Err x, log ++ la)
             | (Crash s, la) => (Crash s, log ++ la)
             end
         end) es [] []
  | EMap entries =>
      (fix go (l : list (expr * expr)) (m : list (key * value)) (log : list event) : result :=
         match l with
         | [] => (Ok (VMap m), log)
         | (ke, ve) :: l' =>
             match eval c ke with
             | (Ok kv, lk) =>
                 match key_of_value kv with
                 | None => (Err EInvalid, log ++ lk)
                 | Some k =>
                     match eval c ve with
                     | (Ok v, lv) => go l' (assoc_set k v m) (log ++ lk ++ lv)
                     | (Err x, lv) => (Err x, log ++ lk ++ lv)
                     | (Crash s, lv) => (Crash s, log ++ lk ++ lv)
                     end
                 end
             | (Err x, lk) => (Err x, log ++ lk)
             | (Crash s, lk) => (Crash s, log ++ lk)
             end
         end) entries [] []
  | EStruct _ _ => ret (Err EInvalid)
  | EComp range iv av init cond step res =>
      rbind (eval c init) (fun vinit =>
      rbind (eval c range) (fun vr =>
        match range_items vr with
        | None => ret (Err EInvalid)
        | Some items =>
            (fix loop (its : list value) (c' : ctx) (log : list event) : result :=
               match its with
               | [] => let '(o, l) := eval c' res in (o, log ++ l)
               | it :: rest =>
                   match eval c' cond with
                   | (Ok vc, lc) =>
                       if to_bool vc then
                         let c'' := define c' iv it in
                         match eval c'' step with
                         | (Ok va, ls) => loop rest (define c'' av va) (log ++ lc ++ ls)
                         | (Err x, ls) => (Err x, log ++ lc ++ ls)
                         | (Crash s, ls) => (Crash s, log ++ lc ++ ls)
                         end
                       else let '(o, l) := eval c' res in (o, log ++ lc ++ l)
                   | (Err x, lc) => (Err x, log ++ lc)
                   | (Crash s, lc) => (Crash s, log ++ lc)
                   end
               end) items (define (push c) av vinit) []
        end))
  end.
