(** C03: the reference semantics of the core language.

    [texpr] is the surface syntax of the core fragment; [sem] is a direct structural evaluator
    written from CEL's rules as this implementation documents them: operands left to right,
    the first error aborts, [&&] / [||] / [?:] short-circuit on booleans, the comprehension
    macros are folds over the range with early exit, a function call evaluates its receiver
    and arguments in order and applies the function, an absent index is null.  It shares with
    the operational model ([Eval.eval]) only the value type and the leaf operations on values
    (checked 64-bit arithmetic, IEEE-754 doubles, equality / ordering, indexing, the standard
    functions' bodies) that C08 / C09 / C13 / C14 characterise; it has no operator-name
    dispatch, no function registry, no extractors, no comprehension accumulator, no scopes, no
    host-call log and no [Crash].  [lower] maps the surface syntax to the AST the parser
    produces for it; [type_of] is the typing discipline under which the refinement is proved. *)
From Coq Require Import String.
From Cel.Model Require Export Eval Macros Refs.

Inductive ty :=
| TyI | TyU | TyD | TyB | TyS | TyY | TyN | TyL (t : ty) | TyM (k v : ty)
| TyAny.      (* "dyn": the result of an index / field selection (may be null), max / min *)

Inductive sfn :=
| SSize | SContains | SStartsWith | SEndsWith | SString | SBytes | SDouble | SInt | SUint | SMax | SMin.

Inductive texpr :=
| TLit (v : value)
| TVar (x : str)
| TUn (o : unop) (a : texpr)
| TBin (o : binop) (a b : texpr)
| TAnd (a b : texpr)
| TOr (a b : texpr)
| TCond (c a b : texpr)
| TList (es : list texpr)
| TMap (es : list (texpr * texpr))
| TSelect (a : texpr) (f : str)
| THas (a : texpr) (f : str)
| TCall (f : sfn) (recv : bool) (args : list texpr)
| TAll (x : str) (r body : texpr)
| TExists (x : str) (r body : texpr)
| TExistsOne (x : str) (r body : texpr)
| TMapM (x : str) (r : texpr) (flt : option texpr) (body : texpr)
| TFilter (x : str) (r body : texpr).

(** ** Semantics *)
Definition env := list (str * value).         (* innermost binding first *)
Definition elookup (ρ : env) (x : str) : outcome value :=
  match str_assoc x ρ with Some v => Ok v | None => Err (EUndeclared x) end.

Definition as_bool (v : value) : outcome bool :=
  match v with VBool b => Ok b | _ => Err EInvalid end.

Definition apply_fn (f : sfn) (vs : list value) : outcome value :=
  match f, vs with
  | SSize, [v] => b_size v
  | SContains, [v; a] => b_contains v a
  | SStartsWith, [VStr t; VStr p] => Ok (VBool (is_prefix N.eqb p t))
  | SEndsWith, [VStr t; VStr p] => Ok (VBool (is_suffix N.eqb p t))
  | SString, [v] => b_string v
  | SBytes, [VStr s] => Ok (VBytes (utf8_enc s))
  | SDouble, [v] => b_double v
  | SInt, [v] => b_int v
  | SUint, [v] => b_uint v
  | SMax, _ => v_max vs
  | SMin, _ => v_min vs
  | _, _ => Err EInvalid
  end.

(** The folds behind the macros (each stops at the deciding element or the first error). *)
Fixpoint sem_all (body : value -> outcome value) (items : list value) : outcome value :=
  match items with
  | [] => Ok (VBool true)
  | it :: rest => let! v := body it in let! b := as_bool v in
                  if b then sem_all body rest else Ok (VBool false)
  end.
Fixpoint sem_exists (body : value -> outcome value) (items : list value) : outcome value :=
  match items with
  | [] => Ok (VBool false)
  | it :: rest => let! v := body it in let! b := as_bool v in
                  if b then Ok (VBool true) else sem_exists body rest
  end.
(** exists_one counts with a (checked) int, like every int of the language *)
Fixpoint sem_count (body : value -> outcome value) (items : list value) (n : Z) : outcome Z :=
  match items with
  | [] => Ok n
  | it :: rest => let! v := body it in let! b := as_bool v in
                  if b then (if in_i64 (n + 1) then sem_count body rest (n + 1)%Z else Err EOverflow)
                  else sem_count body rest n
  end.
Fixpoint sem_map (flt : option (value -> outcome value)) (body : value -> outcome value)
         (items : list value) : outcome (list value) :=
  match items with
  | [] => Ok []
  | it :: rest =>
      let! keep := match flt with
                   | None => Ok true
                   | Some p => let! v := p it in as_bool v
                   end in
      if keep then let! y := body it in let! ys := sem_map flt body rest in Ok (y :: ys)
      else sem_map flt body rest
  end.

Fixpoint sem (ρ : env) (t : texpr) : outcome value :=
  match t with
  | TLit v => Ok v
  | TVar x => elookup ρ x
  | TUn o a => let! v := sem ρ a in v_unop o v
  | TBin o a b => let! x := sem ρ a in let! y := sem ρ b in strict_binop o x y
  | TAnd a b =>
      let! x := sem ρ a in let! p := as_bool x in
      if p then (let! y := sem ρ b in let! q := as_bool y in Ok (VBool q)) else Ok (VBool false)
  | TOr a b =>
      let! x := sem ρ a in let! p := as_bool x in
      if p then Ok (VBool true) else (let! y := sem ρ b in let! q := as_bool y in Ok (VBool q))
  | TCond c a b =>
      let! x := sem ρ c in let! p := as_bool x in if p then sem ρ a else sem ρ b
  | TList es =>
      let! vs := (fix go (l : list texpr) : outcome (list value) :=
                    match l with
                    | [] => Ok []
                    | e :: l' => let! v := sem ρ e in let! vs := go l' in Ok (v :: vs)
                    end) es in
      Ok (VList vs)
  | TMap es =>
      (fix go (l : list (texpr * texpr)) (m : list (key * value)) : outcome value :=
         match l with
         | [] => Ok (VMap m)
         | (ke, ve) :: l' =>
             let! kv := sem ρ ke in
             match key_of_value kv with
             | None => Err EInvalid
             | Some k => let! v := sem ρ ve in go l' (assoc_set k v m)
             end
         end) es []
  | TSelect a f =>
      let! v := sem ρ a in
      match v with
      | VMap m => match assoc_get (KStr f) m with Some x => Ok x | None => Err ENoKey end
      | _ => Err ENoKey
      end
  | THas a f => let! v := sem ρ a in Ok (VBool (has_field v f))
  | TCall f _ args =>
      let! vs := (fix go (l : list texpr) : outcome (list value) :=
                    match l with
                    | [] => Ok []
                    | e :: l' => let! v := sem ρ e in let! vs := go l' in Ok (v :: vs)
                    end) args in
      apply_fn f vs
  | TAll x r body =>
      let! rv := sem ρ r in
      match range_items rv with
      | None => Err EInvalid
      | Some items => sem_all (fun it => sem ((x, it) :: ρ) body) items
      end
  | TExists x r body =>
      let! rv := sem ρ r in
      match range_items rv with
      | None => Err EInvalid
      | Some items => sem_exists (fun it => sem ((x, it) :: ρ) body) items
      end
  | TExistsOne x r body =>
      let! rv := sem ρ r in
      match range_items rv with
      | None => Err EInvalid
      | Some items => let! n := sem_count (fun it => sem ((x, it) :: ρ) body) items 0 in
                      Ok (VBool (n =? 1)%Z)
      end
  | TMapM x r flt body =>
      let! rv := sem ρ r in
      match range_items rv with
      | None => Err EInvalid
      | Some items =>
          let! ys := sem_map (match flt with
                              | Some p => Some (fun it => sem ((x, it) :: ρ) p)
                              | None => None
                              end)
                             (fun it => sem ((x, it) :: ρ) body) items in
          Ok (VList ys)
      end
  | TFilter x r body =>
      let! rv := sem ρ r in
      match range_items rv with
      | None => Err EInvalid
      | Some items =>
          let! ys := sem_map (Some (fun it => sem ((x, it) :: ρ) body)) (fun it => Ok it) items in
          Ok (VList ys)
      end
  end.

(** ** The AST the parser produces for a surface term *)
Definition fn_name (f : sfn) : str :=
  match f with
  | SSize => $"size" | SContains => $"contains" | SStartsWith => $"startsWith"
  | SEndsWith => $"endsWith" | SString => $"string" | SBytes => $"bytes" | SDouble => $"double"
  | SInt => $"int" | SUint => $"uint" | SMax => $"max" | SMin => $"min"
  end.
Definition binop_name (o : binop) : str :=
  match o with
  | BAdd => $"_+_" | BSub => $"_-_" | BDiv => $"_/_" | BMul => $"_*_" | BRem => $"_%_"
  | BEq => $"_==_" | BNe => $"_!=_" | BLt => $"_<_" | BLe => $"_<=_" | BGt => $"_>_"
  | BGe => $"_>=_" | BIn => $"@in" | BOr => $"_||_" | BAnd => $"_&&_" | BIndex => $"_[_]"
  end.
Definition unop_name (o : unop) : str :=
  match o with UNot => $"!_" | UNeg => $"-_" | UNsf => $"@not_strictly_false" end.

Fixpoint lower (t : texpr) : expr :=
  let many := (fix go (l : list texpr) : list expr :=
                 match l with [] => [] | e :: l' => lower e :: go l' end) in
  match t with
  | TLit v => ELit v
  | TVar x => EIdent x
  | TUn o a => call (unop_name o) [lower a]
  | TBin o a b => call (binop_name o) [lower a; lower b]
  | TAnd a b => call $"_&&_" [lower a; lower b]
  | TOr a b => call $"_||_" [lower a; lower b]
  | TCond c a b => call op_conditional [lower c; lower a; lower b]
  | TList es => EList (many es)
  | TMap es => EMap ((fix go (l : list (texpr * texpr)) : list (expr * expr) :=
                        match l with [] => [] | (k, v) :: l' => (lower k, lower v) :: go l' end) es)
  | TSelect a f => ESelect (lower a) f false
  | THas a f => ESelect (lower a) f true
  | TCall f recv args =>
      if recv then match args with
                   | a0 :: rest => ECall (fn_name f) (Some (lower a0)) (many rest)
                   | [] => ECall (fn_name f) None []
                   end
      else ECall (fn_name f) None (many args)
  | TAll x r body => expand_all (lower r) x (lower body)
  | TExists x r body => expand_exists (lower r) x (lower body)
  | TExistsOne x r body => expand_exists_one (lower r) x (lower body)
  | TMapM x r flt body =>
      expand_map (lower r) x (match flt with Some p => Some (lower p) | None => None end) (lower body)
  | TFilter x r body => expand_filter (lower r) x (lower body)
  end.

(** ** Typing *)
Definition tenv := list (str * ty).

Fixpoint ty_eqb (a b : ty) : bool :=
  match a, b with
  | TyI, TyI | TyU, TyU | TyD, TyD | TyB, TyB | TyS, TyS | TyY, TyY | TyN, TyN | TyAny, TyAny => true
  | TyL x, TyL y => ty_eqb x y
  | TyM k v, TyM k' v' => ty_eqb k k' && ty_eqb v v'
  | _, _ => false
  end.
Definition join (a b : ty) : ty := if ty_eqb a b then a else TyAny.

Definition lit_ty (v : value) : option ty :=
  match v with
  | VInt _ => Some TyI | VUInt _ => Some TyU | VDbl _ => Some TyD | VBool _ => Some TyB
  | VStr _ => Some TyS | VBytes _ => Some TyY | VNull => Some TyN
  | _ => None
  end.

Definition arith_ty (o : binop) (a b : ty) : option ty :=
  match a, b with
  | TyAny, (TyAny | TyI | TyU | TyD | TyS | TyL _) | (TyI | TyU | TyD | TyS | TyL _), TyAny => Some TyAny
  | TyI, TyI => Some TyI
  | TyU, TyU => Some TyU
  | TyD, TyD => match o with BRem => None | _ => Some TyD end
  | TyS, TyS => match o with BAdd => Some TyS | _ => None end
  | TyL x, TyL y => match o with BAdd => Some (TyL (join x y)) | _ => None end
  | _, _ => None
  end.

Definition elem_ty (r : ty) : option ty :=
  match r with
  | TyL t => Some t
  | TyM k _ => Some k
  | TyAny => Some TyAny
  | _ => None
  end.

(** receiver-style is available for functions whose first parameter is the receiver *)
Definition recv_ok (f : sfn) : bool :=
  match f with SBytes | SMax | SMin => false | _ => true end.

Definition fn_ty (f : sfn) (args : list ty) : option ty :=
  match f, args with
  | SSize, [_] => Some TyI
  | SContains, [_; _] => Some TyB
  | SStartsWith, [TyS; TyS] | SEndsWith, [TyS; TyS] => Some TyB
  | SString, [_] => Some TyS
  | SBytes, [TyS] => Some TyY
  | SDouble, [_] => Some TyD
  | SInt, [_] => Some TyI
  | SUint, [_] => Some TyU
  | SMax, _ | SMin, _ => Some TyAny
  | _, _ => None
  end.

Definition var_ok (x : str) : bool := negb (starts_at x).

Definition tlookup (G : tenv) (x : str) : option ty := str_assoc x G.

Fixpoint type_of (G : tenv) (t : texpr) : option ty :=
  let many := (fix go (l : list texpr) : option (list ty) :=
                 match l with
                 | [] => Some []
                 | e :: l' => match type_of G e, go l' with
                              | Some a, Some r => Some (a :: r)
                              | _, _ => None
                              end
                 end) in
  match t with
  | TLit v => lit_ty v
  | TVar x => if var_ok x then tlookup G x else None
  | TUn UNot a => match type_of G a with Some TyB => Some TyB | _ => None end
  | TUn UNeg a => match type_of G a with
                  | Some TyI => Some TyI | Some TyD => Some TyD | Some TyAny => Some TyAny
                  | _ => None
                  end
  | TUn UNsf _ => None
  | TBin o a b =>
      match type_of G a, type_of G b with
      | Some ta, Some tb =>
          match o with
          | BAdd | BSub | BMul | BDiv | BRem => arith_ty o ta tb
          | BEq | BNe | BLt | BLe | BGt | BGe | BIn => Some TyB
          | BIndex => Some TyAny
          | BOr | BAnd => None
          end
      | _, _ => None
      end
  | TAnd a b | TOr a b =>
      match type_of G a, type_of G b with Some TyB, Some TyB => Some TyB | _, _ => None end
  | TCond c a b =>
      match type_of G c, type_of G a, type_of G b with
      | Some TyB, Some ta, Some tb => Some (join ta tb)
      | _, _, _ => None
      end
  | TList es =>
      match many es with
      | Some [] => Some (TyL TyAny)
      | Some (a :: r) => Some (TyL (fold_left join r a))
      | None => None
      end
  | TMap es =>
      (* a map literal: every key and value expression is typed; the literal itself is a map
         of unconstrained keys (its keys are only ever used through [TyAny]) *)
      (fix go (l : list (texpr * texpr)) : option ty :=
         match l with
         | [] => Some (TyM TyAny TyAny)
         | (ke, ve) :: l' =>
             match type_of G ke, type_of G ve with
             | Some _, Some _ => go l'
             | _, _ => None
             end
         end) es
  | TSelect a f =>
      match type_of G a with
      | Some (TyM _ _) | Some TyAny => if has_function default_ctx f then None else Some TyAny
      | _ => None
      end
  | THas a f =>
      match type_of G a with Some (TyM _ _) | Some TyAny => Some TyB | _ => None end
  | TCall f recv args =>
      match many args with
      | Some ts => if recv then (if recv_ok f then match ts with [] => None | _ => fn_ty f ts end else None)
                   else fn_ty f ts
      | None => None
      end
  | TAll x r body | TExists x r body | TExistsOne x r body =>
      match type_of G r with
      | Some tr => match elem_ty tr with
                   | Some te => if var_ok x then
                                  match type_of ((x, te) :: G) body with Some TyB => Some TyB | _ => None end
                                else None
                   | None => None
                   end
      | None => None
      end
  | TFilter x r body =>
      match type_of G r with
      | Some tr => match elem_ty tr with
                   | Some te => if var_ok x then
                                  match type_of ((x, te) :: G) body with Some TyB => Some (TyL te) | _ => None end
                                else None
                   | None => None
                   end
      | None => None
      end
  | TMapM x r flt body =>
      match type_of G r with
      | Some tr =>
          match elem_ty tr with
          | Some te =>
              if var_ok x then
                match (match flt with
                       | Some p => match type_of ((x, te) :: G) p with Some TyB => true | _ => false end
                       | None => true
                       end), type_of ((x, te) :: G) body with
                | true, Some tb => Some (TyL tb)
                | _, _ => None
                end
              else None
          | None => None
          end
      | None => None
      end
  end.

(** What a type says about a value: only booleans, strings, lists and map keys are
    constrained (these are what the evaluation rules depend on); an index may yield null, so
    its type is [TyAny]. *)
Fixpoint vtyped (v : value) (t : ty) {struct t} : Prop :=
  match t with
  | TyB => exists b, v = VBool b
  | TyS => exists s, v = VStr s
  | TyL te => exists l, v = VList l /\ Forall (fun x => vtyped x te) l
  | TyM tk _ => exists m, v = VMap m /\ Forall (fun kv => vtyped (value_of_key (fst kv)) tk) m
  | _ => True
  end.

(** boolean version, for checking a harness-supplied environment *)
Fixpoint vtypedb (v : value) (t : ty) {struct t} : bool :=
  match t with
  | TyB => match v with VBool _ => true | _ => false end
  | TyS => match v with VStr _ => true | _ => false end
  | TyL te => match v with VList l => forallb (fun x => vtypedb x te) l | _ => false end
  | TyM tk _ => match v with
                | VMap m => forallb (fun kv => vtypedb (value_of_key (fst kv)) tk) m
                | _ => false
                end
  | _ => true
  end.

Definition env_ok (G : tenv) (r : env) : Prop :=
  forall x t, tlookup G x = Some t -> forall v, elookup r x = Ok v -> vtyped v t.
Definition env_okb (G : tenv) (r : env) : bool :=
  forallb (fun xt => match elookup r (fst xt), tlookup G (fst xt) with
                     | Ok v, Some t => vtypedb v t
                     | _, _ => true
                     end) G.

(** The variable bindings of a context as an environment (innermost scope first). *)
Definition env_of (c : ctx) : env := concat (scopes c).
