(** C05 (b): the sharing discipline behind list / string concatenation.

    Lists and strings are reference-counted buffers (std::sync::Arc); [Value::add]
    (objects.rs) appends IN PLACE when it holds the only handle to the left buffer
    (Arc::make_mut) and MOVES the right buffer's items when it holds the only handle to that
    one (Arc::get_mut), and copies otherwise.  This file models exactly that: a store of cells
    (owner count, payload), handles, the clone / drop / make_mut / get_mut steps, and an
    evaluator for the fragment the property's quantifier favours - context variables, list and
    string literals, [+] - that performs those steps in the order the code does.  Buffers hold
    integers or characters (no nested handles). *)
From Coq Require Import String.
From Cel.Model Require Export Base.

Inductive payload := PList (items : list Z) | PStr (s : str).
Record cell := { rc : nat; pl : payload }.
Definition store := list cell.

Inductive hval := HInt (z : Z) | HRef (l : nat).      (* a handle owns one count of its cell *)

Definition rc_of (σ : store) (l : nat) : nat := match nth_error σ l with Some c => rc c | None => 0 end.
Definition pl_of (σ : store) (l : nat) : payload :=
  match nth_error σ l with Some c => pl c | None => PList [] end.

Fixpoint upd (σ : store) (l : nat) (f : cell -> cell) : store :=
  match σ, l with
  | [], _ => []
  | c :: σ', O => f c :: σ'
  | c :: σ', S l' => c :: upd σ' l' f
  end.

Definition inc (σ : store) (l : nat) : store := upd σ l (fun c => {| rc := S (rc c); pl := pl c |}).
Definition dec (σ : store) (l : nat) : store := upd σ l (fun c => {| rc := pred (rc c); pl := pl c |}).
Definition set_pl (σ : store) (l : nat) (p : payload) : store := upd σ l (fun c => {| rc := rc c; pl := p |}).
Definition alloc (σ : store) (p : payload) : store * nat := (σ ++ [{| rc := 1; pl := p |}], length σ).

Definition clone_h (σ : store) (h : hval) : store := match h with HRef l => inc σ l | HInt _ => σ end.
Definition drop_h (σ : store) (h : hval) : store := match h with HRef l => dec σ l | HInt _ => σ end.

(** Arc::make_mut: the same cell when this handle is the only owner, a private copy otherwise
    (the handle moves to the copy: the old cell loses one owner). *)
Definition make_mut (σ : store) (l : nat) : store * nat :=
  if Nat.eqb (rc_of σ l) 1 then (σ, l)
  else let '(σ1, l') := alloc σ (pl_of σ l) in (dec σ1 l, l').

(** list + list as coded: make_mut on the left; the right buffer's items are moved out when
    its handle is the only owner (leaving it empty) and cloned otherwise; then the right handle
    is dropped. *)
Definition add_list (σ : store) (l r : nat) : store * nat :=
  let '(σ1, l') := make_mut σ l in
  let xs := match pl_of σ1 l' with PList a => a | PStr _ => [] end in
  let ys := match pl_of σ1 r with PList b => b | PStr _ => [] end in
  let σ2 := if Nat.eqb (rc_of σ1 r) 1 then set_pl σ1 r (PList []) else σ1 in
  (dec (set_pl σ2 l' (PList (xs ++ ys))) r, l').

(** string + string: make_mut on the left, the right is only read, then dropped *)
Definition add_str (σ : store) (l r : nat) : store * nat :=
  let '(σ1, l') := make_mut σ l in
  let xs := match pl_of σ1 l' with PStr a => a | PList _ => [] end in
  let ys := match pl_of σ1 r with PStr b => b | PList _ => [] end in
  (dec (set_pl σ1 l' (PStr (xs ++ ys))) r, l').

Definition add_h (σ : store) (a b : hval) : store * outcome hval :=
  match a, b with
  | HInt x, HInt y => (σ, Ok (HInt (x + y)))
  | HRef l, HRef r =>
      match pl_of σ l, pl_of σ r with
      | PList _, PList _ => let '(σ', l') := add_list σ l r in (σ', Ok (HRef l'))
      | PStr _, PStr _ => let '(σ', l') := add_str σ l r in (σ', Ok (HRef l'))
      | _, _ => (dec (dec σ l) r, Err EInvalid)
      end
  | _, _ => (drop_h (drop_h σ a) b, Err EInvalid)
  end.

Inductive hexpr :=
| XInt (z : Z)
| XVar (i : nat)                 (* the i-th context variable *)
| XListLit (items : list Z)
| XStrLit (s : str)
| XAdd (a b : hexpr).

(** [ρ]: the context's variables, each holding a handle (one owner count is the context's). *)
Fixpoint eval_h (ρ : list hval) (σ : store) (e : hexpr) : store * outcome hval :=
  match e with
  | XInt z => (σ, Ok (HInt z))
  | XVar i => match nth_error ρ i with
              | Some v => (clone_h σ v, Ok v)             (* get_variable clones the value *)
              | None => (σ, Err (EUndeclared []))
              end
  | XListLit items => let '(σ', l) := alloc σ (PList items) in (σ', Ok (HRef l))
  | XStrLit s => let '(σ', l) := alloc σ (PStr s) in (σ', Ok (HRef l))
  | XAdd a b =>
      match eval_h ρ σ a with
      | (σ1, Ok ha) =>
          match eval_h ρ σ1 b with
          | (σ2, Ok hb) => add_h σ2 ha hb
          | (σ2, Err c) => (drop_h σ2 ha, Err c)
          | (σ2, Crash s) => (drop_h σ2 ha, Crash s)
          end
      | (σ1, Err c) => (σ1, Err c)
      | (σ1, Crash s) => (σ1, Crash s)
      end
  end.

(** ** The sharing-free reading *)
Inductive pval := VI (z : Z) | VL (items : list Z) | VS (s : str).

Definition denote (σ : store) (h : hval) : pval :=
  match h with
  | HInt z => VI z
  | HRef l => match pl_of σ l with PList xs => VL xs | PStr s => VS s end
  end.

Definition padd (a b : pval) : outcome pval :=
  match a, b with
  | VI x, VI y => Ok (VI (x + y))
  | VL x, VL y => Ok (VL (x ++ y))
  | VS x, VS y => Ok (VS (x ++ y))
  | _, _ => Err EInvalid
  end.

Fixpoint peval (ρ : list pval) (e : hexpr) : outcome pval :=
  match e with
  | XInt z => Ok (VI z)
  | XVar i => match nth_error ρ i with Some v => Ok v | None => Err (EUndeclared []) end
  | XListLit items => Ok (VL items)
  | XStrLit s => Ok (VS s)
  | XAdd a b => let! x := peval ρ a in let! y := peval ρ b in padd x y
  end.

(** A history: executions one after the other against one context, each result dropped
    before the next starts.  Returns the results read without sharing. *)
Fixpoint run_history (ρ : list hval) (σ : store) (es : list hexpr) : store * list (outcome pval) :=
  match es with
  | [] => (σ, [])
  | e :: es' =>
      let '(σ1, r) := eval_h ρ σ e in
      let out := match r with Ok h => Ok (denote σ1 h) | Err c => Err c | Crash s => Crash s end in
      let σ2 := match r with Ok h => drop_h σ1 h | _ => σ1 end in
      let '(σ3, outs) := run_history ρ σ2 es' in
      (σ3, out :: outs)
  end.

(** executions one after the other, every result handle kept alive (as concurrent holders of
    results would): returns the handles *)
Fixpoint run_keep (ρ : list hval) (σ : store) (es : list hexpr) : store * list (outcome hval) :=
  match es with
  | [] => (σ, [])
  | e :: es' =>
      let '(σ1, r) := eval_h ρ σ e in
      let '(σ2, rs) := run_keep ρ σ1 es' in
      (σ2, r :: rs)
  end.

(** ** Any interleaving: the Arc discipline under arbitrary schedules.
    A configuration is the store together with the multiset of all handles in existence (the
    context's and every thread's).  Threads act by cloning a handle they hold, dropping one,
    allocating, or appending through one (Arc::make_mut then write).  [pinned] are the handles
    the context holds for the whole run: they are never the acting handle.  The steps of all
    threads arrive in ANY order (the list [ops]); the theorem quantifies over all of them. *)
Record cfg := { st : store; hs : list nat }.

Inductive op :=
| OClone (l : nat)                 (* a holder of a handle to l clones it *)
| ODrop (l : nat)                  (* a holder drops its handle to l *)
| OAlloc (p : payload)             (* a fresh buffer *)
| OAppend (l : nat) (p : payload). (* make_mut through a handle to l, then overwrite with p *)

Definition cnt (l : nat) (h : list nat) : nat := count_occ Nat.eq_dec h l.

Fixpoint remove1 (l : nat) (h : list nat) : list nat :=
  match h with
  | [] => []
  | x :: h' => if Nat.eqb x l then h' else x :: remove1 l h'
  end.

(** a thread's own (non-pinned) handle to l exists *)
Definition free_handle (pinned : list nat) (c : cfg) (l : nat) : bool := Nat.ltb (cnt l pinned) (cnt l (hs c)).

Definition step (pinned : list nat) (c : cfg) (o : op) : option cfg :=
  match o with
  | OClone l => if Nat.ltb 0 (cnt l (hs c)) then Some {| st := inc (st c) l; hs := l :: hs c |} else None
  | ODrop l => if free_handle pinned c l then Some {| st := dec (st c) l; hs := remove1 l (hs c) |} else None
  | OAlloc p => let '(s', l') := alloc (st c) p in Some {| st := s'; hs := l' :: hs c |}
  | OAppend l p =>
      if free_handle pinned c l then
        let '(s1, l') := make_mut (st c) l in
        Some {| st := set_pl s1 l' p; hs := if Nat.eqb l' l then hs c else l' :: remove1 l (hs c) |}
      else None
  end.

Fixpoint steps (pinned : list nat) (c : cfg) (ops : list op) : option cfg :=
  match ops with
  | [] => Some c
  | o :: r => match step pinned c o with Some c' => steps pinned c' r | None => None end
  end.

