(** SourceInfo::pos_for (antlr/src/ast/mod.rs): the (line, column) reported for a byte offset,
    over the source as a list of UTF-8 bytes. *)
From Cel.Model Require Export Base.

(** str::split_inclusive('\n'): pieces end with the newline they were split at. *)
Fixpoint split_inclusive (s : list N) (cur : list N) : list (list N) :=
  match s with
  | [] => match cur with [] => [] | _ => [rev' cur] end
  | c :: r => if (c =? 10)%N then rev' (c :: cur) :: split_inclusive r []
              else split_inclusive r (c :: cur)
  end.

Fixpoint pos_in (pieces : list (list N)) (start offset line : nat) : option (nat * nat) :=
  match pieces with
  | [] => None
  | l :: rest =>
      let line' := S line in
      let offset' := (offset + length l)%nat in
      if Nat.ltb start offset' then Some (line', (start + length l - offset' + 1)%nat)
      else pos_in rest start offset' line'
  end.

Definition pos_for (src : list N) (start : nat) : option (nat * nat) :=
  pos_in (split_inclusive src []) start 0 0.
