(** SourceInfo::pos_for (antlr/src/ast/mod.rs): the (line, column) reported for a byte offset,
    over the source as a list of UTF-8 bytes.  The column counts characters (as the columns of
    syntax errors do): one more than the number of characters of the line that start before the
    offset. *)
From Cel.Model Require Export Base.

(** str::split_inclusive('\n'): pieces end with the newline they were split at. *)
Fixpoint split_inclusive (s : list N) (cur : list N) : list (list N) :=
  match s with
  | [] => match cur with [] => [] | _ => [rev' cur] end
  | c :: r => if (c =? 10)%N then rev' (c :: cur) :: split_inclusive r []
              else split_inclusive r (c :: cur)
  end.

Definition is_cont (b : N) : bool := ((128 <=? b) && (b <? 192))%N.     (* UTF-8 continuation byte *)
Definition nchars (bs : list N) : nat := length (filter (fun b => negb (is_cont b)) bs).

Fixpoint pos_in (pieces : list (list N)) (start offset line : nat) : option (nat * nat) :=
  match pieces with
  | [] => None
  | l :: rest =>
      let line' := S line in
      let offset' := (offset + length l)%nat in
      if Nat.ltb start offset' then Some (line', (nchars (firstn (start - offset) l) + 1)%nat)
      else pos_in rest start offset' line'
  end.

Definition pos_for (src : list N) (start : nat) : option (nat * nat) :=
  pos_in (split_inclusive src []) start 0 0.
