(** C04: surface trees of the operator grammar (identifiers, prefix runs, the binary operator
    levels, && / || chains, the conditional, explicit parentheses), their token rendering with
    minimal parentheses under CEL's precedence table, and the AST they denote. *)
From Coq Require Import String Ascii.
From Cel.Model Require Export Parser.
From Coq Require Import Arith.
Open Scope nat_scope.

(** ** Surface trees of the operator grammar, their minimal-parenthesis token rendering and
    the AST they denote *)
Inductive st :=
| SId (x : str)
| SNot (n : nat) (a : st)            (* n + 1 '!' *)
| SNeg (n : nat) (a : st)            (* n + 1 '-' *)
| SMul (op : tk) (a b : st)
| SAdd (op : tk) (a b : st)
| SRel (op : tk) (a b : st)
| SAnd (a : st) (rs : list st)       (* a && r1 && ... && rn *)
| SOr (a : st) (rs : list st)
| SCond (c a b : st)
| SParen (a : st).                   (* explicit, redundant parentheses *)

Definition prec (t : st) : nat :=
  match t with
  | SId _ => 7 | SNot _ _ | SNeg _ _ => 6 | SMul _ _ _ => 5 | SAdd _ _ _ => 4 | SRel _ _ _ => 3
  | SAnd _ _ => 2 | SOr _ _ => 1 | SCond _ _ _ => 0 | SParen _ => 7
  end.

Fixpoint raw (t : st) : list tk :=
  let at_ (l : nat) (u : st) := if l <=? prec u then raw u else TLParen :: raw u ++ [TRParen] in
  match t with
  | SId x => [TIdent x]
  | SNot n a => repeat TBang (S n) ++ at_ 7 a
  | SNeg n a => repeat TMinus (S n) ++ at_ 7 a
  | SMul op a b => at_ 5 a ++ [op] ++ at_ 6 b
  | SAdd op a b => at_ 4 a ++ [op] ++ at_ 5 b
  | SRel op a b => at_ 3 a ++ [op] ++ at_ 4 b
  | SAnd a rs => at_ 3 a ++ (fix go (l : list st) : list tk :=
                               match l with [] => [] | r :: l' => TAndAnd :: at_ 3 r ++ go l' end) rs
  | SOr a rs => at_ 2 a ++ (fix go (l : list st) : list tk :=
                              match l with [] => [] | r :: l' => TOrOr :: at_ 2 r ++ go l' end) rs
  | SCond c a b => at_ 1 c ++ [TQuestion] ++ at_ 1 a ++ [TColon] ++ raw b
  | SParen a => TLParen :: raw a ++ [TRParen]
  end.

Definition tk_at (l : nat) (u : st) : list tk :=
  if l <=? prec u then raw u else TLParen :: raw u ++ [TRParen].

Definition opname (o : option str) : str := match o with Some n => n | None => [] end.

Fixpoint ast (t : st) : expr :=
  match t with
  | SId x => EIdent x
  | SNot n a => if Nat.odd (S n) then ECall $"!_" None [ast a] else ast a
  | SNeg n a => if Nat.odd (S n) then ECall $"-_" None [ast a] else ast a
  | SMul op a b => ECall (opname (mulop_name op)) None [ast a; ast b]
  | SAdd op a b => ECall (opname (addop_name op)) None [ast a; ast b]
  | SRel op a b => ECall (opname (relop_name op)) None [ast a; ast b]
  | SAnd a rs => logic_tree $"_&&_" (ast a :: (fix go (l : list st) : list expr :=
                                                 match l with [] => [] | r :: l' => ast r :: go l' end) rs)
  | SOr a rs => logic_tree $"_||_" (ast a :: (fix go (l : list st) : list expr :=
                                                match l with [] => [] | r :: l' => ast r :: go l' end) rs)
  | SCond c a b => ECall op_conditional None [ast c; ast a; ast b]
  | SParen a => ast a
  end.

Fixpoint wf_st (t : st) : Prop :=
  match t with
  | SId _ => True
  | SNot _ a | SNeg _ a | SParen a => wf_st a
  | SMul op a b => mulop_name op <> None /\ wf_st a /\ wf_st b
  | SAdd op a b => addop_name op <> None /\ wf_st a /\ wf_st b
  | SRel op a b => relop_name op <> None /\ wf_st a /\ wf_st b
  | SAnd a rs | SOr a rs =>
      wf_st a /\ rs <> [] /\ (fix go (l : list st) : Prop := match l with [] => True | r :: l' => wf_st r /\ go l' end) rs
  | SCond c a b => wf_st c /\ wf_st a /\ wf_st b
  end.


(** boolean well-formedness, and token equality (for the correspondence run) *)
Fixpoint wf_stb (t : st) : bool :=
  match t with
  | SId _ => true
  | SNot _ a | SNeg _ a | SParen a => wf_stb a
  | SMul op a b => (match mulop_name op with Some _ => true | None => false end) && wf_stb a && wf_stb b
  | SAdd op a b => (match addop_name op with Some _ => true | None => false end) && wf_stb a && wf_stb b
  | SRel op a b => (match relop_name op with Some _ => true | None => false end) && wf_stb a && wf_stb b
  | SAnd a rs | SOr a rs =>
      wf_stb a && (match rs with [] => false | _ => true end) &&
      (fix go (l : list st) : bool := match l with [] => true | r :: l' => wf_stb r && go l' end) rs
  | SCond c a b => wf_stb c && wf_stb a && wf_stb b
  end.

Definition tk_code (t : tk) : N * str :=
  match t with
  | TEq => (0, []) | TNe => (1, []) | TIn => (2, []) | TLt => (3, []) | TLe => (4, []) | TGe => (5, [])
  | TGt => (6, []) | TAndAnd => (7, []) | TOrOr => (8, []) | TLBracket => (9, []) | TRBracket => (10, [])
  | TLBrace => (11, []) | TRBrace => (12, []) | TLParen => (13, []) | TRParen => (14, []) | TDot => (15, [])
  | TComma => (16, []) | TMinus => (17, []) | TBang => (18, []) | TQuestion => (19, []) | TColon => (20, [])
  | TPlus => (21, []) | TStar => (22, []) | TSlash => (23, []) | TPercent => (24, []) | TTrue => (25, [])
  | TFalse => (26, []) | TNull => (27, []) | TFloat s => (28, s) | TInt s => (29, s) | TUint s => (30, s)
  | TString s => (31, s) | TBytes s => (32, s) | TIdent s => (33, s) | TEscIdent s => (34, s)
  end%N.
Definition tk_eqb (a b : tk) : bool :=
  (fst (tk_code a) =? fst (tk_code b))%N && str_eqb (snd (tk_code a)) (snd (tk_code b)).
Fixpoint tks_eqb (a b : list tk) : bool :=
  match a, b with
  | [], [] => true
  | x :: a', y :: b' => tk_eqb x y && tks_eqb a' b'
  | _, _ => false
  end.
