(** C04: surface trees (identifiers and literals, prefix runs, the binary operator levels,
    && / || chains, the conditional, explicit parentheses, field selection, indexing, member and
    global calls, list and map literals), their token rendering with minimal parentheses under
    CEL's precedence table, and the AST they denote. *)
From Coq Require Import String Ascii.
From Cel.Model Require Export Parser FloatText.
From Coq Require Import Arith.
Open Scope nat_scope.

(** ** Surface trees of the operator grammar, their minimal-parenthesis token rendering and
    the AST they denote *)
Inductive slit := LInt (z : Z) | LUint (z : Z) | LBool (b : bool) | LNull
| LStr (tok : str) (s : str)          (* a string literal token and the string it denotes *)
| LBytes (tok : str) (b : list N)     (* a bytes literal token and the bytes it denotes *)
| LDbl (tok : str).                   (* a double literal token (its value is what the decoder makes of it) *)

Inductive st :=
| SId (x : str)
| SLit (l : slit)                    (* a non-negative number, true / false, null, a string / bytes token *)
| SNegLit (z : Z)                    (* a negative integer literal: the token pair  - DIGITS *)
| SNegDbl (tok : str)                (* a negative double literal: the token pair  - FLOAT *)
| SSel (a : st) (f : str)            (* a.f *)
| SIdx (a i : st)                    (* a[i] *)
| SMCall (a : st) (f : str) (args : list st)   (* a.f(args) *)
| SCall (f : str) (args : list st)   (* f(args) *)
| SLst (es : list st)               (* [e1, ..., en] *)
| SMap (kvs : list (st * st))        (* {k1: v1, ..., kn: vn} *)
| SMsg (lead : bool) (names : list str) (fields : list (str * st))   (* [.]a.b.T{f1: v1, ..., fn: vn} *)
| SLstT (es : list st)               (* [e1, ..., en,] : with the optional trailing comma; [,] when empty *)
| SMapT (kvs : list (st * st))       (* {k1: v1, ..., kn: vn,} ; {,} when empty *)
| SMsgT (lead : bool) (names : list str) (fields : list (str * st))  (* [.]a.b.T{f1: v1, ..., fn: vn,} ; T{,} *)
| SDotId (x : str)                   (* .x : the leading dot is dropped *)
| SDotCall (f : str) (args : list st) (* .f(args) : the call's name keeps the dot *)
| SSelEsc (a : st) (f : str)         (* a.`f` : f is the token text, back quotes included *)
| SNot (n : nat) (a : st)            (* n + 1 '!' *)
| SNeg (n : nat) (a : st)            (* n + 1 '-' *)
| SMul (op : tk) (a b : st)
| SAdd (op : tk) (a b : st)
| SRel (op : tk) (a b : st)
| SAnd (a : st) (rs : list st)       (* a && r1 && ... && rn *)
| SOr (a : st) (rs : list st)
| SCond (c a b : st)
| SParen (a : st).                   (* explicit, redundant parentheses *)

Definition prec (t : st) : nat :=
  match t with
  | SId _ | SLit _ | SSel _ _ | SIdx _ _ | SMCall _ _ _ | SCall _ _ | SLst _ | SMap _ | SMsg _ _ _
  | SLstT _ | SMapT _ | SMsgT _ _ _ | SDotId _ | SDotCall _ _ | SSelEsc _ _ => 7
  | SNot _ _ | SNeg _ _ | SNegLit _ | SNegDbl _ => 6 | SMul _ _ _ => 5 | SAdd _ _ _ => 4 | SRel _ _ _ => 3
  | SAnd _ _ => 2 | SOr _ _ => 1 | SCond _ _ _ => 0 | SParen _ => 7
  end.

Definition lit_tk (l : slit) : tk :=
  match l with
  | LInt z => TInt (nat_digits z)
  | LUint z => TUint (nat_digits z ++ [ch "u"])
  | LBool true => TTrue
  | LBool false => TFalse
  | LNull => TNull
  | LStr t _ => TString t
  | LBytes t _ => TBytes t
  | LDbl t => TFloat t
  end.
Definition lit_val (l : slit) : value :=
  match l with
  | LInt z => VInt z | LUint z => VUInt z | LBool b => VBool b | LNull => VNull
  | LStr _ s => VStr s | LBytes _ b => VBytes b
  | LDbl t => match double_literal false t with Some d => VDbl d | None => VNull end
  end.

(** IDENT ('.' IDENT)* *)
Fixpoint ids_tk (names : list str) : list tk :=
  match names with
  | [] => []
  | [a] => [TIdent a]
  | a :: r => TIdent a :: TDot :: ids_tk r
  end.

Fixpoint raw (t : st) : list tk :=
  let at_ (l : nat) (u : st) := if l <=? prec u then raw u else TLParen :: raw u ++ [TRParen] in
  let commas := (fix go (l : list st) : list tk :=
                   match l with
                   | [] => []
                   | x :: l' => raw x ++ match l' with [] => [] | _ => TComma :: go l' end
                   end) in
  match t with
  | SId x => [TIdent x]
  | SLit l => [lit_tk l]
  | SNegLit z => [TMinus; TInt (nat_digits (- z))]
  | SNegDbl t => [TMinus; TFloat t]
  | SSel a f => at_ 7 a ++ [TDot; TIdent f]
  | SIdx a i => at_ 7 a ++ [TLBracket] ++ raw i ++ [TRBracket]
  | SMCall a f args => at_ 7 a ++ [TDot; TIdent f; TLParen] ++ commas args ++ [TRParen]
  | SCall f args => [TIdent f; TLParen] ++ commas args ++ [TRParen]
  | SLst es => [TLBracket] ++ commas es ++ [TRBracket]
  | SMap kvs => [TLBrace] ++ (fix go (l : list (st * st)) : list tk :=
                                match l with
                                | [] => []
                                | (k, v) :: l' => raw k ++ [TColon] ++ raw v ++
                                                  match l' with [] => [] | _ => TComma :: go l' end
                                end) kvs ++ [TRBrace]
  | SMsg lead names fields =>
      (if lead then [TDot] else []) ++ ids_tk names ++ [TLBrace] ++
      (fix go (l : list (str * st)) : list tk :=
         match l with
         | [] => []
         | (n, v) :: l' => TIdent n :: TColon :: raw v ++ match l' with [] => [] | _ => TComma :: go l' end
         end) fields ++ [TRBrace]
  | SLstT es => [TLBracket] ++ commas es ++ [TComma; TRBracket]
  | SMapT kvs => [TLBrace] ++ (fix go (l : list (st * st)) : list tk :=
                                 match l with
                                 | [] => []
                                 | (k, v) :: l' => raw k ++ [TColon] ++ raw v ++
                                                   match l' with [] => [] | _ => TComma :: go l' end
                                 end) kvs ++ [TComma; TRBrace]
  | SMsgT lead names fields =>
      (if lead then [TDot] else []) ++ ids_tk names ++ [TLBrace] ++
      (fix go (l : list (str * st)) : list tk :=
         match l with
         | [] => []
         | (n, v) :: l' => TIdent n :: TColon :: raw v ++ match l' with [] => [] | _ => TComma :: go l' end
         end) fields ++ [TComma; TRBrace]
  | SDotId x => [TDot; TIdent x]
  | SDotCall f args => [TDot; TIdent f; TLParen] ++ commas args ++ [TRParen]
  | SSelEsc a f => at_ 7 a ++ [TDot; TEscIdent f]
  | SNot n a => repeat TBang (S n) ++ at_ 7 a
  | SNeg n a => repeat TMinus (S n) ++ at_ 7 a
  | SMul op a b => at_ 5 a ++ [op] ++ at_ 6 b
  | SAdd op a b => at_ 4 a ++ [op] ++ at_ 5 b
  | SRel op a b => at_ 3 a ++ [op] ++ at_ 4 b
  | SAnd a rs => at_ 3 a ++ (fix go (l : list st) : list tk :=
                               match l with [] => [] | r :: l' => TAndAnd :: at_ 3 r ++ go l' end) rs
  | SOr a rs => at_ 2 a ++ (fix go (l : list st) : list tk :=
                              match l with [] => [] | r :: l' => TOrOr :: at_ 2 r ++ go l' end) rs
  | SCond c a b => at_ 1 c ++ [TQuestion] ++ at_ 1 a ++ [TColon] ++ raw b
  | SParen a => TLParen :: raw a ++ [TRParen]
  end.

Definition tk_at (l : nat) (u : st) : list tk :=
  if l <=? prec u then raw u else TLParen :: raw u ++ [TRParen].

Definition opname (o : option str) : str := match o with Some n => n | None => [] end.

(** A call node: the macro expander applied to the children's trees (a plain call when no macro
    has that name, receiver style and argument count). *)
Definition call_ast (f : str) (tgt : option expr) (args : list expr) : expr :=
  match expand_call f tgt args with Some e => e | None => ECall f tgt args end.
Definition call_ok (f : str) (tgt : option expr) (args : list expr) : bool :=
  match expand_call f tgt args with Some _ => true | None => false end.

Fixpoint ast (t : st) : expr :=
  let many := (fix go (l : list st) : list expr :=
                 match l with [] => [] | r :: l' => ast r :: go l' end) in
  match t with
  | SId x => EIdent x
  | SLit l => ELit (lit_val l)
  | SNegLit z => ELit (VInt z)
  | SNegDbl t => ELit (match double_literal true t with Some d => VDbl d | None => VNull end)
  | SSel a f => ESelect (ast a) f false
  | SIdx a i => ECall $"_[_]" None [ast a; ast i]
  | SMCall a f args => call_ast f (Some (ast a)) (many args)
  | SCall f args => call_ast f None (many args)
  | SLst es => EList (many es)
  | SMap kvs => EMap ((fix go (l : list (st * st)) : list (expr * expr) :=
                         match l with [] => [] | (k, v) :: l' => (ast k, ast v) :: go l' end) kvs)
  | SMsg lead names fields =>
      EStruct (if lead then 46%N :: join_dots names else join_dots names)
              ((fix go (l : list (str * st)) : list (str * expr) :=
                  match l with [] => [] | (n, v) :: l' => (n, ast v) :: go l' end) fields)
  | SLstT es => EList (many es)
  | SMapT kvs => EMap ((fix go (l : list (st * st)) : list (expr * expr) :=
                          match l with [] => [] | (k, v) :: l' => (ast k, ast v) :: go l' end) kvs)
  | SMsgT lead names fields =>
      EStruct (if lead then 46%N :: join_dots names else join_dots names)
              ((fix go (l : list (str * st)) : list (str * expr) :=
                  match l with [] => [] | (n, v) :: l' => (n, ast v) :: go l' end) fields)
  | SDotId x => EIdent x
  | SDotCall f args => call_ast (46%N :: f) None (many args)
  | SSelEsc a f => ESelect (ast a) f false
  | SNot n a => if Nat.odd (S n) then ECall $"!_" None [ast a] else ast a
  | SNeg n a => if Nat.odd (S n) then ECall $"-_" None [ast a] else ast a
  | SMul op a b => ECall (opname (mulop_name op)) None [ast a; ast b]
  | SAdd op a b => ECall (opname (addop_name op)) None [ast a; ast b]
  | SRel op a b => ECall (opname (relop_name op)) None [ast a; ast b]
  | SAnd a rs => logic_tree $"_&&_" (ast a :: (fix go (l : list st) : list expr :=
                                                 match l with [] => [] | r :: l' => ast r :: go l' end) rs)
  | SOr a rs => logic_tree $"_||_" (ast a :: (fix go (l : list st) : list expr :=
                                                match l with [] => [] | r :: l' => ast r :: go l' end) rs)
  | SCond c a b => ECall op_conditional None [ast c; ast a; ast b]
  | SParen a => ast a
  end.

Definition wf_lit (l : slit) : bool :=
  match l with
  | LInt z => (0 <=? z)%Z && in_i64 z
  | LUint z => in_u64 z
  | LStr t s => match decode_string t with Some s' => str_eqb s' s | None => false end
  | LBytes t b => match decode_bytes t with Some b' => str_eqb b' b | None => false end
  | LDbl t => match double_literal false t with Some _ => true | None => false end
  | _ => true
  end.
Definition no_macro (f : str) (recv : bool) (n : nat) : bool :=
  match find_expander f recv n with None => true | Some _ => false end.

Fixpoint wf_st (t : st) : Prop :=
  let all := (fix go (l : list st) : Prop := match l with [] => True | r :: l' => wf_st r /\ go l' end) in
  match t with
  | SId _ => True
  | SLit l => wf_lit l = true
  | SNegLit z => ((z <? 0)%Z && in_i64 z) = true
  | SNegDbl t => double_literal true t <> None
  | SSel a _ => wf_st a
  | SIdx a i => wf_st a /\ wf_st i
  | SMCall a f args => call_ok f (Some (ast a)) (map ast args) = true /\ wf_st a /\ all args
  | SCall f args => call_ok f None (map ast args) = true /\ all args
  | SLst es => all es
  | SMap kvs => (fix go (l : list (st * st)) : Prop :=
                   match l with [] => True | (k, v) :: l' => wf_st k /\ wf_st v /\ go l' end) kvs
  | SMsg _ names fields =>
      names <> [] /\
      (fix go (l : list (str * st)) : Prop := match l with [] => True | (_, v) :: l' => wf_st v /\ go l' end) fields
  | SLstT es => all es
  | SMapT kvs => (fix go (l : list (st * st)) : Prop :=
                    match l with [] => True | (k, v) :: l' => wf_st k /\ wf_st v /\ go l' end) kvs
  | SMsgT _ names fields =>
      names <> [] /\
      (fix go (l : list (str * st)) : Prop := match l with [] => True | (_, v) :: l' => wf_st v /\ go l' end) fields
  | SDotId _ => True
  | SDotCall f args => call_ok (46%N :: f) None (map ast args) = true /\ all args
  | SSelEsc a _ => wf_st a
  | SNot _ a | SParen a => wf_st a
  | SNeg n a => wf_st a /\ (n = O -> is_number_tok (if 7 <=? prec a then raw a else TLParen :: raw a ++ [TRParen]) = false)
  | SMul op a b => mulop_name op <> None /\ wf_st a /\ wf_st b
  | SAdd op a b => addop_name op <> None /\ wf_st a /\ wf_st b
  | SRel op a b => relop_name op <> None /\ wf_st a /\ wf_st b
  | SAnd a rs | SOr a rs =>
      wf_st a /\ rs <> [] /\ (fix go (l : list st) : Prop := match l with [] => True | r :: l' => wf_st r /\ go l' end) rs
  | SCond c a b => wf_st c /\ wf_st a /\ wf_st b
  end.


(** boolean well-formedness, and token equality (for the correspondence run) *)
Fixpoint wf_stb (t : st) : bool :=
  let all := (fix go (l : list st) : bool := match l with [] => true | r :: l' => wf_stb r && go l' end) in
  match t with
  | SId _ => true
  | SLit l => wf_lit l
  | SNegLit z => (z <? 0)%Z && in_i64 z
  | SNegDbl t => match double_literal true t with Some _ => true | None => false end
  | SSel a _ => wf_stb a
  | SIdx a i => wf_stb a && wf_stb i
  | SMCall a f args => call_ok f (Some (ast a)) (map ast args) && wf_stb a && all args
  | SCall f args => call_ok f None (map ast args) && all args
  | SLst es => all es
  | SMap kvs => (fix go (l : list (st * st)) : bool :=
                   match l with [] => true | (k, v) :: l' => wf_stb k && wf_stb v && go l' end) kvs
  | SMsg _ names fields =>
      (match names with [] => false | _ => true end) &&
      (fix go (l : list (str * st)) : bool := match l with [] => true | (_, v) :: l' => wf_stb v && go l' end) fields
  | SLstT es => all es
  | SMapT kvs => (fix go (l : list (st * st)) : bool :=
                    match l with [] => true | (k, v) :: l' => wf_stb k && wf_stb v && go l' end) kvs
  | SMsgT _ names fields =>
      (match names with [] => false | _ => true end) &&
      (fix go (l : list (str * st)) : bool := match l with [] => true | (_, v) :: l' => wf_stb v && go l' end) fields
  | SDotId _ => true
  | SDotCall f args => call_ok (46%N :: f) None (map ast args) && all args
  | SSelEsc a _ => wf_stb a
  | SNot _ a | SParen a => wf_stb a
  | SNeg n a => wf_stb a && (negb (Nat.eqb n 0) || negb (is_number_tok (if 7 <=? prec a then raw a else TLParen :: raw a ++ [TRParen])))
  | SMul op a b => (match mulop_name op with Some _ => true | None => false end) && wf_stb a && wf_stb b
  | SAdd op a b => (match addop_name op with Some _ => true | None => false end) && wf_stb a && wf_stb b
  | SRel op a b => (match relop_name op with Some _ => true | None => false end) && wf_stb a && wf_stb b
  | SAnd a rs | SOr a rs =>
      wf_stb a && (match rs with [] => false | _ => true end) &&
      (fix go (l : list st) : bool := match l with [] => true | r :: l' => wf_stb r && go l' end) rs
  | SCond c a b => wf_stb c && wf_stb a && wf_stb b
  end.

Definition tk_code (t : tk) : N * str :=
  match t with
  | TEq => (0, []) | TNe => (1, []) | TIn => (2, []) | TLt => (3, []) | TLe => (4, []) | TGe => (5, [])
  | TGt => (6, []) | TAndAnd => (7, []) | TOrOr => (8, []) | TLBracket => (9, []) | TRBracket => (10, [])
  | TLBrace => (11, []) | TRBrace => (12, []) | TLParen => (13, []) | TRParen => (14, []) | TDot => (15, [])
  | TComma => (16, []) | TMinus => (17, []) | TBang => (18, []) | TQuestion => (19, []) | TColon => (20, [])
  | TPlus => (21, []) | TStar => (22, []) | TSlash => (23, []) | TPercent => (24, []) | TTrue => (25, [])
  | TFalse => (26, []) | TNull => (27, []) | TFloat s => (28, s) | TInt s => (29, s) | TUint s => (30, s)
  | TString s => (31, s) | TBytes s => (32, s) | TIdent s => (33, s) | TEscIdent s => (34, s)
  end%N.
Definition tk_eqb (a b : tk) : bool :=
  (fst (tk_code a) =? fst (tk_code b))%N && str_eqb (snd (tk_code a)) (snd (tk_code b)).
Fixpoint tks_eqb (a b : list tk) : bool :=
  match a, b with
  | [], [] => true
  | x :: a', y :: b' => tk_eqb x y && tks_eqb a' b'
  | _, _ => false
  end.
