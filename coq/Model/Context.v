(** Context (context.rs): a chain of variable scopes (innermost first, root last) and the
    root's function registry.  Host and built-in functions are data. *)
From Coq Require Import String.
From Cel.Model Require Export Ast.

(** The Rust types a function parameter can be declared with (magic.rs impl_conversions). *)
Inductive vty := TyInt | TyUInt | TyDbl | TyStr | TyBytes | TyBool | TyList | TyDur | TyTs | TyValue.

(** Extractors (magic.rs): This<T>, This<Option<T>>, positional T, positional Option<T>,
    Arguments, Identifier, Expression. *)
Inductive extractor :=
| XThis (t : vty) | XThisOpt (t : vty) | XArg (t : vty) | XArgOpt (t : vty)
| XArgs | XIdent | XExpr.

Inductive builtin :=
| FSize | FContains | FMax | FMin | FStartsWith | FEndsWith | FMatches
| FString | FBytes | FDouble | FInt | FUint | FDuration | FTimestamp
| FGetFullYear | FGetMonth | FGetDayOfYear | FGetDayOfMonth | FGetDate | FGetDayOfWeek
| FGetHours | FGetMinutes | FGetSeconds | FGetMilliseconds.

(** Bodies of host functions the harness registers (it holds a Rust closure for each). *)
Inductive hbody :=
| HConst (v : value)      (* returns v *)
| HArg (i : nat)          (* returns its i-th extracted parameter *)
| HFail                   (* returns an execution error *)
| HSum.                   (* adds its extracted parameters with Value::add, left to right *)

Inductive fbody := FBuiltin (b : builtin) | FHost (h : hbody).
Record fdef := { params : list extractor; body : fbody }.

Definition scope := list (str * value).
Record ctx := { funs : list (str * fdef); scopes : list scope }.

Fixpoint lookup_scopes (x : str) (ss : list scope) : option value :=
  match ss with
  | [] => None
  | s :: ss' => match str_assoc x s with
                | Some v => Some v
                | None => lookup_scopes x ss'
                end
  end.

(** Context::get_variable *)
Definition lookup (c : ctx) (x : str) : outcome value :=
  match lookup_scopes x (scopes c) with
  | Some v => Ok v
  | None => Err (EUndeclared x)
  end.

(** Context::add_variable(_from_value): HashMap::insert into the innermost scope. *)
Definition define (c : ctx) (x : str) (v : value) : ctx :=
  {| funs := funs c;
     scopes := match scopes c with
               | [] => [[(x, v)]]
               | s :: ss => ((x, v) :: s) :: ss
               end |}.

(** Context::new_inner_scope, and dropping the child again. *)
Definition push (c : ctx) : ctx := {| funs := funs c; scopes := [] :: scopes c |}.
Definition pop (c : ctx) : ctx :=
  {| funs := funs c; scopes := match scopes c with [] => [] | _ :: ss => ss end |}.

Definition get_function (c : ctx) (f : str) : option fdef := str_assoc f (funs c).
Definition has_function (c : ctx) (f : str) : bool :=
  match get_function c f with Some _ => true | None => false end.

(** FunctionRegistry::add: HashMap::insert (the later registration wins). *)
Definition add_function (c : ctx) (f : str) (d : fdef) : ctx :=
  {| funs := (f, d) :: funs c; scopes := scopes c |}.

(** Context::default(): the built-ins with their extractor signatures (functions.rs). *)
Definition bi (ps : list extractor) (b : builtin) : fdef := {| params := ps; body := FBuiltin b |}.
Definition default_funs : list (str * fdef) :=
  [($"contains", bi [XThis TyValue; XArg TyValue] FContains);
   ($"size", bi [XThis TyValue] FSize);
   ($"max", bi [XArgs] FMax);
   ($"min", bi [XArgs] FMin);
   ($"startsWith", bi [XThis TyStr; XArg TyStr] FStartsWith);
   ($"endsWith", bi [XThis TyStr; XArg TyStr] FEndsWith);
   ($"string", bi [XThis TyValue] FString);
   ($"bytes", bi [XArg TyStr] FBytes);
   ($"double", bi [XThis TyValue] FDouble);
   ($"int", bi [XThis TyValue] FInt);
   ($"uint", bi [XThis TyValue] FUint);
   ($"matches", bi [XThis TyStr; XArg TyStr] FMatches);
   ($"duration", bi [XArg TyStr] FDuration);
   ($"timestamp", bi [XArg TyStr] FTimestamp);
   ($"getFullYear", bi [XThis TyTs] FGetFullYear);
   ($"getMonth", bi [XThis TyTs] FGetMonth);
   ($"getDayOfYear", bi [XThis TyTs] FGetDayOfYear);
   ($"getDayOfMonth", bi [XThis TyTs] FGetDayOfMonth);
   ($"getDate", bi [XThis TyTs] FGetDate);
   ($"getDayOfWeek", bi [XThis TyTs] FGetDayOfWeek);
   ($"getHours", bi [XThis TyTs] FGetHours);
   ($"getMinutes", bi [XThis TyTs] FGetMinutes);
   ($"getSeconds", bi [XThis TyTs] FGetSeconds);
   ($"getMilliseconds", bi [XThis TyTs] FGetMilliseconds)].

Definition default_ctx : ctx := {| funs := default_funs; scopes := [[]] |}.

(** Operation sequences on a context (for C11): define in the innermost scope, open an inner
    scope, drop it again.  [depth] counts the inner scopes opened and not yet dropped; dropping
    the base scope is not an operation the API offers and is ignored. *)
Inductive cop := ODef (x : str) (v : value) | OPush | OPop | OGet (x : str).

Definition run_cop (st : nat * ctx * list (outcome value)) (o : cop)
  : nat * ctx * list (outcome value) :=
  let '(d, c, outs) := st in
  match o with
  | ODef x v => (d, define c x v, outs)
  | OPush => (S d, push c, outs)
  | OPop => match d with O => (O, c, outs) | S d' => (d', pop c, outs) end
  | OGet x => (d, c, lookup c x :: outs)
  end.

Definition run_cops (c : ctx) (ops : list cop) : list (outcome value) :=
  rev' (snd (fold_left run_cop ops (O, c, []))).
