(** Equality and ordering of values (objects.rs: impl PartialEq / PartialOrd for Value),
    max / min (functions.rs).  Definitions only. *)
From Cel.Model Require Export Values.

Definition feq (a b : f64) : bool :=
  match fcmp a b with Some Eq => true | _ => false end.

Definition cmp_is_eq (c : option comparison) : bool :=
  match c with Some Eq => true | _ => false end.

Section ListEq.
  Variable A : Type.
  Variable eqA : A -> A -> bool.
  Fixpoint list_eqb (a b : list A) : bool :=
    match a, b with
    | [], [] => true
    | x :: a', y :: b' => eqA x y && list_eqb a' b'
    | _, _ => false
    end.
End ListEq.
Arguments list_eqb {A} eqA a b.

(** HashMap equality: same size and every entry of the left found, equal, in the right. *)
Fixpoint v_eq (a b : value) {struct a} : bool :=
  match a, b with
  | VMap ma, VMap mb =>
      (Nat.eqb (length ma) (length mb)) &&
      (fix all_in (m : list (key * value)) : bool :=
         match m with
         | [] => true
         | (k, v) :: m' =>
             match assoc_get k mb with
             | Some v' => v_eq v v' && all_in m'
             | None => false
             end
         end) ma
  | VList la, VList lb =>
      (fix go (x : list value) (y : list value) : bool :=
         match x, y with
         | [], [] => true
         | u :: x', w :: y' => v_eq u w && go x' y'
         | _, _ => false
         end) la lb
  | VFun n1 r1, VFun n2 r2 =>
      str_eqb n1 n2 &&
      match r1, r2 with
      | None, None => true
      | Some x, Some y => v_eq x y
      | _, _ => false
      end
  | VInt x, VInt y => x =? y
  | VUInt x, VUInt y => x =? y
  | VDbl x, VDbl y => feq x y
  | VStr x, VStr y => str_eqb x y
  | VBytes x, VBytes y => list_eqb N.eqb x y
  | VBool x, VBool y => Bool.eqb x y
  | VNull, VNull => true
  | VDur x, VDur y => x =? y
  | VTs x _, VTs y _ => x =? y
  | VInt x, VUInt y => x =? y
  | VUInt x, VInt y => x =? y
  | VInt x, VDbl y => cmp_is_eq (cmp_Z_f64 x y)
  | VUInt x, VDbl y => cmp_is_eq (cmp_Z_f64 x y)
  | VDbl x, VInt y => cmp_is_eq (cmp_Z_f64 y x)
  | VDbl x, VUInt y => cmp_is_eq (cmp_Z_f64 y x)
  | _, _ => false
  end.

Definition v_ne (a b : value) : bool := negb (v_eq a b).

Definition bool_cmp (a b : bool) : comparison :=
  match a, b with
  | false, true => Lt
  | true, false => Gt
  | _, _ => Eq
  end.

Definition v_cmp (a b : value) : option comparison :=
  match a, b with
  | VInt x, VInt y => Some (Z.compare x y)
  | VUInt x, VUInt y => Some (Z.compare x y)
  | VDbl x, VDbl y => fcmp x y
  | VStr x, VStr y => Some (str_cmp x y)
  | VBool x, VBool y => Some (bool_cmp x y)
  | VNull, VNull => Some Eq
  | VDur x, VDur y => Some (Z.compare x y)
  | VTs x _, VTs y _ => Some (Z.compare x y)
  | VInt x, VUInt y => Some (Z.compare x y)
  | VUInt x, VInt y => Some (Z.compare x y)
  | VInt x, VDbl y => cmp_Z_f64 x y
  | VUInt x, VDbl y => cmp_Z_f64 x y
  | VDbl x, VInt y => option_map CompOpp (cmp_Z_f64 y x)
  | VDbl x, VUInt y => option_map CompOpp (cmp_Z_f64 y x)
  | _, _ => None
  end.

(** The six relational operators as Value::resolve computes them. *)
Definition v_lt (a b : value) : outcome value :=
  match v_cmp a b with Some c => Ok (VBool (match c with Lt => true | _ => false end))
                     | None => Err EInvalid end.
Definition v_le (a b : value) : outcome value :=
  match v_cmp a b with Some c => Ok (VBool (match c with Gt => false | _ => true end))
                     | None => Err EInvalid end.
Definition v_gt (a b : value) : outcome value :=
  match v_cmp a b with Some c => Ok (VBool (match c with Gt => true | _ => false end))
                     | None => Err EInvalid end.
Definition v_ge (a b : value) : outcome value :=
  match v_cmp a b with Some c => Ok (VBool (match c with Lt => false | _ => true end))
                     | None => Err EInvalid end.

(** max / min over a list (functions.rs: try_fold from the first element; ties keep the
    later element; empty => null). *)
Fixpoint fold_pick (keep : comparison) (acc : value) (l : list value) : outcome value :=
  match l with
  | [] => Ok acc
  | x :: l' =>
      match v_cmp acc x with
      | Some c => fold_pick keep (if match c, keep with
                                       | Gt, Gt => true | Lt, Lt => true | _, _ => false
                                       end then acc else x) l'
      | None => Err EInvalid
      end
  end.

Definition pick_list (keep : comparison) (items : list value) : outcome value :=
  match items with
  | [] => Ok VNull
  | x :: l => fold_pick keep x l
  end.

Definition v_pick (keep : comparison) (args : list value) : outcome value :=
  match args with
  | [VList items] => pick_list keep items
  | [x] => Ok x
  | _ => pick_list keep args
  end.
Definition v_max := v_pick Gt.
Definition v_min := v_pick Lt.
