(** C19 - reported references cover every name a program can look up.
    [ref_vars] / [ref_funs] transcribe Program::references.  Soundness is proved for every
    expression and context.  The converse (no undeclared-reference failure when everything
    reported is defined) is evaluated on the implementation by the correspondence run and is not
    a theorem yet: partial. *)
From Coq Require Import String.
From Cel.Model Require Import Eval Refs.
From Cel.Proofs Require Import EvalBase NoCrash RefsProofs.

(** If executing a program fails because a name is undeclared, that name is among the
    variables or functions the program reports - unless it is a macro-internal '@' name, which
    no source text can mention and which the macro expansions always bind (C10). *)
Theorem C19_sound : forall e c n,
  fst (eval c e) = Err (EUndeclared n) ->
  starts_at n = true \/ In n (ref_vars e) \/ In n (ref_funs e).
Proof.
  intros e c n H. pose proof (refs_sound e c) as S. rewrite H in S. exact (S n eq_refl).
Qed.

(** Macro-internal accumulators are never reported. *)
Theorem C19_no_accumulators : forall e x, In x (ref_vars e) -> starts_at x = false.
Proof. exact ref_vars_no_at. Qed.

(** Host functions and built-ins cannot fabricate the error: whatever they are called with,
    their own result is never "undeclared reference". *)
Theorem C19_functions_do_not_fabricate : forall b h xs,
  okish plain (run_builtin b xs) /\ okish plain (run_host h xs).
Proof. intros; split; [apply run_builtin_plain|apply run_host_plain]. Qed.

(** The report is a function of the expression alone (no context argument), and every reported
    variable is an identifier of the expression. *)
Theorem C19_vars_are_identifiers : forall x, ref_vars (EIdent x) = (if starts_at x then [] else [x]).
Proof. reflexivity. Qed.

Example C19_ex :
  ref_vars (ECall $"f" (Some (EIdent $"a")) [EIdent $"b"; EIdent $"@result"]) = [$"a"; $"b"] /\
  ref_funs (ECall $"f" (Some (EIdent $"a")) [EIdent $"b"]) = [$"f"].
Proof. split; reflexivity. Qed.
Example C19_ex_fail : fst (eval default_ctx (ECall $"nope" None [ELit (VInt 1)])) = Err (EUndeclared $"nope").
Proof. reflexivity. Qed.

Print Assumptions C19_sound.
Print Assumptions C19_no_accumulators.
Print Assumptions C19_functions_do_not_fabricate.
Print Assumptions C19_vars_are_identifiers.
