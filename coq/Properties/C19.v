(** C19 - reported references cover every name a program can look up.
    [ref_vars] / [ref_funs] transcribe Program::references.  Soundness is proved for every
    expression and context; so is the converse (no undeclared-reference failure when everything
    reported is defined) for every expression without free macro-internal identifiers - which is
    what the parser produces ([C19_expansions_closed]; the C19 stream checks [no_free_at] on every
    compiled program). *)
From Coq Require Import String.
From Cel.Model Require Import Eval Refs.
From Cel.Model Require Import Macros.
From Cel.Proofs Require Import EvalBase NoCrash RefsProofs RefsComplete.

(** If executing a program fails because a name is undeclared, that name is among the
    variables or functions the program reports - unless it is a macro-internal '@' name, which
    no source text can mention and which the macro expansions always bind (C10). *)
Theorem C19_sound : forall e c n,
  fst (eval c e) = Err (EUndeclared n) ->
  starts_at n = true \/ In n (ref_vars e) \/ In n (ref_funs e).
Proof.
  intros e c n H. pose proof (refs_sound e c) as S. rewrite H in S. exact (S n eq_refl).
Qed.

(** Macro-internal accumulators are never reported. *)
Theorem C19_no_accumulators : forall e x, In x (ref_vars e) -> starts_at x = false.
Proof. exact ref_vars_no_at. Qed.

(** Host functions and built-ins cannot fabricate the error: whatever they are called with,
    their own result is never "undeclared reference". *)
Theorem C19_functions_do_not_fabricate : forall b h xs,
  okish plain (run_builtin b xs) /\ okish plain (run_host h xs).
Proof. intros; split; [apply run_builtin_plain|apply run_host_plain]. Qed.

(** The report is a function of the expression alone (no context argument), and every reported
    variable is an identifier of the expression. *)
Theorem C19_vars_are_identifiers : forall x, ref_vars (EIdent x) = (if starts_at x then [] else [x]).
Proof. reflexivity. Qed.

(** Conversely: when the context defines every reported variable and function, execution never
    fails with an undeclared reference (whatever else it does). *)
Theorem C19_complete : forall e c, no_free_at e = true ->
  (forall x, In x (ref_vars e) -> exists v, lookup c x = Ok v) ->
  (forall f, In f (ref_funs e) -> get_function c f <> None) ->
  forall n, fst (eval c e) <> Err (EUndeclared n).
Proof. exact refs_complete_reported. Qed.

(** The six macro expansions bind the accumulator they introduce: expanding closed pieces under
    an ordinary iteration variable gives a closed expression. *)
Theorem C19_expansions_closed : forall r x p q,
  no_free_at r = true -> no_free_at p = true -> no_free_at q = true -> starts_at x = false ->
  no_free_at (expand_all r x p) = true /\ no_free_at (expand_exists r x p) = true /\
  no_free_at (expand_exists_one r x p) = true /\ no_free_at (expand_map r x None p) = true /\
  no_free_at (expand_map r x (Some q) p) = true /\ no_free_at (expand_filter r x p) = true.
Proof. exact expansions_closed. Qed.

Example C19_ex :
  ref_vars (ECall $"f" (Some (EIdent $"a")) [EIdent $"b"; EIdent $"@result"]) = [$"a"; $"b"] /\
  ref_funs (ECall $"f" (Some (EIdent $"a")) [EIdent $"b"]) = [$"f"].
Proof. split; reflexivity. Qed.
Example C19_ex_fail : fst (eval default_ctx (ECall $"nope" None [ELit (VInt 1)])) = Err (EUndeclared $"nope").
Proof. reflexivity. Qed.

Print Assumptions C19_sound.
Print Assumptions C19_no_accumulators.
Print Assumptions C19_functions_do_not_fabricate.
Print Assumptions C19_vars_are_identifiers.
Print Assumptions C19_complete.
Print Assumptions C19_expansions_closed.
