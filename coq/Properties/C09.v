(** C09 - equality and ordering are coherent and numerically exact across types. *)
From Cel.Model Require Import Compare.
From Cel.Proofs Require Import CompareProofs FloatOrder EqSymmetry EqEquiv.
From Coq Require Import QArith.
Open Scope Z_scope.

(** a != b is the negation of a == b. *)
Theorem C09_ne_neg : forall a b, v_ne a b = negb (v_eq a b).
Proof. exact ne_neg. Qed.

(** Comparisons among int, uint and double compare the numbers denoted ([den]: the exact
    rational value, +-infinity or NaN), with NaN unordered - for every pair in which at most
    one operand is a double.  (For two doubles [v_cmp] is SpecFloat's IEEE-754 comparison, which
    is part of the trusted base.) *)
Theorem C09_exact : forall a b da db,
  den a = Some da -> den b = Some db -> is_dbl a && is_dbl b = false ->
  v_cmp a b = xcmp da db /\
  v_eq a b = match xcmp da db with Some Eq => true | _ => false end.
Proof. intros; split; [now apply cmp_exact|now apply eq_exact]. Qed.

(** Wherever < is defined exactly one of a<b, a==b, a>b holds. *)
Theorem C09_trichotomy : forall a b c, v_cmp a b = Some c ->
  match c with
  | Lt => is_true (v_lt a b) = true /\ v_eq a b = false /\ is_true (v_gt a b) = false
  | Eq => is_true (v_lt a b) = false /\ v_eq a b = true /\ is_true (v_gt a b) = false
  | Gt => is_true (v_lt a b) = false /\ v_eq a b = false /\ is_true (v_gt a b) = true
  end.
Proof. exact trichotomy. Qed.

(** a<=b iff a<b || a==b. *)
Theorem C09_le_iff : forall a b c, v_cmp a b = Some c ->
  is_true (v_le a b) = is_true (v_lt a b) || v_eq a b.
Proof. exact le_iff_lt_or_eq. Qed.

(** a<b iff b>a (for all values, comparable or not). *)
Theorem C09_antisym : forall a b,
  v_cmp b a = option_map CompOpp (v_cmp a b) /\ is_true (v_lt a b) = is_true (v_gt b a).
Proof. intros; split; [apply cmp_antisym|apply lt_iff_gt]. Qed.

(** Transitivity of < wherever it is defined: numbers of the three kinds mixed freely (by the
    exact denotation - for two doubles see [C09_exact_doubles]), strings, bools, durations,
    timestamps.  [vvalid]: a double operand is an IEEE-754 double (SpecFloat's [valid_binary]);
    every 64-bit pattern decodes to one ([C09_bits_valid]). *)
Theorem C09_trans : forall a b c, vvalid a -> vvalid b -> vvalid c ->
  v_cmp a b = Some Lt -> v_cmp b c = Some Lt -> v_cmp a c = Some Lt.
Proof. exact cmp_trans. Qed.

(** Comparisons among int, uint and double compare the numbers denoted - for every pair, two
    doubles included: SpecFloat's IEEE comparison of valid doubles is the comparison of the
    rationals m * 2^e they denote (sign, then exponent, then mantissa decide exactly as the
    values do, because a valid mantissa has 53 bits unless the exponent is the smallest). *)
Theorem C09_exact_doubles : forall a b da db, vvalid a -> vvalid b ->
  den a = Some da -> den b = Some db ->
  v_cmp a b = xcmp da db /\
  v_eq a b = match xcmp da db with Some Eq => true | _ => false end.
Proof. intros; split; [now apply cmp_exact_all|now apply eq_exact_all]. Qed.

Theorem C09_bits_valid : forall bits, vvalid (VDbl (f64_of_bits bits)).
Proof. exact bits_valid. Qed.

(** Strings compare by code point (lexicographically). *)
Theorem C09_string_codepoint_order : forall a b,
  (v_cmp (VStr a) (VStr b) = Some Lt <-> lex_lt a b) /\
  (v_eq (VStr a) (VStr b) = true <-> a = b).
Proof.
  intros a b. split.
  - cbn [v_cmp]. rewrite <- str_cmp_lt. split; [intros [= H]; exact H|intros ->; reflexivity].
  - cbn [v_eq]. apply str_eqb_eq.
Qed.

(** Lists are equal exactly when they have the same length and pointwise equal elements;
    maps exactly when they have the same number of entries and every entry of one is found,
    with an equal value, in the other. *)
Theorem C09_list_map_eq : forall la lb ma mb,
  (v_eq (VList la) (VList lb) = true <-> Forall2 (fun x y => v_eq x y = true) la lb) /\
  (v_eq (VMap ma) (VMap mb) = true <->
   length ma = length mb /\
   Forall (fun kv => exists v', assoc_get (fst kv) mb = Some v' /\ v_eq (snd kv) v' = true) ma).
Proof. intros; split; [apply v_eq_list|apply v_eq_map]. Qed.

(** Values of unrelated types are unequal and not orderable; NaN is unordered and unequal
    to every number. *)
Theorem C09_unrelated : forall a b, kind_of a <> kind_of b -> v_eq a b = false /\ v_cmp a b = None.
Proof. exact unrelated. Qed.

Theorem C09_nan : forall b, kind_of b = KNum ->
  v_eq (VDbl S754_nan) b = false /\ v_cmp (VDbl S754_nan) b = None /\
  v_eq b (VDbl S754_nan) = false /\ v_cmp b (VDbl S754_nan) = None.
Proof. exact nan_unordered. Qed.

(** max of a non-empty collection of mutually comparable values returns one of them that
    bounds all the others.  General form (any values on which the order is reflexive and
    transitive), and its instance for int/uint collections. *)
Theorem C09_minmax : forall acc l m,
  (forall x y z, In x (acc :: l) -> In y (acc :: l) -> In z (acc :: l) ->
     le_or_eq (v_cmp x y) -> le_or_eq (v_cmp y z) -> le_or_eq (v_cmp x z)) ->
  (forall x, In x (acc :: l) -> le_or_eq (v_cmp x x)) ->
  pick_list Gt (acc :: l) = Ok m ->
  In m (acc :: l) /\ forall x, In x (acc :: l) -> le_or_eq (v_cmp x m).
Proof. intros acc l m. cbn [pick_list]. apply fold_pick_max_spec. Qed.

Theorem C09_max_intlike : forall l m,
  l <> [] -> Forall (fun v => zkey v <> None) l -> v_max [VList l] = Ok m ->
  In m l /\ forall x, In x l -> le_or_eq (v_cmp x m).
Proof. intros l m Hn Hall H. exact (max_intlike l m Hn Hall H). Qed.

(** ... and for numbers of the three kinds mixed freely (no NaN): max returns an element that
    bounds all the others. *)
Theorem C09_max_numbers : forall l m, l <> [] -> Forall num_ok l -> pick_list Gt l = Ok m ->
  In m l /\ forall x, In x l -> le_or_eq (v_cmp x m).
Proof. exact max_numbers. Qed.

(** Non-vacuity / boundary examples (the defects this property found are fixed). *)
Example C09_ex_2_53 : v_eq (VInt 9007199254740993) (VDbl (f64_of_Z 9007199254740992)) = false.
Proof. reflexivity. Qed.
(** == (and so !=) is symmetric on all values - numbers of different kinds, lists, maps and function
    values included - when every map holds each key once, as a HashMap does ([nodup_maps]); without
    that hypothesis it fails ([v_eq_sym_needs_nodup]: an association list that repeats a key).  The
    map case is the counting argument: same size, distinct keys, every left entry found equal in
    the right - then every right entry is found equal in the left. *)
Theorem C09_eq_symmetric : forall a b, nodup_maps a -> nodup_maps b ->
  v_eq a b = v_eq b a /\ v_ne a b = v_ne b a.
Proof. intros a b Ha Hb. split; [now apply v_eq_sym|now apply v_ne_sym]. Qed.

(** == is transitive on all values whose doubles are IEEE-754 doubles and whose maps hold each key
    once ([good]) - an int, a uint and a double that are pairwise == denote one number; lists, maps
    and function values inherit it - and reflexive on those that contain no NaN.  With the symmetry
    above, == is an equivalence relation on NaN-free values (and 0u == 0 == -0.0 forces 0u == -0.0). *)
Theorem C09_eq_transitive : forall a b c, good a -> good b -> good c ->
  v_eq a b = true -> v_eq b c = true -> v_eq a c = true.
Proof. exact v_eq_trans. Qed.

Theorem C09_eq_reflexive : forall a, good a -> nan_free a -> v_eq a a = true.
Proof. intros a [Hd Hv] Hn. now apply v_eq_refl_all. Qed.

Example C09_ex_zero_chain :
  good (VUInt 0) /\ good (VInt 0) /\ good (VDbl (S754_zero true)) /\ nan_free (VDbl (S754_zero true)) /\
  v_eq (VUInt 0) (VInt 0) = true /\ v_eq (VInt 0) (VDbl (S754_zero true)) = true /\
  v_eq (VUInt 0) (VDbl (S754_zero true)) = true /\ v_eq (VDbl S754_nan) (VDbl S754_nan) = false.
Proof. unfold good. cbn. repeat split; try reflexivity; discriminate. Qed.

Example C09_ex_sym_hyp : nodup_maps (VMap [(KInt 1, VList [VDbl S754_nan]); (KUint 1, VMap [])]) /\
  v_eq (VMap [(KInt 1, VInt 0)]) (VMap [(KUint 1, VInt 0)]) = false.
Proof.
  split; [|reflexivity]. apply nodup_map. split.
  - cbn. constructor; [|constructor; [intros []|constructor]]. intros [H|[]]. discriminate.
  - repeat constructor.
Qed.

Example C09_ex_2_63 : v_cmp (VInt 9223372036854775807) (VDbl (f64_of_Z 9223372036854775808)) = Some Lt.
Proof. reflexivity. Qed.
Example C09_ex_half : v_cmp (VUInt 1) (VDbl (f64_of_bits 4609434218613702656)) = Some Lt. (* 1.5 *)
Proof. reflexivity. Qed.
Example C09_ex_max : v_max [VList [VInt 3; VUInt 7; VInt (-2)]] = Ok (VUInt 7).
Proof. reflexivity. Qed.

Print Assumptions C09_ne_neg.
Print Assumptions C09_exact.
Print Assumptions C09_trichotomy.
Print Assumptions C09_le_iff.
Print Assumptions C09_antisym.
Print Assumptions C09_trans.
Print Assumptions C09_exact_doubles.
Print Assumptions C09_bits_valid.
Print Assumptions C09_max_numbers.
Print Assumptions C09_string_codepoint_order.
Print Assumptions C09_list_map_eq.
Print Assumptions C09_unrelated.
Print Assumptions C09_nan.
Print Assumptions C09_minmax.
Print Assumptions C09_max_intlike.
Print Assumptions C09_eq_symmetric.
Print Assumptions C09_eq_transitive.
Print Assumptions C09_eq_reflexive.
