(** C05 - execution is pure, repeatable and safe to share across threads (partial).

    The model's evaluator is a function of (context, program) that returns no context: "an
    execution never changes the program, the context or earlier results" holds of the model by
    construction, and is therefore checked on the implementation by running histories and
    threads against this history-free model (tools/props.py, stream C05).  What is proved
    here is the notion of "equal context" the property relies on.  Thread scheduling and the
    memory model are outside the model. *)
From Coq Require Import String.
From Cel.Model Require Import Eval.
From Cel.Proofs Require Import EvalBase CtxEquiv FrameProofs.

(** Contexts with the same functions and the same answer to every lookup - however they were
    built - give the same outcome and the same host-call log. *)
Theorem C05_equal_context : forall e c1 c2,
  funs c1 = funs c2 -> (forall x, lookup c1 x = lookup c2 x) -> eval c1 e = eval c2 e.
Proof. intros e c1 c2 Hf Hl. apply eval_equiv. now split. Qed.

(** Only the identifiers that occur in the program matter. *)
Theorem C05_frame : forall e c1 c2,
  funs c1 = funs c2 -> (forall x, In x (occ_vars e) -> lookup c1 x = lookup c2 x) -> eval c1 e = eval c2 e.
Proof. intros e c1 c2 Hf Hl. apply (eval_frame e (fun x => In x (occ_vars e))); [auto|now split]. Qed.

(** Executing in an inner scope of one's own, holding a private variable the program does not
    mention, yields what the execution yields against the root context alone. *)
Theorem C05_private_scope : forall e c x v,
  ~ In x (occ_vars e) -> eval (define (push c) x v) e = eval c e.
Proof. exact unrelated_variable. Qed.

Theorem C05_inner_scope : forall e c, eval (push c) e = eval c e.
Proof. exact inner_scope. Qed.

Print Assumptions C05_equal_context.
Print Assumptions C05_frame.
Print Assumptions C05_private_scope.
Print Assumptions C05_inner_scope.
