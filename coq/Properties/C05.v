(** C05 - execution is pure, repeatable and safe to share across threads (partial).

    The model's evaluator is a function of (context, program) that returns no context: "an
    execution never changes the program, the context or earlier results" holds of the model by
    construction, and is therefore checked on the implementation by running histories and
    threads against this history-free model (tools/props.py, stream C05).  What is proved
    here is (a) the notion of "equal context" the property relies on, and (b) - on a model of the
    reference-count discipline behind list / string concatenation ([Heap]: owner counts,
    Arc::make_mut, Arc::get_mut, clone-on-lookup, for context variables, literals and [+]) -
    that in-place appending never reaches a buffer the context or an earlier result holds.
    Thread scheduling and the memory model are outside the model. *)
From Coq Require Import String.
From Cel.Model Require Import Eval.
From Cel.Model Require Import Heap.
From Cel.Proofs Require Import EvalBase CtxEquiv FrameProofs HeapProofs.

(** Contexts with the same functions and the same answer to every lookup - however they were
    built - give the same outcome and the same host-call log. *)
Theorem C05_equal_context : forall e c1 c2,
  funs c1 = funs c2 -> (forall x, lookup c1 x = lookup c2 x) -> eval c1 e = eval c2 e.
Proof. intros e c1 c2 Hf Hl. apply eval_equiv. now split. Qed.

(** Only the identifiers that occur in the program matter. *)
Theorem C05_frame : forall e c1 c2,
  funs c1 = funs c2 -> (forall x, In x (occ_vars e) -> lookup c1 x = lookup c2 x) -> eval c1 e = eval c2 e.
Proof. intros e c1 c2 Hf Hl. apply (eval_frame e (fun x => In x (occ_vars e))); [auto|now split]. Qed.

(** Executing in an inner scope of one's own, holding a private variable the program does not
    mention, yields what the execution yields against the root context alone. *)
Theorem C05_private_scope : forall e c x v,
  ~ In x (occ_vars e) -> eval (define (push c) x v) e = eval c e.
Proof. exact unrelated_variable. Qed.

Theorem C05_inner_scope : forall e c, eval (push c) e = eval c e.
Proof. exact inner_scope. Qed.

(** (b) One execution over the store of reference-counted buffers: no buffer that existed
    before is changed; its owner count grows by exactly the handle the result holds to it; the
    result is a context buffer (shared, one more owner) or a fresh buffer with one owner; and
    the value read from the store is the value of the sharing-free semantics [peval]. *)
Theorem C05_heap_execution : forall e ρ σ σ' r, wf σ ρ -> eval_h ρ σ e = (σ', r) ->
  result_ok ρ σ σ' r /\ read σ' r = peval (map (denote σ) ρ) e.
Proof. exact eval_h_spec. Qed.

(** Histories: after any sequence of executions (each result dropped before the next) every
    buffer of the context has the payload and the owner count it started with, and every
    execution returned what it returns alone against the original context. *)
Theorem C05_heap_history : forall es ρ σ σ' outs, wf σ ρ -> run_history ρ σ es = (σ', outs) ->
  outs = map (peval (map (denote σ) ρ)) es /\ length σ <= length σ' /\
  (forall l, l < length σ -> pl_of σ' l = pl_of σ l /\ rc_of σ' l = rc_of σ l).
Proof. exact history_spec. Qed.

(** The in-place path is real in the model: [1] + [2] reuses the left literal's buffer (two
    cells allocated, the result is the first); x + [2] with x held by the context copies. *)
Example C05_ex_in_place :
  eval_h [] [] (XAdd (XListLit [1%Z]) (XListLit [2%Z])) =
    ([{| rc := 1; pl := PList [1%Z; 2%Z] |}; {| rc := 0; pl := PList [] |}], Ok (HRef 0)) /\
  eval_h [HRef 0] [{| rc := 1; pl := PList [1%Z] |}] (XAdd (XVar 0) (XListLit [2%Z])) =
    ([{| rc := 1; pl := PList [1%Z] |}; {| rc := 0; pl := PList [] |}; {| rc := 1; pl := PList [1%Z; 2%Z] |}],
     Ok (HRef 2)) /\
  wf [{| rc := 1; pl := PList [1%Z] |}] [HRef 0].
Proof.
  split; [reflexivity|split; [reflexivity|]]. intros k [[= <-]|[]]. cbn. auto.
Qed.

Print Assumptions C05_equal_context.
(** ... and with every result kept alive (as concurrent holders of results do): read at the very
    end, each result is still what its program yields alone, and no buffer that existed at the
    start has changed - a value once obtained is never changed by a later execution. *)
Theorem C05_heap_results_kept : forall es ρ σ σ' rs, wf σ ρ -> run_keep ρ σ es = (σ', rs) ->
  map (read σ') rs = map (peval (map (denote σ) ρ)) es /\ length σ <= length σ' /\
  (forall l, l < length σ -> pl_of σ' l = pl_of σ l) /\
  (forall l, l < length σ -> rc_of σ l <= rc_of σ' l) /\
  Forall (fun r => forall k, r = Ok (HRef k) -> k < length σ') rs.
Proof. exact keep_spec. Qed.

(** Any schedule.  A configuration is the store with the multiset of all handles in existence;
    threads clone a handle they hold, drop one, allocate, or append through one (Arc::make_mut,
    then write); [pinned] are the handles the context holds throughout.  For EVERY sequence of
    such steps - every interleaving of any number of threads - owner counts stay exactly the
    handles in existence (nothing is freed or mutated in place while another handle to it
    exists) and every buffer the context holds keeps its payload. *)
Theorem C05_any_interleaving : forall pinned ops c c',
  inv c -> (forall l, cnt l pinned <= cnt l (hs c)) -> steps pinned c ops = Some c' ->
  inv c' /\ (forall l, cnt l pinned <= cnt l (hs c')) /\
  (forall l, 0 < cnt l pinned -> pl_of (st c') l = pl_of (st c) l).
Proof. exact any_interleaving. Qed.

(** non-vacuity: the context's list [1;2] survives a thread that clones it, appends (a private
    copy is made), clones the copy, appends in place after dropping that clone, and drops all *)
Example C05_ex_interleaving :
  let c0 := {| st := [{| rc := 1; pl := PList [1; 2]%Z |}]; hs := [0] |} in
  inv c0 /\
  match steps [0] c0 [OClone 0; OAppend 0 (PList [1; 2; 3]%Z); OClone 1; ODrop 1; OAppend 1 (PList [1; 2; 3; 4]%Z); ODrop 1] with
  | Some c' => pl_of (st c') 0 = PList [1; 2]%Z /\ rc_of (st c') 0 = 1 /\ pl_of (st c') 1 = PList [1; 2; 3; 4]%Z /\ rc_of (st c') 1 = 0
  | None => False
  end.
Proof.
  split; [|vm_compute; repeat split].
  intros l. destruct l as [|l]; [vm_compute; split; [reflexivity|intros _; apply le_n]|].
  split; [unfold rc_of; cbn; now destruct l|]. cbn. destruct (Nat.eq_dec 0 (S l)); [discriminate|]. cbn. intros H; inversion H.
Qed.

Print Assumptions C05_any_interleaving.
Print Assumptions C05_heap_results_kept.
Print Assumptions C05_heap_execution.
Print Assumptions C05_heap_history.
Print Assumptions C05_frame.
Print Assumptions C05_private_scope.
Print Assumptions C05_inner_scope.
