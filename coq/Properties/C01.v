(** C01 - compiling any source text ends in a program or positioned errors (partial).
    What is proved here concerns the model's [compile] (Lexer/Literals/Parser/Macros) and the
    position arithmetic of [pos_for]; that [compile] accepts exactly what the real ANTLR parser
    accepts, with the same tree, is the correspondence run.  Not proved: a derivation relation
    for the grammar ([C01_accept_sound]) and that the parser's fuel always suffices
    ([C01_fuel_sufficient]) - out-of-fuel is a distinct outcome the run reports if it occurs. *)
From Coq Require Import String Ascii.
From Cel.Model Require Import Parser Position.
From Cel.Proofs Require Import ParserProofs.

(** [compile] is total with exactly these outcomes. *)
Theorem C01_total : forall src,
  (exists e, compile src = CExpr e) \/ compile src = CReject \/ compile src = COutOfFuel.
Proof. intros src. destruct (compile src); eauto. Qed.

(** The position computed for a byte offset (SourceInfo::pos_for, used for macro errors)
    exists for every offset inside the source and never points beyond it: the line is an
    existing line and the column lies within that line (its newline included). *)
Theorem C01_pos_in_source : forall src start,
  ((start < length src)%nat -> pos_for src start <> None) /\
  forall l c, pos_for src start = Some (l, c) ->
    (1 <= l <= length (split_inclusive src []))%nat /\
    exists piece, nth_error (split_inclusive src []) (l - 1) = Some piece /\
                  (1 <= c <= length piece)%nat.
Proof. exact pos_for_in_source. Qed.

(** Unknown characters: where no token rule can start, lexing fails (and [compile] rejects). *)
Theorem C01_unknown_char_rejected : forall c r,
  unknown_start c = true -> lex_one (c :: r) = None /\ compile (c :: r) = CReject.
Proof.
  intros c r H. pose proof (lex_one_unknown c r H) as E. split; [exact E|].
  unfold compile, lex. cbn [lex_fuel length]. now rewrite E.
Qed.

(** Unterminated literals: a one-quote string body that never closes does not lex. *)
Theorem C01_unterminated_literal_rejected : forall fuel q raw s n,
  ~ In q s -> scan_short fuel q raw s n = None.
Proof. exact scan_short_unterminated. Qed.

Example C01_ex_accept : exists e, compile $"1 + 2" = CExpr e.
Proof. eexists. vm_compute. reflexivity. Qed.
Example C01_ex_dangling : compile $"1 +" = CReject.
Proof. vm_compute. reflexivity. Qed.
Example C01_ex_unbalanced : compile $"(1 + 2" = CReject /\ compile $"f(1,)" = CReject.
Proof. split; vm_compute; reflexivity. Qed.
Example C01_ex_trailing : compile $"a b" = CReject.
Proof. vm_compute. reflexivity. Qed.
Example C01_ex_unknown : unknown_start 36 = true /\ compile $"a $ b" = CReject.
Proof. split; vm_compute; reflexivity. Qed.

Print Assumptions C01_total.
Print Assumptions C01_pos_in_source.
Print Assumptions C01_unknown_char_rejected.
Print Assumptions C01_unterminated_literal_rejected.
