(** C01 - compiling any source text ends in a program or positioned errors (partial).
    What is proved here concerns the model's [compile] (Lexer/Literals/Parser/Macros) and the
    position arithmetic of [pos_for]; that [compile] accepts exactly what the real ANTLR parser
    accepts, with the same tree, is the correspondence run.  The parser's fuel suffices on
    every input ([C01_fuel_sufficient]), so [compile] has two outcomes only and a rejection
    is the grammar's.  What [compile] accepts is derivable from the start rule of CEL.g4 stated
    as a derivation relation over tokens (Model/Grammar.v; [C01_accept_sound]), and every
    derivable token list has balanced brackets of each kind and ends in a closing token
    ([C01_accepted_shape]): unbalanced or dangling texts are never accepted.  Not proved:
    completeness for the whole grammar (C04 proves it for the operator grammar). *)
From Coq Require Import String Ascii.
From Cel.Model Require Import Parser Position.
From Cel.Model Require Import Grammar.
From Cel.Model Require Import Surface.
From Cel.Proofs Require Import ParserProofs LexerTotal ParserTotal ParserSound GrammarProps ParserFuel.

(** The fuel [compile] gives its parser (16 * (tokens + 2)) is enough for every token list
    and every source text: the out-of-fuel answer never occurs. *)
Theorem C01_fuel_sufficient : forall src ts,
  compile src <> COutOfFuel /\ parse_tokens ts <> COutOfFuel.
Proof. intros src ts. split; [apply compile_never_out_of_fuel|apply parse_never_out_of_fuel]. Qed.

(** A rejection is never an artefact of the model's fuel, in the lexer no more than in the
    parser: either the lexer, following its own steps ([reach]), arrives at a non-empty remainder
    at which no token, blank or comment starts, or the text lexes and the token list is not an
    expression followed by nothing. *)
Theorem C01_reject_genuine : forall src, compile src = CReject ->
  (exists suf, reach src suf /\ suf <> [] /\ lex_one suf = None) \/
  (exists ts, lex src = Some ts /\ parse_tokens ts = CReject).
Proof.
  intros src H. unfold compile in H. destruct (lex src) as [ts|] eqn:L.
  - right. exists ts. split; [reflexivity|exact H].
  - left. now apply lex_none_genuine.
Qed.

(** [compile] is total with exactly two outcomes: a program, or a rejection. *)
Theorem C01_total : forall src,
  (exists e, compile src = CExpr e) \/ compile src = CReject.
Proof.
  intros src. pose proof (compile_never_out_of_fuel src) as H.
  destruct (compile src); eauto. now elim H.
Qed.

(** Accepted texts are complete CEL expressions: the whole token list is derivable from
    [start : expr EOF] of the grammar. *)
Theorem C01_accept_sound : forall src e,
  compile src = CExpr e -> exists ts, lex src = Some ts /\ Gstart ts.
Proof. exact compile_sound. Qed.

(** ... and therefore never an unbalanced bracket, a dangling operator or nothing at all: in
    every accepted text each kind of bracket opens as often as it closes, the brackets are
    properly nested (every closer matches the most recent open bracket, [nested]), and the last
    token is a closing bracket, an identifier or a literal. *)
Theorem C01_accepted_shape : forall src e,
  compile src = CExpr e ->
  exists ts, lex src = Some ts /\ balanced ts /\ ends ts /\ ts <> [] /\ nested ts [] = true.
Proof.
  intros src e H. apply compile_sound in H as (ts & L & G). exists ts. split; [exact L|].
  destruct (derivable_shape ts G) as (B & E & N). repeat split; try assumption; try apply B.
  now apply derivable_nested.
Qed.

(** The relation is inhabited by everything C04's round trip covers: the minimal-parenthesis
    rendering of every well-formed surface tree is derivable (operators of all levels, prefix
    runs, conditionals, selections, indexing, calls, list and map literals, literals). *)
Theorem C01_trees_derivable : forall t, wf_st t -> Gstart (raw t).
Proof. intros t W. exact (parse_sound (raw t) (ast t) (parse_tokens_roundtrip t W)). Qed.

(** The position computed for a byte offset (SourceInfo::pos_for, used for macro errors)
    exists for every offset inside the source and never points beyond it: the line is an
    existing line and the column - counted in characters, as the columns of syntax errors
    are - lies within that line (its newline included) whenever the offset is where a character
    starts, which every token's offset is. *)
Theorem C01_pos_in_source : forall src start,
  ((start < length src)%nat -> pos_for src start <> None) /\
  forall l c, pos_for src start = Some (l, c) ->
    (1 <= l <= length (split_inclusive src []))%nat /\
    exists piece k, nth_error (split_inclusive src []) (l - 1) = Some piece /\ (k < length piece)%nat /\
                    (1 <= c <= nchars piece + 1)%nat /\
                    (is_cont (nth k piece 0%N) = false -> (c <= nchars piece)%nat).
Proof. exact pos_for_in_source. Qed.

(** Unknown characters: where no token rule can start, lexing fails (and [compile] rejects). *)
Theorem C01_unknown_char_rejected : forall c r,
  unknown_start c = true -> lex_one (c :: r) = None /\ compile (c :: r) = CReject.
Proof.
  intros c r H. pose proof (lex_one_unknown c r H) as E. split; [exact E|].
  unfold compile, lex. cbn [lex_fuel length]. now rewrite E.
Qed.

(** Unterminated literals: a one-quote string body that never closes does not lex. *)
Theorem C01_unterminated_literal_rejected : forall fuel q raw s n,
  ~ In q s -> scan_short fuel q raw s n = None.
Proof. exact scan_short_unterminated. Qed.

Example C01_ex_accept : exists e, compile $"1 + 2" = CExpr e.
Proof. eexists. vm_compute. reflexivity. Qed.
Example C01_ex_derivable : Gstart [TInt $"1"; TPlus; TInt $"2"].
Proof.
  destruct (C01_accept_sound $"1 + 2" _ ltac:(vm_compute; reflexivity)) as (ts & L & G).
  vm_compute in L. now injection L as <-.
Qed.
Example C01_ex_dangling : compile $"1 +" = CReject.
Proof. vm_compute. reflexivity. Qed.
Example C01_ex_unbalanced : compile $"(1 + 2" = CReject /\ compile $"f(1,)" = CReject.
Proof. split; vm_compute; reflexivity. Qed.
Example C01_ex_trailing : compile $"a b" = CReject.
Proof. vm_compute. reflexivity. Qed.
Example C01_ex_unknown : unknown_start 36 = true /\ compile $"a $ b" = CReject.
Proof. split; vm_compute; reflexivity. Qed.

Print Assumptions C01_fuel_sufficient.
Print Assumptions C01_total.
Print Assumptions C01_reject_genuine.
Print Assumptions C01_accept_sound.
Print Assumptions C01_accepted_shape.
Print Assumptions C01_trees_derivable.
Print Assumptions C01_pos_in_source.
Print Assumptions C01_unknown_char_rejected.
Print Assumptions C01_unterminated_literal_rejected.
