(** C07 - each operand is evaluated at most once, left to right, in bounded work.
    The observable is the ordered log of host-function invocations (wall-clock is not modelled:
    the number of invocations stands in for it). *)
From Coq Require Import String.
From Cel.Model Require Import Eval.
From Cel.Model Require Import Parser.
From Cel.Proofs Require Import EvalBase NoCrash OrderProofs CostProofs CtxEquiv.
Open Scope nat_scope.

(** Without macros the number of host-function invocations of an execution is at most the
    number of call nodes of the program - for every context whose functions have extractor lists
    that touch each argument once (all built-ins do; [args_once]) - so work is linear in the
    program size, never exponential in the nesting depth.  With macros: [C07_cost_bound]. *)
Theorem C07_cost_bound_partial : forall e c, once_ctx c -> no_comp e -> loglen (eval c e) <= ncalls e.
Proof. exact loglen_linear. Qed.

(** With macros: the size of the program times the product of the sizes of the collections its
    nested comprehensions range over.  [cost B e] counts a comprehension as
    range + initial value + B * (condition + step) + result; the theorem holds for every
    invariant [P] of the contexts the program runs in that survives opening a scope and binding
    the program's own iteration / accumulator variables ([N]), provided every comprehension
    ranges over at most [B] items in every such context. *)
Theorem C07_cost_bound : forall (P : ctx -> Prop) (N : str -> Prop) (B : nat),
  (forall c, P c -> P (push c)) -> (forall c x v, P c -> N x -> P (define c x v)) ->
  (forall c, P c -> once_ctx c) ->
  forall e, ranges_le P N B e -> forall c, P c -> loglen (eval c e) <= cost B e.
Proof. exact cost_bound. Qed.

(** ... in particular, without any assumption on the context, when the ranges are list literals
    of at most [B] elements. *)
Theorem C07_cost_bound_literal : forall B e c,
  once_ctx c -> lit_ranges B e -> loglen (eval c e) <= cost B e.
Proof. exact cost_bound_literal. Qed.

Theorem C07_default_ctx_once : once_ctx default_ctx.
Proof. exact default_ctx_once. Qed.

(** KNOWN FINDING K02: the hypothesis [once_ctx] cannot be dropped.  A host function whose
    signature combines the all-arguments extractor with another extractor that has already
    resolved an argument (here va : (This, Arguments), called in function style) evaluates that
    argument again: a program with 2 call nodes and 3 invocations, in a context that is not
    [once_ctx].  The witness replayed on the implementation (`ta(tag(1, 1))`) logs tag 1 twice. *)
Theorem C07_once_refuted_for_mixed_arguments :
  exists c e, no_comp e /\ ncalls e = 2 /\ loglen (eval c e) = 3 /\ ~ once_ctx c.
Proof. exact once_refuted_for_mixed_arguments. Qed.

(** A call's log: whatever the outcome, it is the initial log (the receiver's), followed by
    logs of argument results - at most the arguments' total - and at most one invocation. *)
Theorem C07_call_order : forall name d this rs es log0, args_once (params d) = true ->
  loglen (call_fn name d this rs es log0) <= length log0 + length (logs_of rs) + 1.
Proof. exact call_fn_loglen. Qed.

Theorem C07_args_logged_in_order : forall ps, args_once ps = true ->
  forall this rs es acc log o l,
  extract ps this rs es 0 acc log = (o, l) ->
  exists used, l = log ++ used /\ length used <= length (logs_of rs).
Proof. exact extract_log_once. Qed.

(** Strict binary operators: left operand, then right operand; a left error stops there. *)
Theorem C07_binop_order : forall c f o a b va la vb lb,
  binop_of_name f = Some o -> o <> BOr -> o <> BAnd ->
  eval c a = (Ok va, la) -> eval c b = (Ok vb, lb) ->
  eval c (ECall f None [a; b]) = (strict_binop o va vb, la ++ lb).
Proof. exact binop_order. Qed.

Theorem C07_binop_left_error : forall c f o a b x la,
  binop_of_name f = Some o -> eval c a = (Err x, la) ->
  eval c (ECall f None [a; b]) = (Err x, la).
Proof. exact binop_left_error. Qed.

(** List elements are evaluated in source order, each once. *)
Theorem C07_list_order : forall c es (rs : list (value * list event)),
  Forall2 (fun e r => eval c e = (Ok (fst r), snd r)) es rs ->
  eval c (EList es) = (Ok (VList (map fst rs)), concat (map snd rs)).
Proof. exact list_order. Qed.

(** Non-vacuity: a chain f(f(f(x))) logs exactly three invocations. *)
Definition fctx : ctx := add_function default_ctx $"f" {| params := [XArg TyValue]; body := FHost (HArg 0) |}.
Definition ff (e : expr) : expr := ECall $"f" None [e].
Example C07_ex_chain : loglen (eval fctx (ff (ff (ff (ELit (VInt 1)))))) = 3.
Proof. reflexivity. Qed.
Example C07_ex_once : once_ctx fctx.
Proof. constructor; [reflexivity|exact default_ctx_once]. Qed.

(** Non-vacuity with a range held by a context variable: xs.all(x, xs.exists(y, f(x, y))) over
    any context binding xs to a list of at most 3 elements makes at most cost 3 = 42 invocations
    (the bound counts the operator nodes of the two expansions as well; f itself is reached at
    most 3 * 3 times) - quadratic in the range, not exponential in the nesting. *)
Definition nested_prog : expr :=
  match compile $"xs.all(x, xs.exists(y, f(x, y)))" with CExpr e => e | _ => EUnspec end.
Definition xs_inv (c : ctx) : Prop :=
  once_ctx c /\ exists l, lookup c $"xs" = Ok (VList l) /\ length l <= 3.
Example C07_ex_nested : forall c, xs_inv c -> loglen (eval c nested_prog) <= 42.
Proof.
  intros c Hc. change 42 with (cost 3 nested_prog).
  apply (C07_cost_bound xs_inv (fun x => str_eqb $"xs" x = false) 3); [| | | |exact Hc].
  - intros c0 (H1 & l & H2 & H3). split; [exact H1|]. exists l. now rewrite lookup_push.
  - intros c0 x v (H1 & l & H2 & H3) Hx. split; [exact H1|]. exists l. now rewrite lookup_define_other.
  - intros c0 [H _]. exact H.
  - assert (R : forall d, xs_inv d ->
                match fst (eval d (EIdent $"xs")) with
                | Ok v => match range_items v with Some its => length its <= 3 | None => True end
                | _ => True
                end).
    { intros d (_ & l & H2 & H3). rewrite eval_ident. cbn [fst]. rewrite H2. exact H3. }
    set (p := nested_prog). vm_compute in p. subst p. cbn [ranges_le]. repeat split; try reflexivity; exact R.
Qed.

Print Assumptions C07_cost_bound.
Print Assumptions C07_cost_bound_literal.
Print Assumptions C07_cost_bound_partial.
Print Assumptions C07_default_ctx_once.
Print Assumptions C07_once_refuted_for_mixed_arguments.
Print Assumptions C07_call_order.
Print Assumptions C07_args_logged_in_order.
Print Assumptions C07_binop_order.
Print Assumptions C07_binop_left_error.
Print Assumptions C07_list_order.
