(** C18 - exporting a CEL value to JSON is total and faithful. *)
From Coq Require Import String Ascii.
From Cel.Model Require Import Json.
From Cel.Proofs Require Import SerdeProofs JsonProofs.
Open Scope Z_scope.

(** Export never panics, succeeds on every value without a function value or an oversized
    duration, and returns an error on every other value. *)
Theorem C18_no_crash : forall v, match json_of_value v with Crash _ => False | _ => True end.
Proof. exact json_nocrash. Qed.

Theorem C18_total : forall v,
  if exportable v then exists j, json_of_value v = Ok j else exists c, json_of_value v = Err c.
Proof. exact export_decided. Qed.

(** The exported document corresponds structurally ([JExp]): lists -> arrays, maps -> objects
    keyed by the key's text, bytes -> base64, timestamps -> RFC 3339 text, durations -> their
    nanosecond count, non-finite doubles -> null. *)
Theorem C18_structure : forall v j, json_of_value v = Ok j -> JExp v j.
Proof. exact json_structure. Qed.

(** With text-distinct keys the object is exactly the list of (text, document) pairs. *)
Theorem C18_distinct_keys : forall tjs, str_distinct (map fst tjs) = true -> jset_all tjs [] = tjs.
Proof. intros tjs H. exact (jset_all_distinct tjs [] H). Qed.

(** base64 loses nothing. *)
Theorem C18_base64_faithful : forall b, Forall (fun x => (x < 256)%N) b -> unbase64 (base64 b) = Some b.
Proof. exact base64_roundtrip. Qed.

(** Import after export: for JSON-native values with text-distinct keys the imported value
    equals the original. *)
Theorem C18_import_export : forall v, json_native v = true ->
  exists j v', json_of_value v = Ok j /\ to_value (sdata_of_json j) = Ok v' /\ v_eq v' v = true.
Proof. exact import_export. Qed.

Example C18_ex :
  json_of_value (VMap [(KInt 1, VBytes [104; 105]%N); (KStr $"d", VDur 1500)]) =
    Ok (JObj [($"1", JStr $"aGk="); ($"d", JInt 1500)]) /\
  json_of_value (VList [VDur 9223372036854775808]) = Err EOverflow /\
  json_of_value (VList [VFun $"f" None]) = Err EInvalid /\
  json_native (VMap [(KStr $"a", VList [VInt 1; VNull])]) = true.
Proof. vm_compute. repeat split; reflexivity. Qed.

Print Assumptions C18_no_crash.
Print Assumptions C18_total.
Print Assumptions C18_structure.
Print Assumptions C18_distinct_keys.
Print Assumptions C18_base64_faithful.
Print Assumptions C18_import_export.
