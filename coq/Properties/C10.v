(** C10 - the comprehension macros compute their defining folds.
    [expand_*] (Model/Macros.v) are the expressions the real parser produces for the macro
    calls (tied to the parser by the correspondence run); [eval] is the evaluator.  Each theorem
    says: evaluating the expansion = evaluating the range once, then the readable fold [*_spec]
    over its elements (for a map: its keys, in iteration order), where the body is evaluated in
    the enclosing context extended with the iteration variable (innermost) and the hidden
    accumulator.  The folds visit elements left to right, concatenate the host-call logs of
    exactly the visited elements, abort at the first error reached and stop at the deciding
    element.  The only hypothesis is that the iteration variable is not the hidden accumulator
    name "@result" (which the lexer cannot produce as an identifier). *)
From Coq Require Import String.
From Cel.Model Require Import Eval Macros.
From Cel.Proofs Require Import EvalBase CtxEquiv LogicProofs MacroProofs.

Theorem C10_all : forall c r x p, str_eqb x accu = false ->
  eval c (expand_all r x p) =
  rbind (eval c r) (fun vr =>
    match range_items vr with
    | None => ret (Err EInvalid)
    | Some items => all_spec (fun it => eval (bind c (VBool true) x it) p) items
    end).
Proof. exact all_correct. Qed.

Theorem C10_exists : forall c r x p, str_eqb x accu = false ->
  eval c (expand_exists r x p) =
  rbind (eval c r) (fun vr =>
    match range_items vr with
    | None => ret (Err EInvalid)
    | Some items => exists_spec (fun acc it => eval (bind c acc x it) p) items (VBool false)
    end).
Proof. exact exists_correct. Qed.

(** exists_one / existsOne (both spellings expand identically: [find_expander]): true iff
    exactly one element satisfies the body; every element is visited.  (The [else] branch is the
    unreachable case of a list longer than i64::MAX.) *)
Theorem C10_exists_one : forall c r x p, str_eqb x accu = false ->
  eval c (expand_exists_one r x p) =
  rbind (eval c r) (fun vr =>
    match range_items vr with
    | None => ret (Err EInvalid)
    | Some items =>
        if (Z.of_nat (length items) <=? i64_max)%Z
        then exists_one_spec (fun acc it => eval (bind c acc x it) p) items
        else gfold (fun _ => true) (fun acc it => eval (bind c acc x it) (one_step p)) one_res
                   items (VInt 0) []
    end).
Proof. exact exists_one_correct. Qed.

(** map with two and with three arguments (optional pre-filter). *)
Theorem C10_map : forall c r x flt f, str_eqb x accu = false ->
  eval c (expand_map r x flt f) =
  rbind (eval c r) (fun vr =>
    match range_items vr with
    | None => ret (Err EInvalid)
    | Some items =>
        map_spec (option_map (fun p a it => eval (bind c a x it) p) flt)
                 (fun a it => eval (bind c a x it) f) items []
    end).
Proof. exact map_correct. Qed.

Theorem C10_filter : forall c r x p, str_eqb x accu = false ->
  eval c (expand_filter r x p) =
  rbind (eval c r) (fun vr =>
    match range_items vr with
    | None => ret (Err EInvalid)
    | Some items =>
        map_spec (Some (fun a it => eval (bind c a x it) p)) (fun a it => (Ok it, [])) items []
    end).
Proof. exact filter_correct. Qed.

(** For bodies that are pure boolean predicates the folds are the textbook functions. *)
Theorem C10_pure_bodies : forall (f : value -> bool) (g : value -> value) items,
  (forall body, (forall it, In it items -> body it = (Ok (VBool (f it)), [])) ->
     all_spec body items = (Ok (VBool (forallb f items)), [])) /\
  (forall body, (forall acc it, In it items -> body acc it = (Ok (VBool (f it)), [])) ->
     exists_spec body items (VBool false) = (Ok (VBool (existsb f items)), []) /\
     exists_one_spec body items = (Ok (VBool (Z.of_nat (length (filter f items)) =? 1)%Z), []) /\
     map_spec (Some body) (fun a it => (Ok it, [])) items [] = (Ok (VList (filter f items)), [])) /\
  (forall body, (forall a it, In it items -> body a it = (Ok (g it), [])) ->
     map_spec None body items [] = (Ok (VList (map g items)), [])).
Proof.
  intros f g items. split; [|split].
  - intros body H. now apply all_spec_pure.
  - intros body H. split; [now apply exists_spec_pure|split].
    + unfold exists_one_spec. rewrite (count_spec_pure f body items 0 H). reflexivity.
    + now rewrite (filter_spec_pure f body items [] H).
  - intros body H. now rewrite (map_spec_pure g body items [] H).
Qed.

(** Elements after the deciding one are not visited. *)
Theorem C10_all_stops : forall body pre d post l,
  (forall it, In it pre -> exists v lg, body it = (Ok v, lg) /\ to_bool v = true) ->
  body d = (Ok (VBool false), l) ->
  all_spec body (pre ++ d :: post) = all_spec body (pre ++ [d]).
Proof. exact all_stops. Qed.

(** Non-vacuity. *)
Definition gt1 : expr := ECall $"_>_" None [EIdent $"x"; ELit (VInt 1)].
Definition l123 : expr := EList [ELit (VInt 1); ELit (VInt 2); ELit (VInt 3)].
Example C10_ex_all : eval default_ctx (expand_all l123 $"x" gt1) = (Ok (VBool false), []).
Proof. reflexivity. Qed.
Example C10_ex_exists : eval default_ctx (expand_exists l123 $"x" gt1) = (Ok (VBool true), []).
Proof. reflexivity. Qed.
Example C10_ex_one : eval default_ctx (expand_exists_one l123 $"x" gt1) = (Ok (VBool false), []).
Proof. reflexivity. Qed.
Example C10_ex_filter : eval default_ctx (expand_filter l123 $"x" gt1) = (Ok (VList [VInt 2; VInt 3]), []).
Proof. reflexivity. Qed.
Example C10_ex_hyp : str_eqb $"x" accu = false.
Proof. reflexivity. Qed.

Print Assumptions C10_all.
Print Assumptions C10_exists.
Print Assumptions C10_exists_one.
Print Assumptions C10_map.
Print Assumptions C10_filter.
Print Assumptions C10_pure_bodies.
Print Assumptions C10_all_stops.
