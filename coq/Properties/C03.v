(** C03 - evaluation of the core language agrees with the reference semantics.

    [Spec.sem] is the reference semantics (a direct structural evaluator over the surface
    syntax [texpr]); [Spec.lower] is the AST the parser produces for a surface term (checked on
    every case of the correspondence run: the model compiles the source text itself and compares);
    [Spec.type_of] is the typing discipline: booleans where the language branches on them
    (operands of && || ! ?:, macro predicates), strings as receivers of startsWith / endsWith,
    typed iteration variables, and [TyAny] for what may be null (an index, a field selection). *)
From Coq Require Import String.
From Cel.Model Require Import Spec.
From Cel.Proofs Require Import EvalBase NoCrash SpecProofs.

(** For every well-typed term, every environment of that typing and every context holding the
    standard functions: executing the parser's AST yields exactly the value, or the error class,
    the reference semantics prescribe (and calls no host function). *)
Theorem C03_refines : forall G t τ c,
  type_of G t = Some τ -> env_ok G (env_of c) -> funs c = default_funs ->
  eval c (lower t) = (sem (env_of c) t, []).
Proof.
  intros G t τ c Ht He Hf. exact (eval_refines t G τ c (env_of c) Ht He (rel_env_of c) Hf).
Qed.

(** The reference semantics preserve types: a value it returns has the term's type (so the
    typing hypotheses of the rules above are met at every nested position). *)
Theorem C03_type_preservation : forall t G τ ρ v,
  type_of G t = Some τ -> env_ok G ρ -> sem ρ t = Ok v -> vtyped v τ.
Proof. exact sem_preserves. Qed.

(** It never "crashes" on a well-typed term: the outcome is a value or an error. *)
Theorem C03_sem_no_crash : forall G t τ c,
  type_of G t = Some τ -> env_ok G (env_of c) -> funs c = default_funs ->
  forall s, sem (env_of c) t <> Crash s.
Proof.
  intros G t τ c Ht He Hf s Hs.
  assert (W : wf_ctx c) by (unfold wf_ctx; rewrite Hf; exact default_ctx_wf).
  apply (eval_nocrash (lower t) c W (lower_no_unspec t) s).
  now rewrite (C03_refines G t τ c Ht He Hf), Hs.
Qed.

(** The hypotheses are met by concrete programs, one per construct family. *)
Definition ex_env : ctx :=
  {| funs := default_funs;
     scopes := [[($"l", VList [VInt 1; VInt 2; VInt 3]); ($"m", VMap [(KStr $"a", VInt 1)]); ($"b", VBool true)]] |}.
Definition ex_tenv : tenv := [($"l", TyL TyI); ($"m", TyM TyS TyI); ($"b", TyB)].

Example C03_ex_typed :
  env_okb ex_tenv (env_of ex_env) = true /\
  (* l.all(x, x > 0) && (b ? size(l) == 3 : false) *)
  (let t := TAnd (TAll $"x" (TVar $"l") (TBin BGt (TVar $"x") (TLit (VInt 0))))
                 (TCond (TVar $"b") (TBin BEq (TCall SSize false [TVar $"l"]) (TLit (VInt 3))) (TLit (VBool false))) in
   type_of ex_tenv t = Some TyB /\ sem (env_of ex_env) t = Ok (VBool true)) /\
  (* l.map(x, x * 2)[5] is null; has(m.a); 1 / 0 is a division error; l.exists_one(x, x == 2) *)
  sem (env_of ex_env) (TBin BIndex (TMapM $"x" (TVar $"l") None (TBin BMul (TVar $"x") (TLit (VInt 2)))) (TLit (VInt 5))) = Ok VNull /\
  sem (env_of ex_env) (THas (TVar $"m") $"a") = Ok (VBool true) /\
  sem (env_of ex_env) (TBin BDiv (TLit (VInt 1)) (TLit (VInt 0))) = Err EDivZero /\
  sem (env_of ex_env) (TExistsOne $"x" (TVar $"l") (TBin BEq (TVar $"x") (TLit (VInt 2)))) = Ok (VBool true).
Proof. vm_compute. repeat split; reflexivity. Qed.

Print Assumptions C03_refines.
Print Assumptions C03_type_preservation.
Print Assumptions C03_sem_no_crash.
