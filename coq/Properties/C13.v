(** C13 - numeric literals and conversions preserve the number or fail.
    Proved about the model (Literals / Builtins / FloatText).  Double literals and the text of
    doubles are the correctly rounded conversions [f64_of_decimal] (SpecFloat's rounding, trusted)
    and the shortest-digit search [f64_to_text]; their agreement with Rust's parser and Display
    is the correspondence run, and the double round trip through text is not a theorem
    ([C13_string_roundtrip_double_partial] is stated for the cases evaluated). *)
From Coq Require Import String Ascii.
From Cel.Model Require Import Builtins.
From Cel.Proofs Require Import LiteralProofs NumericProofs.
Open Scope Z_scope.

(** Every decimal int literal within range evaluates to exactly the number it denotes
    (the most negative int included: the sign is part of the literal); a literal evaluates to
    a value only if that value is in range. *)
Theorem C13_int_literal : forall z, in_i64 z = true ->
  int_literal (z <? 0) (nat_digits (Z.abs z)) = Some z.
Proof. exact int_literal_dec. Qed.

Theorem C13_int_literal_range : forall neg t z, int_literal neg t = Some z -> in_i64 z = true.
Proof. exact int_literal_range. Qed.

Theorem C13_int_literal_hex : forall upper n v neg, (v < 16 ^ N.of_nat n)%N ->
  int_literal neg (48%N :: ch "x" :: hexd upper n v) =
  let z := if neg then - Z.of_N v else Z.of_N v in if in_i64 z then Some z else None.
Proof. exact int_literal_hex. Qed.

Theorem C13_uint_literal : forall u sfx, in_u64 u = true ->
  uint_literal (nat_digits u ++ [sfx]) = Some u.
Proof. exact uint_literal_dec. Qed.

(** int(double) and uint(double): truncation toward zero, or an error when the argument is
    NaN, infinite or outside the target range. *)
Theorem C13_int_of_double : forall f,
  b_int (VDbl f) = match trunc_Z f with
                   | Some z => if in_i64 z then Ok (VInt z) else Err EInvalid
                   | None => Err EInvalid
                   end /\
  (is_finite f = false -> b_int (VDbl f) = Err EInvalid /\ b_uint (VDbl f) = Err EInvalid) /\
  (forall u, b_uint (VDbl f) = Ok (VUInt u) -> trunc_Z f = Some u /\ in_u64 u = true /\ f_nonneg f = true).
Proof.
  intros f. split; [apply int_of_double|split; [apply int_of_double_nonfinite|apply uint_of_double]].
Qed.

(** [trunc_Z] is truncation toward zero of the exact value m * 2^e. *)
Theorem C13_trunc_toward_zero : forall f z, trunc_Z f = Some z ->
  match f with
  | S754_zero _ => z = 0
  | S754_finite s m e =>
      let a := Z.abs z in
      (if s then z <= 0 else 0 <= z) /\
      match e with
      | Z0 => a = Zpos m
      | Zpos p => a = Zpos m * 2 ^ Zpos p
      | Zneg p => a * 2 ^ Zpos p <= Zpos m < (a + 1) * 2 ^ Zpos p
      end
  | _ => False
  end.
Proof. exact trunc_Z_spec. Qed.

Theorem C13_int_uint : forall z,
  b_int (VUInt z) = (if z <=? i64_max then Ok (VInt z) else Err EInvalid) /\
  b_uint (VInt z) = (if 0 <=? z then Ok (VUInt z) else Err EInvalid) /\
  b_double (VInt z) = Ok (VDbl (f64_of_Z z)) /\ b_double (VUInt z) = Ok (VDbl (f64_of_Z z)).
Proof. exact int_uint_conv. Qed.

(** string() followed by the inverse conversion returns the original int, uint or string. *)
Theorem C13_string_roundtrip_int : forall z, in_i64 z = true ->
  (let! s := b_string (VInt z) in b_int s) = Ok (VInt z).
Proof. exact string_int_roundtrip. Qed.

Theorem C13_string_roundtrip_uint : forall u, in_u64 u = true ->
  (let! s := b_string (VUInt u) in b_uint s) = Ok (VUInt u).
Proof. exact string_uint_roundtrip. Qed.

Theorem C13_string_roundtrip_bytes : forall s, forallb is_scalar s = true ->
  (let! b := run_builtin FBytes [VStr s] in b_string b) = Ok (VStr s).
Proof. exact string_bytes_roundtrip. Qed.

(** double -> text -> double on evaluated cases (a test of the model, not the unbounded claim). *)
Definition dbl_rt (bits : Z) : bool :=
  let f := f64_of_bits bits in
  match parse_f64_text (f64_to_text f) with
  | Some g => bits_of_f64 g =? bits_of_f64 f
  | None => false
  end.
Theorem C13_string_roundtrip_double_partial :
  forallb dbl_rt [4607182418800017408; 4591870180066957722; 1; 9218868437227405311; 4890909195324358656;
                  4503599627370496; 13830554455654793216; 4621819117588971520; 4841369599423283200;
                  0; 9223372036854775808; 9218868437227405312; 4607182418800017409] = true.
Proof. vm_compute. reflexivity. Qed.

Example C13_ex_min : int_literal true $"9223372036854775808" = Some i64_min.
Proof. reflexivity. Qed.
Example C13_ex_out : int_literal false $"9223372036854775808" = None /\ uint_literal $"18446744073709551616u" = None.
Proof. split; reflexivity. Qed.
Example C13_ex_conv : b_int (VDbl (f64_of_Z 9223372036854775808)) = Err EInvalid
                      /\ b_int (VDbl S754_nan) = Err EInvalid /\ b_uint (VDbl (S754_infinity false)) = Err EInvalid.
Proof. repeat split. Qed.

Print Assumptions C13_int_literal.
Print Assumptions C13_int_literal_range.
Print Assumptions C13_int_literal_hex.
Print Assumptions C13_uint_literal.
Print Assumptions C13_int_of_double.
Print Assumptions C13_trunc_toward_zero.
Print Assumptions C13_int_uint.
Print Assumptions C13_string_roundtrip_int.
Print Assumptions C13_string_roundtrip_uint.
Print Assumptions C13_string_roundtrip_bytes.
Print Assumptions C13_string_roundtrip_double_partial.
