(** C14 - list, map and string operations agree with one another. *)
From Coq Require Import String.
From Cel.Model Require Import Eval.
From Cel.Proofs Require Import EvalBase CompareProofs ContainerProofs.

(** Indexing a list with an in-range int returns that element and yields null out of range
    (negative, >= length, the i64 extremes) - never an error or a crash. *)
Theorem C14_index_list : forall l i,
  v_index (VList l) (VInt i) =
  Ok (if (0 <=? i)%Z && (i <? Z.of_nat (length l))%Z then nth (Z.to_nat i) l VNull else VNull).
Proof. exact index_list. Qed.

(** A map literal with pairwise distinct keys contains exactly the entries written. *)
Theorem C14_map_literal : forall c entries, distinct_from [] (map fst entries) = true ->
  eval c (EMap (map lit_entry entries)) = (Ok (VMap entries), []).
Proof. exact map_literal. Qed.

(** For every map m (with non-null values) and key k the ways of asking about k agree on
    [present k m], which looks k up treating numerically equal int and uint keys as the same
    key ([map_get]). *)
Theorem C14_presence_agree : forall k m, no_null_values m ->
  v_in (value_of_key k) (VMap m) = Ok (VBool (present k m)) /\
  b_contains (VMap m) (value_of_key k) = Ok (VBool (present k m)) /\
  exists v, v_index (VMap m) (value_of_key k) = Ok v /\ (present k m = true <-> v <> VNull).
Proof.
  intros k m H. split; [apply presence_in|split; [apply presence_contains|now apply presence_index]].
Qed.

(** ... and for identifier-like string keys so do has(m.k) and m.k (where an absent key shows
    as the no-such-key error, or as a function value when k names a registered function). *)
Theorem C14_presence_select : forall c m s, ident_like s = true ->
  has_field (VMap m) s = present (KStr s) m /\
  match member c (VMap m) s with
  | Ok (VFun _ _) | Err ENoKey =>
      present (KStr s) m = false \/ exists n r, assoc_get (KStr s) m = Some (VFun n r)
  | Ok v => map_get (KStr s) m = Some v
  | _ => False
  end.
Proof. exact presence_select. Qed.

(** size is additive over + for lists and strings; concatenation preserves element order;
    the operands are values and cannot change. *)
Theorem C14_size_additive : forall (a b : list value) (s t : str),
  (let! x := v_add (VList a) (VList b) in b_size x) = Ok (VInt (Z.of_nat (length a) + Z.of_nat (length b))) /\
  (let! x := v_add (VStr s) (VStr t) in b_size x) = Ok (VInt (Z.of_N (utf8_len s) + Z.of_N (utf8_len t))).
Proof. intros. split; [apply size_additive_list|apply size_additive_str]. Qed.

Theorem C14_concat_order : forall (a b : list value) (s t : str),
  v_add (VList a) (VList b) = Ok (VList (a ++ b)) /\ v_add (VStr s) (VStr t) = Ok (VStr (s ++ t)).
Proof. intros; split; reflexivity. Qed.

(** x in l holds iff some element of l equals x. *)
Theorem C14_in_list : forall x l, v_in x (VList l) = Ok (VBool (existsb (fun e => v_eq e x) l)).
Proof. exact in_list. Qed.

Example C14_ex_twin : present (KUint 1) [(KInt 1, VInt 0)] = true.
Proof. reflexivity. Qed.
Example C14_ex_nn : no_null_values [(KInt 1, VInt 0)].
Proof.
  intros k v. unfold map_get. cbn.
  destruct k; cbn; repeat match goal with |- context [if ?b then _ else _] => destruct b end;
    intros [= <-] || discriminate; discriminate.
Qed.
Example C14_ex_ident : ident_like $"abc" = true /\ ident_like $"true" = false.
Proof. split; reflexivity. Qed.

Print Assumptions C14_index_list.
Print Assumptions C14_map_literal.
Print Assumptions C14_presence_agree.
Print Assumptions C14_presence_select.
Print Assumptions C14_size_additive.
Print Assumptions C14_concat_order.
Print Assumptions C14_in_list.
