(** C06 - logical operators and the conditional evaluate only what they need. *)
From Coq Require Import String.
From Cel.Model Require Import Eval.
From Cel.Proofs Require Import EvalBase LogicProofs.

(** [a && b] does not evaluate [b] when [a] is false: the result and the log of host calls
    are those of [a] alone, whatever [b] is (an erroring or logging [b] leaves no trace).
    All statements quantify over every context and every operand expression, hence hold at
    every nesting depth and inside macro bodies (which are evaluated by the same [eval]). *)
Theorem C06_and_skips : forall c a b va la,
  eval c a = (Ok va, la) -> to_bool va = false ->
  eval c (e_and a b) = (Ok (VBool false), la).
Proof. exact and_skips. Qed.

Theorem C06_or_skips : forall c a b va la,
  eval c a = (Ok va, la) -> to_bool va = true ->
  eval c (e_or a b) = (Ok va, la).
Proof. exact or_skips. Qed.

(** The conditional evaluates the condition and exactly one branch. *)
Theorem C06_cond_one : forall c cnd x y vc lc,
  eval c cnd = (Ok vc, lc) ->
  eval c (e_cond cnd x y) =
  let '(r, l) := eval c (if to_bool vc then x else y) in (r, lc ++ l).
Proof. exact cond_one. Qed.

(** When the left operand decides nothing, the right operand is evaluated once, after it. *)
Theorem C06_and_continues : forall c a b va la,
  eval c a = (Ok va, la) -> to_bool va = true ->
  eval c (e_and a b) =
  match eval c b with
  | (Ok vb, lb) => (Ok (VBool (to_bool vb)), la ++ lb)
  | (Err x, lb) => (Err x, la ++ lb)
  | (Crash s, lb) => (Crash s, la ++ lb)
  end.
Proof. exact and_continues. Qed.

Theorem C06_or_continues : forall c a b va la,
  eval c a = (Ok va, la) -> to_bool va = false ->
  eval c (e_or a b) = let '(r, lb) := eval c b in (r, la ++ lb).
Proof. exact or_continues. Qed.

(** An error in the first operand aborts with that error and its log. *)
Theorem C06_err_left : forall c a b x la,
  eval c a = (Err x, la) ->
  eval c (e_and a b) = (Err x, la) /\ eval c (e_or a b) = (Err x, la) /\
  (forall y, eval c (e_cond a b y) = (Err x, la)).
Proof. exact err_left. Qed.

Theorem C06_no_event_from_skipped : forall c a b va la ev,
  eval c a = (Ok va, la) -> ~ In ev la ->
  (to_bool va = false -> ~ In ev (snd (eval c (e_and a b)))) /\
  (to_bool va = true -> ~ In ev (snd (eval c (e_or a b)))).
Proof.
  intros c a b va la ev Ha Hn. split; intros H.
  - exact (no_event_from_skipped_and c a b va la ev Ha H Hn).
  - exact (no_event_from_skipped_or c a b va la ev Ha H Hn).
Qed.

(** Non-vacuity: a skipped operand that would fail, and one that would call a host function. *)
Definition boom : expr := ECall $"_/_" None [ELit (VInt 1); ELit (VInt 0)].
Example C06_ex_and : eval default_ctx (e_and (ELit (VBool false)) boom) = (Ok (VBool false), []).
Proof. reflexivity. Qed.
Example C06_ex_or : eval default_ctx (e_or (ELit (VBool true)) boom) = (Ok (VBool true), []).
Proof. reflexivity. Qed.
Example C06_ex_cond : eval default_ctx (e_cond (ELit (VBool true)) (ELit (VInt 1)) boom) = (Ok (VInt 1), []).
Proof. reflexivity. Qed.
Example C06_ex_boom : eval default_ctx boom = (Err EDivZero, []).
Proof. reflexivity. Qed.
Definition logctx : ctx :=
  add_function default_ctx $"f" {| params := [XArg TyValue]; body := FHost (HArg 0) |}.
Definition callf : expr := ECall $"f" None [ELit (VBool true)].
Example C06_ex_log : eval logctx callf = (Ok (VBool true), [Called $"f" [VBool true]]).
Proof. reflexivity. Qed.
Example C06_ex_log_skipped : eval logctx (e_or (ELit (VBool true)) callf) = (Ok (VBool true), []).
Proof. reflexivity. Qed.

Print Assumptions C06_and_skips.
Print Assumptions C06_or_skips.
Print Assumptions C06_cond_one.
Print Assumptions C06_and_continues.
Print Assumptions C06_or_continues.
Print Assumptions C06_err_left.
Print Assumptions C06_no_event_from_skipped.
