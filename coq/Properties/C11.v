(** C11 - variables resolve to the innermost binding and scopes never leak. *)
From Coq Require Import String.
From Cel.Model Require Import Eval Macros.
From Cel.Proofs Require Import EvalBase CtxEquiv MacroProofs ContextProofs.

(** A lookup returns the value from the innermost scope that defines the name (and within a
    scope the latest definition wins); it fails exactly when no scope defines it. *)
Theorem C11_lookup_innermost : forall x ss v,
  lookup_scopes x ss = Some v <->
  exists pre s post, ss = pre ++ s :: post /\
                     (forall s', In s' pre -> str_assoc x s' = None) /\ str_assoc x s = Some v.
Proof. exact lookup_innermost. Qed.

Theorem C11_redefine_latest : forall c x v w y,
  lookup (define (define c x v) x w) x = Ok w /\
  (str_eqb y x = false -> lookup (define c x v) y = lookup c y).
Proof.
  intros. split; [apply lookup_scopes_define_same|apply lookup_define_other].
Qed.

Theorem C11_undefined : forall x ss,
  lookup_scopes x ss = None <-> forall s, In s ss -> str_assoc x s = None.
Proof. exact lookup_none. Qed.

(** Inner scopes never alter their parents, for every sequence of define / open / drop /
    lookup operations (a drop of the base scope is not expressible and ignored). *)
Theorem C11_inner_preserves_outer : forall ops d c outs base inner,
  length inner = S d -> scopes c = inner ++ base ->
  let '(d', c', _) := fold_left run_cop ops (d, c, outs) in
  exists inner', length inner' = S d' /\ scopes c' = inner' ++ base /\ funs c' = funs c.
Proof. exact run_preserves_base. Qed.

Theorem C11_pop_push : forall c, pop (push c) = c.
Proof. exact pop_push. Qed.

(** A variable may share its name with a function without either hiding the other. *)
Theorem C11_fun_var_independent : forall c x v f d,
  get_function (define c x v) f = get_function c f /\
  lookup (add_function c f d) x = lookup c x /\
  get_function (push c) f = get_function c f.
Proof. exact fun_var_independent. Qed.

(** Inside a macro body (the context [bind] of C10's theorems) the iteration variable denotes
    the current element and shadows any outer variable of that name; all other names resolve
    as outside. *)
Theorem C11_iter_shadows : forall c acc x it, str_eqb x accu = false ->
  lookup (bind c acc x it) x = Ok it /\
  forall y, str_eqb y x = false -> str_eqb y accu = false -> lookup (bind c acc x it) y = lookup c y.
Proof. exact body_scope. Qed.

(** Outside the body the outer binding, or its absence, is unchanged: a lookup evaluated
    after any expression [m] (in particular a macro binding the same name) in the same context
    is the lookup in that context. *)
Theorem C11_no_leak : forall c m x,
  eval c (EList [m; EIdent x]) =
  match eval c m with
  | (Ok v, l) => (match lookup c x with
                  | Ok w => Ok (VList [v; w])
                  | Err e => Err e
                  | Crash s => Crash s
                  end, l)
  | (Err e, l) => (Err e, l)
  | (Crash s, l) => (Crash s, l)
  end.
Proof. exact after_macro. Qed.

(** Non-vacuity. *)
Definition cx : ctx := define (push (define default_ctx $"x" (VInt 1))) $"x" (VInt 2).
Example C11_ex_inner : lookup cx $"x" = Ok (VInt 2).
Proof. reflexivity. Qed.
Example C11_ex_outer : lookup (pop cx) $"x" = Ok (VInt 1).
Proof. reflexivity. Qed.
Example C11_ex_shadow :
  eval (define default_ctx $"x" (VInt 7))
       (EList [expand_map (EList [ELit (VInt 1)]) $"x" None (EIdent $"x"); EIdent $"x"])
  = (Ok (VList [VList [VInt 1]; VInt 7]), []).
Proof. reflexivity. Qed.

Print Assumptions C11_lookup_innermost.
Print Assumptions C11_redefine_latest.
Print Assumptions C11_undefined.
Print Assumptions C11_inner_preserves_outer.
Print Assumptions C11_pop_push.
Print Assumptions C11_fun_var_independent.
Print Assumptions C11_iter_shadows.
Print Assumptions C11_no_leak.
