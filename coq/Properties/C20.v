(** C20 - function calls bind receiver and arguments predictably. *)
From Coq Require Import String.
From Cel.Model Require Import Eval.
From Cel.Proofs Require Import EvalBase MacroProofs CallProofs.

(** For every function whose first parameter is the receiver ([This<T>]) and whose other
    parameters are positional - every receiver-style built-in - and every value-denoting
    receiver expression x: x.f(args) and f(x, args) evaluate identically (value, error, log),
    for all argument expressions. *)
Theorem C20_receiver_equiv : forall c f d t rest x vx args,
  plain_name f -> get_function c f = Some d -> params d = XThis t :: rest ->
  forallb positional rest = true -> eval c x = (Ok vx, []) ->
  eval c (ECall f (Some x) args) = eval c (ECall f None (x :: args)).
Proof. exact receiver_equiv. Qed.

(** The receiver-style built-ins of the default context have that shape. *)
Theorem C20_builtins_receiver_style :
  forallb (fun nd => match params (snd nd) with
                     | XThis _ :: rest => forallb positional rest
                     | _ => true
                     end) default_funs = true.
Proof. reflexivity. Qed.

(** A host function with positional parameters ts, called with argument values vs, is invoked
    iff there are at least as many arguments as parameters and each of the first |ts| arguments
    has its parameter's type - and then with exactly those values, in order (surplus arguments
    are ignored); otherwise the outcome is an error and no invocation event occurs. *)
Theorem C20_args_in_order : forall name ts h vs es log0,
  call_fn name {| params := map XArg ts; body := FHost h |} None (map okres vs) es log0 =
  match bind_positional ts vs with
  | Ok xs => (run_host h xs, log0 ++ [Called name xs])
  | Err c => (Err c, log0)
  | Crash s => (Crash s, log0)
  end.
Proof. exact host_args_in_order. Qed.

Theorem C20_bound_values : forall ts vs xs, bind_positional ts vs = Ok xs ->
  xs = firstn (length ts) vs /\ (length ts <= length vs)%nat /\
  Forall2 (fun t v => has_vty t v = true) ts xs.
Proof. exact bind_positional_spec. Qed.

Theorem C20_no_crash_on_bad_call : forall ts vs s, bind_positional ts vs <> Crash s.
Proof.
  induction ts as [|t ts IH]; intros vs s; cbn [bind_positional]; [discriminate|].
  destruct vs as [|v vs]; [discriminate|]. destruct (has_vty t v); [|discriminate].
  specialize (IH vs). destruct (bind_positional ts vs); try discriminate. intros H. exact (IH _ H).
Qed.

(** A host function registered under a built-in's name replaces it. *)
Theorem C20_override : forall c f d, get_function (add_function c f d) f = Some d.
Proof. exact override. Qed.

Example C20_ex_size :
  eval default_ctx (ECall $"size" (Some (ELit (VStr $"ab"))) []) =
  eval default_ctx (ECall $"size" None [ELit (VStr $"ab")]).
Proof. reflexivity. Qed.
Example C20_ex_plain : plain_name $"size".
Proof. repeat split. Qed.
Example C20_ex_missing :
  bind_positional [TyInt; TyStr] [VInt 1] = Err EArgCount /\
  bind_positional [TyInt; TyStr] [VInt 1; VInt 2] = Err EInvalid /\
  bind_positional [TyInt; TyStr] [VInt 1; VStr []; VNull] = Ok [VInt 1; VStr []].
Proof. repeat split. Qed.

Print Assumptions C20_receiver_equiv.
Print Assumptions C20_builtins_receiver_style.
Print Assumptions C20_args_in_order.
Print Assumptions C20_bound_values.
Print Assumptions C20_no_crash_on_bad_call.
Print Assumptions C20_override.
