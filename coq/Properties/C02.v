(** C02 - executing any program against any context returns a value or an error.
    [Crash] is how the model represents a panic of the real code (the [panic!("WAT?")] /
    [Expr::Unspecified] arms, and a function body called with values its extractors cannot have
    produced).  The theorems say no evaluation reaches it.  Panics inside library code that the
    model does not transcribe are only reachable through the correspondence run, which reports an
    implementation crash on any input as a failing input. *)
From Coq Require Import String.
From Cel.Model Require Import Eval.
From Cel.Proofs Require Import EvalBase NoCrash.

(** For every context whose function table is well formed (built-ins with the signatures of
    Context::default(), host functions of any arity and extractor list) - whatever its variables
    hold: i64/u64 extremes, NaN, infinities, durations and timestamps at chrono's limits,
    function values - and every expression the parser can produce, evaluation ends in a value
    or an error.  Termination is [eval] being a structural Fixpoint. *)
Theorem C02_eval_no_crash : forall e c, wf_ctx c -> no_unspec e -> forall s, fst (eval c e) <> Crash s.
Proof. exact eval_nocrash. Qed.

(** The same for the value operators applied directly to arbitrary values. *)
Theorem C02_binop_no_crash : forall a b,
  nocrash (v_add a b) /\ nocrash (v_sub a b) /\ nocrash (v_mul a b) /\ nocrash (v_div a b) /\
  nocrash (v_rem a b) /\ nocrash (v_neg a) /\
  nocrash (v_lt a b) /\ nocrash (v_le a b) /\ nocrash (v_gt a b) /\ nocrash (v_ge a b).
Proof.
  intros a b. pose proof (binop_nocrash a b) as (H1 & H2 & H3 & H4 & H5).
  pose proof (rel_nocrash a b) as (R1 & R2 & R3 & R4).
  repeat split; auto. apply neg_nocrash.
Qed.

(** A function body is only ever called with values of the shapes its extractors produce. *)
Theorem C02_function_bodies_total : forall name d this rs es log0, fdef_ok d ->
  Forall (fun r => nocrash (fst r)) rs -> nocrash (fst (call_fn name d this rs es log0)).
Proof. exact call_fn_nocrash. Qed.

(** The hypotheses are satisfiable: the default context, extended by host functions and
    variables, is well formed. *)
Theorem C02_default_ctx_wf :
  wf_ctx default_ctx /\
  (forall c x v, wf_ctx c -> wf_ctx (define c x v)) /\
  (forall c f ps h, wf_ctx c -> wf_ctx (add_function c f {| params := ps; body := FHost h |})).
Proof. split; [exact default_ctx_wf|split; [exact wf_define|exact wf_add_host]]. Qed.

Example C02_ex_struct : eval default_ctx (EStruct $"T" []) = (Err EInvalid, []).
Proof. reflexivity. Qed.
Example C02_ex_dmax : v_add (VDur dur_max_ns) (VDur dur_max_ns) = Err EOverflow.
Proof. reflexivity. Qed.
Example C02_ex_neg_min : v_neg (VInt i64_min) = Err EOverflow.
Proof. reflexivity. Qed.

Print Assumptions C02_eval_no_crash.
Print Assumptions C02_binop_no_crash.
Print Assumptions C02_function_bodies_total.
Print Assumptions C02_default_ctx_wf.
