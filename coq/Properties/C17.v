(** C17 - host data converts to CEL values without loss of structure. *)
From Coq Require Import String Ascii.
From Cel.Model Require Import Json.
From Cel.Proofs Require Import SerdeProofs JsonProofs.
Open Scope Z_scope.

(** Conversion never panics: for every value of the serde data model the outcome is a value
    or an error. *)
Theorem C17_no_crash : forall d, match to_value d with Crash _ => False | _ => True end.
Proof. exact to_value_nocrash. Qed.

(** When it succeeds the result is the value of the same shape ([Conv]: signed integers -> int,
    unsigned -> uint, sequences/tuples -> lists, structs/maps -> maps keyed by field name / key,
    data-carrying variants -> single-entry maps, the wrappers -> duration / timestamp). *)
Theorem C17_shape : forall d v, to_value d = Ok v -> Conv d v.
Proof. exact to_value_conv. Qed.

(** The map a struct / map conversion builds has distinct keys, exactly the converted keys, and
    the last binding of a key wins (HashMap::insert). *)
Theorem C17_map_semantics : forall kvs : list (key * value),
  NoDup (map fst (set_all kvs [])) /\
  (forall k, assoc_get k (set_all kvs []) = assoc_get k (rev kvs)) /\
  (forall k, In k (map fst (set_all kvs [])) <-> In k (map fst kvs)).
Proof. exact (@set_all_semantics value). Qed.

(** Key kinds: bool, integers, char, string, unit variants (through Some / newtypes); every other
    kind is refused, and a map converts only if all its keys are of a supported kind. *)
Theorem C17_key_kinds : forall d,
  match d with
  | SBool b => key_ser d = Ok (KBool b)
  | SInt z => key_ser d = Ok (KInt z)
  | SUint z => key_ser d = Ok (KUint z)
  | SChar c => key_ser d = Ok (KStr [c])
  | SStr s => key_ser d = Ok (KStr s)
  | SUnitVariant n => key_ser d = Ok (KStr n)
  | SSome d' | SNewtypeStruct d' => key_ser d = key_ser d'
  | STimestamp _ _ => key_ser d = Err EOracle
  | _ => key_ser d = Err EInvalid
  end.
Proof. exact key_ser_kinds. Qed.

Theorem C17_map_keys_supported : forall es v, to_value (SMap es) = Ok v ->
  Forall (fun kx => key_okb (fst kx) = true) es.
Proof. exact map_keys_supported. Qed.

(** Supported data (no 128-bit integers, supported keys, offsets that still fit after rounding
    to the minute) does convert. *)
Theorem C17_supported_total : forall d, supported d = true -> exists v, to_value d = Ok v.
Proof. exact supported_total. Qed.

(** For JSON-representable data, converting and then exporting equals serialising directly
    (model of serde_json's own serializer: [json_direct]). *)
Theorem C17_json_commutes : forall d, jrepr d = true ->
  exists v j, to_value d = Ok v /\ json_of_value v = Ok j /\ json_direct d = Ok j.
Proof. exact conversion_commutes. Qed.

Example C17_ex_commute :
  let d := SStruct [($"a", SInt (-3)); ($"b", SSeq [SNone; SFloat (f64_of_Z 2); SMap [(SUint 1, SStr $"x")]])] in
  jrepr d = true /\ supported d = true /\
  to_value d = Ok (VMap [(KStr $"a", VInt (-3));
                         (KStr $"b", VList [VNull; VDbl (f64_of_Z 2); VMap [(KUint 1, VStr $"x")]])]).
Proof. vm_compute. repeat split; reflexivity. Qed.

Print Assumptions C17_no_crash.
Print Assumptions C17_shape.
Print Assumptions C17_map_semantics.
Print Assumptions C17_key_kinds.
Print Assumptions C17_map_keys_supported.
Print Assumptions C17_supported_total.
Print Assumptions C17_json_commutes.
