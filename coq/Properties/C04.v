(** C04 - parsing preserves CEL precedence, associativity and grouping.
    Proved here: the round trip [parse (render tree) = tree] for every surface tree -
    identifiers, integer and double literals of either sign, true / false / null, string and
    bytes literal tokens, prefix runs of any length,
    * / %, + -, the seven relations, && / || chains of any length, ?:, explicit parentheses,
    field selection, indexing, member and global calls - a macro call being the tree its expander
    builds around the receiver's and the arguments' trees (C04_macro_trees) -, list, map
    and message literals (dotted type names, with or without the leading dot), each with or
    without the optional trailing comma ([,] and {,} included), identifiers and global calls with
    a leading dot, selection of back-quoted fields - rendered with minimal parentheses: at token level with the fuel [compile]
    itself uses (the parse holds for all sufficient fuel, more fuel never changes an answer,
    and the parser's own fuel is never exhausted), and from source text; the operand order of
    && / || chains; the cancellation of prefix runs; that macros expand around their receiver
    and arguments.  Outside the round-trip theorem: back-quoted field names inside
    message literals and the optional-field syntax the parser refuses; the correspondence run covers those (every tree with up to 2 (thorough: 3)
    operators, random deeper ones, fully and minimally parenthesised) and checks on every tree
    of the theorem's domain that the real lexer's tokens are the rendering [raw]. *)
From Coq Require Import String Ascii.
From Cel.Model Require Import Parser.
From Cel.Model Require Import Surface.
From Cel.Proofs Require Import PrecedenceProofs ParserRoundtrip MacroTrees ParserFuel LexerRoundtrip.

(** Chains of && / || keep their operands in source order: for every number of operands the
    tree built for t0 op t1 op ... tn ([logic_tree], applied by the parser's chain loops to the
    operands in source order) consists of nodes of that operator whose leaves, read left to
    right, are exactly t0 ... tn. *)
Theorem C04_chain_order : forall fn terms, (2 <= length terms)%nat ->
  exists t, logic_tree fn terms = interp fn terms t /\ inorder t = seq 0 (length terms).
Proof. exact logic_tree_order. Qed.

Theorem C04_chain_loops : forall f acc ts,
  (match ts with TOrOr :: _ => False | _ => True end ->
   p_or_loop (S f) acc ts = POk (logic_tree $"_||_" (rev' acc)) ts) /\
  (match ts with TAndAnd :: _ => False | _ => True end ->
   p_and_loop (S f) acc ts = POk (logic_tree $"_&&_" (rev' acc)) ts).
Proof.
  intros f acc ts. split; intros H; cbn [p_or_loop p_and_loop]; destruct ts as [|[] r];
    try reflexivity; destruct H.
Qed.

(** A run of n prefix operators applied to a member expression m yields m for even n and the
    single application for odd n - for every n. *)
Theorem C04_prefix_parity : forall n f ts,
  (not_bang ts ->
   p_unary (S f) (repeat TBang (S n) ++ ts) =
   match p_member f ts with
   | POk m r => POk (if Nat.odd (S n) then ECall $"!_" None [m] else m) r
   | PFail => PFail
   | PFuel => PFuel
   end) /\
  (not_minus ts -> (n = O -> is_number_tok ts = false) ->
   p_unary (S f) (repeat TMinus (S n) ++ ts) =
   match p_member f ts with
   | POk m r => POk (if Nat.odd (S n) then ECall $"-_" None [m] else m) r
   | PFail => PFail
   | PFuel => PFuel
   end).
Proof. intros n f ts. split; [apply bang_run|apply minus_run]. Qed.

(** A macro call expands around, never into, its receiver and argument expressions. *)
Theorem C04_macro_around : forall r x p q,
  expand_call $"all" (Some r) [EIdent x; p] = Some (expand_all r x p) /\
  expand_call $"exists" (Some r) [EIdent x; p] = Some (expand_exists r x p) /\
  expand_call $"exists_one" (Some r) [EIdent x; p] = Some (expand_exists_one r x p) /\
  expand_call $"existsOne" (Some r) [EIdent x; p] = Some (expand_exists_one r x p) /\
  expand_call $"map" (Some r) [EIdent x; p] = Some (expand_map r x None p) /\
  expand_call $"map" (Some r) [EIdent x; q; p] = Some (expand_map r x (Some q) p) /\
  expand_call $"filter" (Some r) [EIdent x; p] = Some (expand_filter r x p).
Proof. exact macro_around. Qed.

(** Precedence and associativity on concrete texts (computed by the model's parser). *)
Example C04_ex_prec :
  compile $"a || b && c == d + e * -f.g" =
  CExpr (ECall $"_||_" None [EIdent $"a";
         ECall $"_&&_" None [EIdent $"b";
         ECall $"_==_" None [EIdent $"c";
         ECall $"_+_" None [EIdent $"d";
         ECall $"_*_" None [EIdent $"e";
         ECall $"-_" None [ESelect (EIdent $"f") $"g" false]]]]]]).
Proof. vm_compute. reflexivity. Qed.
Example C04_ex_assoc :
  compile $"a - b - c" = CExpr (ECall $"_-_" None [ECall $"_-_" None [EIdent $"a"; EIdent $"b"]; EIdent $"c"]) /\
  compile $"a ? b : c ? d : e" =
  CExpr (ECall $"_?_:_" None [EIdent $"a"; EIdent $"b"; ECall $"_?_:_" None [EIdent $"c"; EIdent $"d"; EIdent $"e"]]).
Proof. split; vm_compute; reflexivity. Qed.
Example C04_ex_even : compile $"!!a" = CExpr (EIdent $"a") /\ compile $"---a" = CExpr (ECall $"-_" None [EIdent $"a"]).
Proof. split; vm_compute; reflexivity. Qed.

(** Rendering then parsing gives the tree back: precedence, left associativity, balanced
    logical chains and grouping, for trees of any size. *)
Theorem C04_roundtrip : forall t, wf_st t -> parse_tokens (raw t) = CExpr (ast t).
Proof. exact parse_tokens_roundtrip. Qed.

(** From source text: writing the tokens of the rendering one after the other, each followed by
    a space (identifiers being identifiers of the language: not empty, not a keyword), and
    compiling that text gives the tree. *)
Theorem C04_source_roundtrip : forall t, wf_st t -> ids_ok t -> compile (text (raw t)) = CExpr (ast t).
Proof. exact compile_roundtrip. Qed.

(** ... and with any larger fuel: the result does not depend on how much is left over. *)
Theorem C04_roundtrip_any_fuel : forall t, wf_st t ->
  exists n, forall f, (n <= f)%nat -> p_expr f (raw t) = POk (ast t) [].
Proof. exact parse_roundtrip. Qed.

(** a + b * c - d == e && !f || g ? h : i : the tree the table prescribes, and its tokens *)
Example C04_ex_roundtrip :
  let t := SCond (SOr (SAnd (SRel TEq (SAdd TMinus (SAdd TPlus (SId $"a") (SMul TStar (SId $"b") (SId $"c"))) (SId $"d")) (SId $"e"))
                            [SNot 0 (SId $"f")]) [SId $"g"]) (SId $"h") (SId $"i") in
  wf_st t /\ length (raw t) = 18%nat /\ parse_tokens (raw t) = CExpr (ast t).
Proof. vm_compute. repeat split; discriminate. Qed.

(** x.f(a + b, [1, {k: !c}])[i].g * 2 : postfix forms bind tighter than every operator *)
Example C04_ex_postfix :
  let t := SMul TStar
             (SSel (SIdx (SMCall (SId $"x") $"f" [SAdd TPlus (SId $"a") (SId $"b");
                                                   SLst [SLit (LInt 1); SMap [(SId $"k", SNot 0 (SId $"c"))]]])
                         (SId $"i")) $"g")
             (SLit (LInt 2)) in
  wf_st t /\ ids_ok t /\ compile (text (raw t)) = CExpr (ast t) /\
  compile $"x.f(a + b, [1, {k: !c}])[i].g * 2" = CExpr (ast t).
Proof. vm_compute. repeat split; try discriminate; reflexivity. Qed.

(** Unambiguity: well-formed trees that render to the same tokens denote the same AST - in
    particular a tree and the same tree with redundant parentheses, and no two trees that differ
    in grouping can share a rendering. *)
Theorem C04_unambiguous : forall t1 t2, wf_st t1 -> wf_st t2 -> raw t1 = raw t2 -> ast t1 = ast t2.
Proof. exact raw_unambiguous. Qed.

(** Macro calls are trees of the theorems above: the tree of r.all(x, p) is the comprehension
    built around the trees of r and p, and so on for each macro; such a tree is well formed
    exactly when its parts are, and only a plain name is accepted as the iteration variable. *)
Theorem C04_macro_trees : forall a x p q f,
  ast (SMCall a $"all" [SId x; p]) = expand_all (ast a) x (ast p) /\
  ast (SMCall a $"exists" [SId x; p]) = expand_exists (ast a) x (ast p) /\
  ast (SMCall a $"exists_one" [SId x; p]) = expand_exists_one (ast a) x (ast p) /\
  ast (SMCall a $"existsOne" [SId x; p]) = expand_exists_one (ast a) x (ast p) /\
  ast (SMCall a $"filter" [SId x; p]) = expand_filter (ast a) x (ast p) /\
  ast (SMCall a $"map" [SId x; p]) = expand_map (ast a) x None (ast p) /\
  ast (SMCall a $"map" [SId x; p; q]) = expand_map (ast a) x (Some (ast p)) (ast q) /\
  ast (SCall $"has" [SSel a f]) = ESelect (ast a) f true.
Proof. exact macro_asts. Qed.

Theorem C04_macro_wf : forall a m x p q f, macro2 m ->
  (wf_st (SMCall a m [SId x; p]) <-> wf_st a /\ wf_st p) /\
  (wf_st (SMCall a $"map" [SId x; p; q]) <-> wf_st a /\ wf_st p /\ wf_st q) /\
  (wf_st (SCall $"has" [SSel a f]) <-> wf_st a).
Proof. exact macro_wf. Qed.

Theorem C04_macro_var_needed : forall a m v p, macro2 m -> (forall x, ast v <> EIdent x) -> ~ wf_st (SMCall a m [v; p]).
Proof. exact macro_var_needed. Qed.

(** l.filter(x, x > 1).all(y, has(y.f)) || b : macros nest through receivers and bodies *)
Example C04_ex_macro :
  let t := SOr (SMCall (SMCall (SId $"l") $"filter" [SId $"x"; SRel TGt (SId $"x") (SLit (LInt 1))]) $"all"
                       [SId $"y"; SCall $"has" [SSel (SId $"y") $"f"]]) [SId $"b"] in
  wf_st t /\ ids_ok t /\ compile (text (raw t)) = CExpr (ast t) /\
  compile $"l.filter(x, x > 1).all(y, has(y.f)) || b" = CExpr (ast t) /\
  ast t = ECall $"_||_" None [expand_all (expand_filter (EIdent $"l") $"x" (ECall $"_>_" None [EIdent $"x"; ELit (VInt 1)])) $"y"
                                          (ESelect (EIdent $"y") $"f" true); EIdent $"b"].
Proof. vm_compute. repeat split; try discriminate; reflexivity. Qed.

(** A back-quoted identifier with a non-empty body of the characters the token rule allows is read
    back as one token, so selections of such fields are trees of the source-text theorem too. *)
Theorem C04_escident_lexable : forall body, body <> [] -> forallb is_esc_ident_char body = true ->
  lexable (TEscIdent (96%N :: body ++ [96%N])).
Proof. exact lexable_escident. Qed.

(** [.g(1, ), {,}, .pkg.T{f: .x,}].`a-b` : trailing commas, leading dots, a back-quoted field *)
Example C04_ex_trailing :
  let t := SSelEsc (SLstT [SDotCall $"g" [SLit (LInt 1)]; SMapT []; SMsgT true [$"pkg"; $"T"] [($"f", SDotId $"x")]]) $"`a-b`" in
  wf_st t /\ ids_ok t /\ compile (text (raw t)) = CExpr (ast t) /\
  compile $"[.g(1), {,}, .pkg.T{f: .x,},].`a-b`" = CExpr (ast t) /\
  ast t = ESelect (EList [ECall $".g" None [ELit (VInt 1)]; EMap []; EStruct $".pkg.T" [($"f", EIdent $"x")]]) $"`a-b`" false.
Proof.
  vm_compute. repeat split; try discriminate; try reflexivity; try (repeat constructor; fail).
  apply (lexable_escident $"a-b"); [discriminate|reflexivity].
Qed.

(** .pkg.T{f: a + b, g: [x.y]} * 2 : a message literal is a primary; its name keeps the leading dot *)
Example C04_ex_message :
  let t := SMul TStar (SMsg true [$"pkg"; $"T"] [($"f", SAdd TPlus (SId $"a") (SId $"b")); ($"g", SLst [SSel (SId $"x") $"y"])])
                      (SLit (LInt 2)) in
  wf_st t /\ ids_ok t /\ compile (text (raw t)) = CExpr (ast t) /\
  compile $".pkg.T{f: a + b, g: [x.y]} * 2" = CExpr (ast t).
Proof. vm_compute. repeat split; try discriminate; try reflexivity. repeat constructor. Qed.

Print Assumptions C04_chain_order.
Print Assumptions C04_chain_loops.
Print Assumptions C04_prefix_parity.
Print Assumptions C04_macro_around.
Print Assumptions C04_roundtrip.
Print Assumptions C04_roundtrip_any_fuel.
Print Assumptions C04_source_roundtrip.
Print Assumptions C04_macro_trees.
Print Assumptions C04_macro_wf.
Print Assumptions C04_macro_var_needed.
Print Assumptions C04_escident_lexable.
Print Assumptions C04_unambiguous.
