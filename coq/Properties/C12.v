(** C12 - string and bytes literals denote exactly the characters written.
    [decode_string] / [decode_bytes] are what the visitor makes of a STRING / BYTES token
    (parse.rs unquote_string / unquote_bytes); [render] spells a string in a one-quote style with
    a free choice, per character, between the verbatim character and every applicable escape
    form; the triple-quoted forms take the same bodies (and, raw, any characters at all).
    For the one-quote styles the whole path is proved ([C12_string_compiles],
    [C12_bytes_compiles]): the lexer model takes the spelling as ONE STRING / BYTES token, the
    parser makes a literal of it, and its value is the string / the bytes.  For the triple-quoted
    and raw styles the theorems are about decoding the token; that the lexer takes those spellings
    as one token is the correspondence run.  Known finding K01 (raw triple-quoted literals
    containing U+0000 or U+10FFFF are rejected by the ANTLR runtime's lexer) lies in that part. *)
From Coq Require Import String Ascii.
From Cel.Model Require Import Literals Surface.
From Cel.Proofs Require Import LiteralProofs LexerRoundtrip.
Open Scope N_scope.

(** For every string s of Unicode scalar values, both one-quote styles and every
    per-character choice of spelling, the literal evaluates to s exactly. *)
Theorem C12_string_roundtrip : forall q s ks body,
  (q = 34 \/ q = 39) -> forallb is_scalar s = true -> render q s ks = Some body ->
  decode_string (q :: body ++ [q]) = Some s.
Proof. exact string_roundtrip_short. Qed.

(** Bytes literals: \x, \X and octal escapes denote single bytes, every other spelling
    contributes the UTF-8 encoding of the character it denotes. *)
Theorem C12_bytes_roundtrip : forall p q s ks body,
  (p = ch "b" \/ p = ch "B") -> (q = 34 \/ q = 39) -> forallb is_scalar s = true ->
  render q s ks = Some body ->
  exists us, decode_bytes (p :: q :: body ++ [q]) = Some (flat_map unit_bytes us) /\ map unit_cp us = s.
Proof. exact bytes_decode_short. Qed.

(** Raw literals perform no escape processing. *)
Theorem C12_raw_verbatim : forall p q s,
  (p = ch "r" \/ p = ch "R") -> (q = 34 \/ q = 39) ->
  (match s with c :: _ => c <> q | [] => True end) ->
  decode_string (p :: q :: s ++ [q]) = Some s.
Proof. exact raw_verbatim_short. Qed.

(** Each escape form denotes the code point CEL assigns to it. *)
Theorem C12_escape_table :
  map (fun e => decode_string [34; 92; e; 34])
      [ch "a"; ch "b"; ch "f"; ch "n"; ch "r"; ch "t"; ch "v"; 92; ch "?"; 34; 39; 96] =
  map (fun v => Some [v]) [7; 8; 12; 10; 13; 9; 11; 92; 63; 34; 39; 96].
Proof. exact escape_table. Qed.

Theorem C12_numeric_escapes : forall f r acc,
  (forall x ds, (x = ch "x" \/ x = ch "X") -> length ds = 2%nat -> forallb is_hex ds = true ->
     unescape (S f) false (92 :: x :: ds ++ r) acc = unescape f false r (USmall (hex_num ds 0) :: acc)) /\
  (forall ds, length ds = 4%nat -> forallb is_hex ds = true -> is_scalar (hex_num ds 0) = true ->
     unescape (S f) false (92 :: ch "u" :: ds ++ r) acc = unescape f false r (UChar (hex_num ds 0) :: acc)) /\
  (forall ds, length ds = 8%nat -> forallb is_hex ds = true -> is_scalar (hex_num ds 0) = true ->
     unescape (S f) false (92 :: ch "U" :: ds ++ r) acc = unescape f false r (UChar (hex_num ds 0) :: acc)) /\
  (forall ds, length ds = 3%nat -> forallb is_oct ds = true ->
     (match ds with d :: _ => d <= 51 | [] => False end) ->
     unescape (S f) false (92 :: ds ++ r) acc = unescape f false r (USmall (oct_num ds 0) :: acc)).
Proof.
  intros f r acc. repeat split; intros.
  - now apply un_hex2.
  - now apply un_u4.
  - now apply un_u8.
  - now apply un_oct.
Qed.

(** Escapes that name no valid code point are compile errors. *)
Theorem C12_invalid_escape_rejected :
  map decode_string
      [$"'\ud800'"; $"'\udfff'"; $"'\U00110000'"; $"'\UFFFFFFFF'"; $"'\q'"; $"'\x4'"; $"'\u12'"; $"'\'"] =
  [None; None; None; None; None; None; None; None].
Proof. exact invalid_escapes. Qed.

Example C12_ex_render :
  render 34 [104; 10; 233] [CVerb; CSimple; CU4] = Some ($"h\n\u00e9").
Proof. reflexivity. Qed.

(** The triple-quoted forms: the same spellings between three-quote delimiters (34 or 39, thrice). *)
Theorem C12_string_roundtrip_triple : forall q s ks body,
  (q = 34 \/ q = 39) -> forallb is_scalar s = true -> render q s ks = Some body ->
  decode_string (q :: q :: q :: body ++ [q; q; q]) = Some s.
Proof. exact string_roundtrip_long. Qed.

Theorem C12_bytes_roundtrip_triple : forall p q s ks body,
  (p = ch "b" \/ p = ch "B") -> (q = 34 \/ q = 39) -> forallb is_scalar s = true ->
  render q s ks = Some body ->
  exists us, decode_bytes (p :: q :: q :: q :: body ++ [q; q; q]) = Some (flat_map unit_bytes us) /\ map unit_cp us = s.
Proof. exact bytes_decode_long. Qed.

(** Raw triple-quoted literals are verbatim for EVERY body - quotes, backslashes and newlines
    included. *)
Theorem C12_raw_verbatim_triple : forall p q s,
  (p = ch "r" \/ p = ch "R") -> (q = 34 \/ q = 39) ->
  decode_string (p :: q :: q :: q :: s ++ [q; q; q]) = Some s.
Proof. exact raw_verbatim_long. Qed.

(** From source text to the value: the spelled literal (followed by a space) compiles to the
    literal expression holding exactly the string - lexer, parser and decoder together. *)
Theorem C12_string_compiles : forall q s ks body,
  (q = 34 \/ q = 39) -> forallb is_scalar s = true -> render q s ks = Some body ->
  compile (q :: body ++ [q; 32]) = CExpr (ELit (VStr s)).
Proof.
  intros q s ks body Hq Hs Hr. pose proof (string_literal_compiles q s ks body Hq Hs Hr) as H.
  cbn [text flat_map tok_text app] in H. rewrite app_nil_r in H.
  replace (q :: body ++ [q; 32]) with ((q :: body ++ [q]) ++ [32]); [exact H|].
  cbn [app]. now rewrite <- app_assoc.
Qed.

Theorem C12_bytes_compiles : forall p q s ks body,
  (p = ch "b" \/ p = ch "B") -> (q = 34 \/ q = 39) -> forallb is_scalar s = true ->
  render q s ks = Some body ->
  exists us, compile (p :: q :: body ++ [q; 32]) = CExpr (ELit (VBytes (flat_map unit_bytes us))) /\
             map unit_cp us = s.
Proof.
  intros p q s ks body Hp Hq Hs Hr. destruct (bytes_literal_compiles p q s ks body Hp Hq Hs Hr) as (us & H & Hu).
  exists us. split; [|exact Hu]. cbn [text flat_map tok_text app] in H. rewrite app_nil_r in H.
  replace (p :: q :: body ++ [q; 32]) with ((p :: q :: body ++ [q]) ++ [32]); [exact H|].
  cbn [app]. now rewrite <- app_assoc.
Qed.

Example C12_ex_compiles : compile $"""h\n\u00e9"" " = CExpr (ELit (VStr [104; 10; 233])).
Proof. exact (C12_string_compiles 34 [104; 10; 233] [CVerb; CSimple; CU4] _ (or_introl eq_refl) eq_refl eq_refl). Qed.

Print Assumptions C12_string_compiles.
Print Assumptions C12_bytes_compiles.
Print Assumptions C12_string_roundtrip.
Print Assumptions C12_bytes_roundtrip.
Print Assumptions C12_raw_verbatim.
Print Assumptions C12_escape_table.
Print Assumptions C12_numeric_escapes.
Print Assumptions C12_invalid_escape_rejected.
Print Assumptions C12_string_roundtrip_triple.
Print Assumptions C12_bytes_roundtrip_triple.
Print Assumptions C12_raw_verbatim_triple.
