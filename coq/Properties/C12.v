(** C12 - string and bytes literals denote exactly the characters written.
    [decode_string] / [decode_bytes] are what the visitor makes of a STRING / BYTES token
    (parse.rs unquote_string / unquote_bytes); [render] spells a string in a one-quote style with
    a free choice, per character, between the verbatim character and every applicable escape
    form; the triple-quoted forms take the same bodies (and, raw, any characters at all).
    The whole path is proved for every style ([C12_string_compiles], [C12_bytes_compiles],
    [C12_raw_compiles]): the lexer model takes the spelling as ONE STRING / BYTES token, the
    parser makes a literal of it, and its value is the string / the bytes.  Raw bytes literals
    likewise ([C12_raw_bytes_compile]); raw triple-quoted bodies may contain the quote character
    wherever that does not end the literal early ([C12_raw_quotes_compile]).  Known finding K01 (raw
    triple-quoted literals containing U+0000 or U+10FFFF are rejected by the ANTLR runtime's
    lexer) is the exclusion in [raw_ok3] / [free3]. *)
From Coq Require Import String Ascii.
From Cel.Model Require Import Literals Surface.
From Cel.Proofs Require Import LiteralProofs LexerRoundtrip RawLiterals.
Open Scope N_scope.

(** For every string s of Unicode scalar values, both one-quote styles and every
    per-character choice of spelling, the literal evaluates to s exactly. *)
Theorem C12_string_roundtrip : forall q s ks body,
  (q = 34 \/ q = 39) -> forallb is_scalar s = true -> render q s ks = Some body ->
  decode_string (q :: body ++ [q]) = Some s.
Proof. exact string_roundtrip_short. Qed.

(** Bytes literals: \x, \X and octal escapes denote single bytes, every other spelling
    contributes the UTF-8 encoding of the character it denotes. *)
Theorem C12_bytes_roundtrip : forall p q s ks body,
  (p = ch "b" \/ p = ch "B") -> (q = 34 \/ q = 39) -> forallb is_scalar s = true ->
  render q s ks = Some body ->
  exists us, decode_bytes (p :: q :: body ++ [q]) = Some (flat_map unit_bytes us) /\ map unit_cp us = s.
Proof. exact bytes_decode_short. Qed.

(** Raw literals perform no escape processing. *)
Theorem C12_raw_verbatim : forall p q s,
  (p = ch "r" \/ p = ch "R") -> (q = 34 \/ q = 39) ->
  (match s with c :: _ => c <> q | [] => True end) ->
  decode_string (p :: q :: s ++ [q]) = Some s.
Proof. exact raw_verbatim_short. Qed.

(** Each escape form denotes the code point CEL assigns to it. *)
Theorem C12_escape_table :
  map (fun e => decode_string [34; 92; e; 34])
      [ch "a"; ch "b"; ch "f"; ch "n"; ch "r"; ch "t"; ch "v"; 92; ch "?"; 34; 39; 96] =
  map (fun v => Some [v]) [7; 8; 12; 10; 13; 9; 11; 92; 63; 34; 39; 96].
Proof. exact escape_table. Qed.

Theorem C12_numeric_escapes : forall f r acc,
  (forall x ds, (x = ch "x" \/ x = ch "X") -> length ds = 2%nat -> forallb is_hex ds = true ->
     unescape (S f) false (92 :: x :: ds ++ r) acc = unescape f false r (USmall (hex_num ds 0) :: acc)) /\
  (forall ds, length ds = 4%nat -> forallb is_hex ds = true -> is_scalar (hex_num ds 0) = true ->
     unescape (S f) false (92 :: ch "u" :: ds ++ r) acc = unescape f false r (UChar (hex_num ds 0) :: acc)) /\
  (forall ds, length ds = 8%nat -> forallb is_hex ds = true -> is_scalar (hex_num ds 0) = true ->
     unescape (S f) false (92 :: ch "U" :: ds ++ r) acc = unescape f false r (UChar (hex_num ds 0) :: acc)) /\
  (forall ds, length ds = 3%nat -> forallb is_oct ds = true ->
     (match ds with d :: _ => d <= 51 | [] => False end) ->
     unescape (S f) false (92 :: ds ++ r) acc = unescape f false r (USmall (oct_num ds 0) :: acc)).
Proof.
  intros f r acc. repeat split; intros.
  - now apply un_hex2.
  - now apply un_u4.
  - now apply un_u8.
  - now apply un_oct.
Qed.

(** Escapes that name no valid code point are compile errors. *)
Theorem C12_invalid_escape_rejected :
  map decode_string
      [$"'\ud800'"; $"'\udfff'"; $"'\U00110000'"; $"'\UFFFFFFFF'"; $"'\q'"; $"'\x4'"; $"'\u12'"; $"'\'"] =
  [None; None; None; None; None; None; None; None].
Proof. exact invalid_escapes. Qed.

Example C12_ex_render :
  render 34 [104; 10; 233] [CVerb; CSimple; CU4] = Some ($"h\n\u00e9").
Proof. reflexivity. Qed.

(** The triple-quoted forms: the same spellings between three-quote delimiters (34 or 39, thrice). *)
Theorem C12_string_roundtrip_triple : forall q s ks body,
  (q = 34 \/ q = 39) -> forallb is_scalar s = true -> render q s ks = Some body ->
  decode_string (q :: q :: q :: body ++ [q; q; q]) = Some s.
Proof. exact string_roundtrip_long. Qed.

Theorem C12_bytes_roundtrip_triple : forall p q s ks body,
  (p = ch "b" \/ p = ch "B") -> (q = 34 \/ q = 39) -> forallb is_scalar s = true ->
  render q s ks = Some body ->
  exists us, decode_bytes (p :: q :: q :: q :: body ++ [q; q; q]) = Some (flat_map unit_bytes us) /\ map unit_cp us = s.
Proof. exact bytes_decode_long. Qed.

(** Raw triple-quoted literals are verbatim for EVERY body - quotes, backslashes and newlines
    included. *)
Theorem C12_raw_verbatim_triple : forall p q s,
  (p = ch "r" \/ p = ch "R") -> (q = 34 \/ q = 39) ->
  decode_string (p :: q :: q :: q :: s ++ [q; q; q]) = Some s.
Proof. exact raw_verbatim_long. Qed.

(** From source text to the value: the spelled literal (followed by a space) compiles to the
    literal expression holding exactly the string - lexer, parser and decoder together - in the
    one-quote and in the triple-quoted style. *)
Theorem C12_string_compiles : forall q s ks body,
  (q = 34 \/ q = 39) -> forallb is_scalar s = true -> render q s ks = Some body ->
  compile (text [TString (q :: body ++ [q])]) = CExpr (ELit (VStr s)) /\
  compile (text [TString (q :: q :: q :: body ++ [q; q; q])]) = CExpr (ELit (VStr s)).
Proof. exact string_literal_compiles. Qed.

Theorem C12_bytes_compiles : forall p q s ks body,
  (p = ch "b" \/ p = ch "B") -> (q = 34 \/ q = 39) -> forallb is_scalar s = true ->
  render q s ks = Some body ->
  (exists us, map unit_cp us = s /\
     compile (text [TBytes (p :: q :: body ++ [q])]) = CExpr (ELit (VBytes (flat_map unit_bytes us)))) /\
  (exists us, map unit_cp us = s /\
     compile (text [TBytes (p :: q :: q :: q :: body ++ [q; q; q])]) = CExpr (ELit (VBytes (flat_map unit_bytes us)))).
Proof. exact bytes_literal_compiles. Qed.

(** Raw literals compile to their body verbatim: one-quote style for bodies without the quote
    and line breaks, triple-quoted style for bodies without the quote character (and without
    U+0000 / U+10FFFF: known finding K01). *)
Theorem C12_raw_compiles : forall p q s,
  (p = ch "r" \/ p = ch "R") -> (q = 34 \/ q = 39) ->
  (raw_ok1 q s = true -> compile (text [TString (p :: q :: s ++ [q])]) = CExpr (ELit (VStr s))) /\
  (raw_ok3 q s = true -> compile (text [TString (p :: q :: q :: q :: s ++ [q; q; q])]) = CExpr (ELit (VStr s))).
Proof. exact raw_literal_compiles. Qed.

(** Raw bytes literals: the UTF-8 encoding of the body, verbatim. *)
Theorem C12_raw_bytes_compile : forall b p q s,
  (b = ch "b" \/ b = ch "B") -> (p = ch "r" \/ p = ch "R") -> (q = 34 \/ q = 39) ->
  (raw_ok1 q s = true -> compile (text [TBytes (b :: p :: q :: s ++ [q])]) = CExpr (ELit (VBytes (flat_map utf8_enc1 s)))) /\
  (raw_ok3 q s = true -> compile (text [TBytes (b :: p :: q :: q :: q :: s ++ [q; q; q])]) = CExpr (ELit (VBytes (flat_map utf8_enc1 s)))).
Proof. exact raw_bytes_literal_compiles. Qed.

(** Raw triple-quoted bodies with quotes in them: every body in which three consecutive quotes
    do not occur before the closing delimiter ([free3]: no position of the body starts three
    quotes of body ++ two quotes - so the body does not end with a quote either), string and bytes. *)
Theorem C12_raw_quotes_compile : forall b p q s,
  (b = ch "b" \/ b = ch "B") -> (p = ch "r" \/ p = ch "R") -> (q = 34 \/ q = 39) -> free3 q s = true ->
  compile (text [TString (p :: q :: q :: q :: s ++ [q; q; q])]) = CExpr (ELit (VStr s)) /\
  compile (text [TBytes (b :: p :: q :: q :: q :: s ++ [q; q; q])]) = CExpr (ELit (VBytes (flat_map utf8_enc1 s))).
Proof. exact raw_long_quotes_compile. Qed.

Theorem C12_raw_ok3_free : forall q s, raw_ok3 q s = true -> free3 q s = true.
Proof. exact raw_ok3_free. Qed.

Example C12_ex_raw_quotes :
  free3 39 $"it's ""x"" '' ok" = true /\ free3 39 $"ends with '" = false /\ free3 39 $"a'''b" = false /\
  compile $"br'''it's ''e''' " = CExpr (ELit (VBytes [105; 116; 39; 115; 32; 39; 39; 101])).
Proof. repeat split. Qed.

Example C12_ex_compiles : compile $"""h\n\u00e9"" " = CExpr (ELit (VStr [104; 10; 233])).
Proof. exact (proj1 (C12_string_compiles 34 [104; 10; 233] [CVerb; CSimple; CU4] _ (or_introl eq_refl) eq_refl eq_refl)). Qed.
Example C12_ex_raw : compile $"r'''a\b""c''' " = CExpr (ELit (VStr $"a\b""c")).
Proof. exact (proj2 (C12_raw_compiles (ch "r") 39 $"a\b""c" (or_introl eq_refl) (or_intror eq_refl)) eq_refl). Qed.

Print Assumptions C12_raw_compiles.
Print Assumptions C12_raw_bytes_compile.
Print Assumptions C12_raw_quotes_compile.
Print Assumptions C12_raw_ok3_free.
Print Assumptions C12_string_compiles.
Print Assumptions C12_bytes_compiles.
Print Assumptions C12_string_roundtrip.
Print Assumptions C12_bytes_roundtrip.
Print Assumptions C12_raw_verbatim.
Print Assumptions C12_escape_table.
Print Assumptions C12_numeric_escapes.
Print Assumptions C12_invalid_escape_rejected.
Print Assumptions C12_string_roundtrip_triple.
Print Assumptions C12_bytes_roundtrip_triple.
Print Assumptions C12_raw_verbatim_triple.
