(** C15 - durations parse, print, add and compare exactly (partial in one clause: that the
    rendering is *Go's* canonical one is evaluated by the correspondence run against an
    independent implementation of Go's algorithm; everything else, the print/parse round trip
    included, is proved for every duration). *)
From Coq Require Import String Ascii.
From Cel.Model Require Import Builtins.
From Cel.Proofs Require Import NumericProofs DurationProofs DurationRoundtrip.
Open Scope Z_scope.

(** Addition, subtraction and comparison act on the exact nanosecond counts; a result outside
    signed 64-bit nanoseconds is an error, never a crash. *)
Theorem C15_arith_exact : forall a b,
  v_add (VDur a) (VDur b) = (if in_i64 (a + b) then Ok (VDur (a + b)) else Err EOverflow) /\
  v_sub (VDur a) (VDur b) = (if in_i64 (a - b) then Ok (VDur (a - b)) else Err EOverflow) /\
  v_cmp (VDur a) (VDur b) = Some (Z.compare a b) /\
  v_eq (VDur a) (VDur b) = (a =? b).
Proof. exact dur_arith. Qed.

(** duration() accepts a string only if the whole of it is an optionally signed "0" or a
    sequence of decimal-number-plus-unit terms: no trailing text, no missing unit, no inner
    sign, no exponent / inf / nan, no spaces. *)
Theorem C15_parse_language : forall s d, parse_duration s = Some d ->
  exists sign body, s = sign ++ body /\ (sign = [] \/ sign = [45%N] \/ sign = [43%N]) /\
    (body = $"0" \/ exists terms, terms <> [] /\ body = concat terms /\ Forall is_term terms).
Proof. exact parse_language. Qed.

Theorem C15_rejected_spellings :
  map parse_duration [$"1h30mjunk"; $"1e3s"; $"infs"; $"nans"; $"--1s"; $"1h-30m"; $"1s "; $" 1s"; $"1";
                      $""; $"-"; $"1.5"; $"s"; $"9223372036854775808ns"] =
  repeat None 14.
Proof. exact rejected_spellings. Qed.

(** The rendering of a negative duration is '-' followed by the rendering of its magnitude. *)
Theorem C15_format_sign : forall d, 0 < d -> in_i64 d = true ->
  format_duration (- d) = 45%N :: format_duration d.
Proof. exact format_neg. Qed.

(** duration(string(d)) == d for every duration representable in signed 64-bit nanoseconds. *)
Theorem C15_roundtrip : forall d, in_i64 d = true ->
  parse_duration (format_duration_str d) = Some d /\
  (let! s := b_string (VDur d) in run_builtin FDuration [s]) = Ok (VDur d).
Proof.
  intros d Hd. pose proof (duration_roundtrip d Hd) as H. split; [exact H|].
  cbn [b_string obind run_builtin]. now rewrite H.
Qed.

Example C15_ex_format :
  format_duration_str 5400000000000 = $"1h30m0s" /\ format_duration_str 1500000 = $"1.5ms" /\
  format_duration_str (-2000000000) = $"-2s".
Proof. repeat split; reflexivity. Qed.

Print Assumptions C15_arith_exact.
Print Assumptions C15_parse_language.
Print Assumptions C15_rejected_spellings.
Print Assumptions C15_format_sign.
Print Assumptions C15_roundtrip.
