(** C16 - timestamps keep the instant and calendar fields they were given.  The text round
    trip is proved for the model's rendering / parser of RFC 3339 (validated against chrono by the
    correspondence run, with an independent calendar computation in the harness). *)
From Coq Require Import String Ascii.
From Cel.Model Require Import Builtins.
From Cel.Proofs Require Import TimestampProofs TimestampRoundtrip DayOfYear.
Open Scope Z_scope.

(** The calendar conversions invert each other for every day number and every valid
    proleptic-Gregorian date of every year (one 400-year cycle checked by computation, extended to
    all integers by the proved periodicity of both functions). *)
Theorem C16_civil_roundtrip :
  (forall n, let '(y, m, d) := civil_from_days n in
             days_from_civil y m d = n /\ valid_date y m d = true) /\
  (forall y m d, valid_date y m d = true -> civil_from_days (days_from_civil y m d) = (y, m, d)).
Proof. split; [exact civil_roundtrip_days|exact civil_roundtrip_date]. Qed.

(** Each accessor returns the field of the local time at the timestamp's own offset: the
    fields form a valid date whose day number is the local day, they reassemble to the local
    instant, and have the documented origins (month and day-of-month 0-based, date 1-based,
    day of week 0 = Sunday .. 6, milliseconds = ns / 10^6). *)
Theorem C16_fields : forall ns off,
  let f := local_fields ns off in
  let local := ns + off * ns_per_s in
  days_from_civil (f_year f) (f_month f) (f_day f) = local / ns_per_s / 86400 /\
  valid_date (f_year f) (f_month f) (f_day f) = true /\
  0 <= f_hour f <= 23 /\ 0 <= f_min f <= 59 /\ 0 <= f_sec f <= 59 /\ 0 <= f_nanos f < ns_per_s /\
  ((f_days f * 86400 + f_hour f * 3600 + f_min f * 60 + f_sec f) * ns_per_s + f_nanos f = local).
Proof. exact fields_spec. Qed.

Theorem C16_accessors : forall ns off,
  0 <= access AMonth ns off <= 11 /\ 1 <= access ADate ns off <= 31 /\
  access ADayOfMonth ns off = access ADate ns off - 1 /\
  0 <= access ADayOfWeek ns off <= 6 /\ 0 <= access AHours ns off <= 23 /\
  0 <= access AMinutes ns off <= 59 /\ 0 <= access ASeconds ns off <= 59 /\
  0 <= access AMillis ns off <= 999.
Proof. exact accessor_origins. Qed.

(** Equality and ordering compare instants regardless of offset. *)
Theorem C16_order_by_instant : forall a o1 b o2,
  v_cmp (VTs a o1) (VTs b o2) = Some (Z.compare a b) /\ v_eq (VTs a o1) (VTs b o2) = (a =? b).
Proof. exact ts_order. Qed.

(** t + d - d == t and (t + d) - t == d whenever t + d is representable; otherwise the
    operation is an error. *)
Theorem C16_add_sub : forall t o d,
  (ts_in_range t = true -> ts_in_range (t + d) = true ->
   v_add (VTs t o) (VDur d) = Ok (VTs (t + d) o) /\
   v_sub (VTs (t + d) o) (VDur d) = Ok (VTs t o) /\
   v_sub (VTs (t + d) o) (VTs t o) = Ok (VDur d)) /\
  (ts_in_range (t + d) = false ->
   v_add (VTs t o) (VDur d) = Err EOverflow /\ v_add (VDur d) (VTs t o) = Err EOverflow).
Proof. intros t o d. split; [apply ts_add_sub|apply ts_add_overflow]. Qed.

Example C16_ex_epoch : civil_from_days 0 = (1970, 1, 1) /\ access ADayOfWeek 0 0 = 4.
Proof. split; reflexivity. Qed.
Example C16_ex_leap : access ADayOfYear (days_from_civil 2024 12 31 * 86400 * ns_per_s) 0 = 365.
Proof. reflexivity. Qed.
Example C16_ex_offset : access AHours 0 19800 = 5 /\ access AMinutes 0 19800 = 30
                        /\ access ADate (-1) 0 = 31 /\ access AMonth (-1) 0 = 11.
Proof. repeat split. Qed.
Example C16_ex_text : rfc3339 0 0 = $"1970-01-01T00:00:00+00:00"
                      /\ parse_rfc3339 $"1970-01-01T01:00:00+01:00" = Some (Some (0, 3600)).
Proof. split; reflexivity. Qed.

(** timestamp(string(t)) == t, offset included: for every instant whose local year is 0000-9999
    and every whole-minute offset within a day (what RFC 3339 can write). *)
Theorem C16_text_roundtrip : forall ns off,
  0 <= f_year (local_fields ns off) <= 9999 -> off mod 60 = 0 -> -86400 < off < 86400 ->
  parse_rfc3339 (rfc3339 ns off) = Some (Some (ns, off)) /\
  (let! s := b_string (VTs ns off) in run_builtin FTimestamp [s]) = Ok (VTs ns off).
Proof.
  intros ns off Hy Hm Hr. pose proof (rfc3339_roundtrip ns off Hy Hm Hr) as H. split; [exact H|].
  cbn [b_string obind run_builtin]. now rewrite H.
Qed.

(** getDayOfYear is the ordinal of the local date as a calendar defines it - the days of the earlier
    months of the local year plus the day of the month, counted from 0 ([ordinal0], what chrono's
    Datelike::ordinal0 is) - and lies in 0..364, 0..365 in a leap year, for every timestamp: instants
    and offsets are unbounded integers here, so chrono's limit instants seen from any offset (F27)
    are included. *)
Theorem C16_day_of_year : forall ns off,
  let f := local_fields ns off in
  access ADayOfYear ns off = ordinal0 (f_year f) (f_month f) (f_day f) /\
  0 <= access ADayOfYear ns off <= last_ordinal (f_year f).
Proof. exact day_of_year_spec. Qed.

Example C16_ex_ordinals : ordinal0 2024 3 1 = 60 /\ ordinal0 2023 3 1 = 59 /\ ordinal0 2024 12 31 = 365 /\
  access ADayOfYear (-8334601228800000000000) (-3600) = 365.     (* MIN_UTC seen from -01:00 *)
Proof. repeat split; reflexivity. Qed.

Print Assumptions C16_civil_roundtrip.
Print Assumptions C16_day_of_year.
Print Assumptions C16_text_roundtrip.
Print Assumptions C16_fields.
Print Assumptions C16_accessors.
Print Assumptions C16_order_by_instant.
Print Assumptions C16_add_sub.
