(** C08 - 64-bit integer arithmetic is exact or reports overflow.
    This file holds only the property theorems (each closed by [exact] of a lemma from
    Proofs/), non-vacuity examples, and [Print Assumptions]. *)
From Cel.Model Require Import Arith.
From Cel.Proofs Require Import ArithProofs.
From Coq Require Import ZArith.
Open Scope Z_scope.

(** For all int operands and each of + - * / %: the result is the mathematically exact one
    ([exact]: Z arithmetic, quotient truncated toward zero, remainder with the dividend's
    sign) when it is representable, [Err EDivZero] when the divisor is 0, and
    [Err EOverflow] otherwise (MIN % -1 counts as overflow) - never another value, never
    [Crash]. *)
Theorem C08_int_exact : forall o a b, in_i64 a = true -> in_i64 b = true ->
  apply_op o (VInt a) (VInt b) =
  match exact o a b with
  | None => Err EDivZero
  | Some r => if in_i64 r && negb (min_rem_neg1 o a b) then Ok (VInt r) else Err EOverflow
  end.
Proof. exact int_char. Qed.

Theorem C08_uint_exact : forall o a b, in_u64 a = true -> in_u64 b = true ->
  apply_op o (VUInt a) (VUInt b) =
  match exact o a b with
  | None => Err EDivZero
  | Some r => if in_u64 r then Ok (VUInt r) else Err EOverflow
  end.
Proof. exact uint_op_exact. Qed.

Theorem C08_neg : forall a, in_i64 a = true ->
  v_neg (VInt a) = if a =? i64_min then Err EOverflow else Ok (VInt (- a)).
Proof.
  intros a Ha. rewrite neg_exact.
  destruct (a =? i64_min) eqn:E.
  - apply Z.eqb_eq in E. subst. reflexivity.
  - destruct (in_i64 (- a)) eqn:E2; [reflexivity|].
    apply neg_overflow_iff in E2; [|assumption]. apply Z.eqb_neq in E. contradiction.
Qed.

(** (a/b)*b + a%b = a whenever both are defined. *)
Theorem C08_div_rem : forall a b q r,
  v_div (VInt a) (VInt b) = Ok (VInt q) -> v_rem (VInt a) (VInt b) = Ok (VInt r) ->
  q * b + r = a.
Proof.
  intros a b q r. cbn [v_div v_rem]. destruct (b =? 0) eqn:E; [discriminate|].
  apply Z.eqb_neq in E. unfold chk_i64. destruct (in_i64 (Z.quot a b)); [|discriminate].
  intros H1 H2. injection H1 as <-. injection H2 as <-. exact (div_rem_identity a b E).
Qed.

(** Division truncates toward zero; the remainder takes the sign of the dividend. *)
Theorem C08_trunc_sign : forall a b, b <> 0 ->
  Z.abs (Z.quot a b) * Z.abs b <= Z.abs a /\
  (0 <= a -> 0 <= Z.rem a b) /\ (a <= 0 -> Z.rem a b <= 0).
Proof. intros a b Hb. split; [exact (quot_toward_zero a b Hb)|exact (rem_sign a b Hb)]. Qed.

(** Mixing int, uint and double operands is an error, not a coercion. *)
Theorem C08_no_mixing : forall o a b,
  is_num a = true -> is_num b = true -> same_kind a b = false ->
  apply_op o a b = Err EInvalid.
Proof. exact no_mixing. Qed.

(** Non-vacuity: the hypotheses are met at the boundaries and the interesting branches are
    all inhabited. *)
Example C08_ex_overflow : apply_op OAdd (VInt i64_max) (VInt 1) = Err EOverflow.
Proof. reflexivity. Qed.
Example C08_ex_min_div : apply_op ODiv (VInt i64_min) (VInt (-1)) = Err EOverflow.
Proof. reflexivity. Qed.
Example C08_ex_min_rem : apply_op ORem (VInt i64_min) (VInt (-1)) = Err EOverflow.
Proof. reflexivity. Qed.
Example C08_ex_trunc : apply_op ODiv (VInt (-7)) (VInt 2) = Ok (VInt (-3))
                       /\ apply_op ORem (VInt (-7)) (VInt 2) = Ok (VInt (-1)).
Proof. split; reflexivity. Qed.
Example C08_ex_uint_sub : apply_op OSub (VUInt 0) (VUInt 1) = Err EOverflow.
Proof. reflexivity. Qed.
Example C08_ex_divzero : apply_op ORem (VUInt 5) (VUInt 0) = Err EDivZero.
Proof. reflexivity. Qed.

Print Assumptions C08_int_exact.
Print Assumptions C08_uint_exact.
Print Assumptions C08_neg.
Print Assumptions C08_div_rem.
Print Assumptions C08_trunc_sign.
Print Assumptions C08_no_mixing.
