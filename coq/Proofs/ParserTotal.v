(** The parser's fuel is always enough, and every successful sub-parse consumes input.
    One induction on the fuel carries a statement per parser function: with fuel at least
    [rank + 16 * (tokens left)] the function does not answer [PFuel], and on success the rest
    it returns is shorter than (for the loops: not longer than) its input.  The ranks follow
    the call graph (expr 9, or 8, and 7, rel 6, add 5, mul 4, unary 3, member 2, primary and
    the loops 1, argument / element lists 10-11); [parse_fuel ts = 16 * (length ts + 2)]
    covers rank 9 at the full input. *)
From Coq Require Import String Ascii.
From Cel.Model Require Import Surface.
From Cel.Proofs Require Import ParserRoundtrip.
From Coq Require Import Lia Arith.
Open Scope nat_scope.

(** ** The parser never runs out of its fuel, and every successful parse consumes input *)
Definition nf_lt {A} (n : nat) (r : pres A) : Prop :=
  match r with POk _ rest => length rest < n | PFail => True | PFuel => False end.
Definition nf_le {A} (n : nat) (r : pres A) : Prop :=
  match r with POk _ rest => length rest <= n | PFail => True | PFuel => False end.

Record IHs (f : nat) : Prop := {
  Hexpr : forall ts, 9 + 16 * length ts <= f -> nf_lt (length ts) (p_expr f ts);
  Hor : forall ts, 8 + 16 * length ts <= f -> nf_lt (length ts) (p_or f ts);
  Hand : forall ts, 7 + 16 * length ts <= f -> nf_lt (length ts) (p_and f ts);
  Hrel : forall ts, 6 + 16 * length ts <= f -> nf_lt (length ts) (p_rel f ts);
  Hadd : forall ts, 5 + 16 * length ts <= f -> nf_lt (length ts) (p_add f ts);
  Hmul : forall ts, 4 + 16 * length ts <= f -> nf_lt (length ts) (p_mul f ts);
  Hunary : forall ts, 3 + 16 * length ts <= f -> nf_lt (length ts) (p_unary f ts);
  Hmember : forall ts, 2 + 16 * length ts <= f -> nf_lt (length ts) (p_member f ts);
  Hprimary : forall ts, 1 + 16 * length ts <= f -> nf_lt (length ts) (p_primary f ts);
  Horl : forall acc ts, 1 + 16 * length ts <= f -> nf_le (length ts) (p_or_loop f acc ts);
  Handl : forall acc ts, 1 + 16 * length ts <= f -> nf_le (length ts) (p_and_loop f acc ts);
  Hrell : forall l ts, 1 + 16 * length ts <= f -> nf_le (length ts) (p_rel_loop f l ts);
  Haddl : forall l ts, 1 + 16 * length ts <= f -> nf_le (length ts) (p_add_loop f l ts);
  Hmull : forall l ts, 1 + 16 * length ts <= f -> nf_le (length ts) (p_mul_loop f l ts);
  Hpostfix : forall e ts, 1 + 16 * length ts <= f -> nf_le (length ts) (p_postfix f e ts);
  Hargs : forall ts, 11 + 16 * length ts <= f -> nf_lt (length ts) (p_args f ts);
  Hargsr : forall acc ts, 10 + 16 * length ts <= f -> nf_lt (length ts) (p_args_rest f acc ts);
  Helems : forall acc ts, 10 + 16 * length ts <= f -> nf_lt (length ts) (p_elems f acc ts);
  Hentries : forall acc ts, 10 + 16 * length ts <= f -> nf_lt (length ts) (p_entries f acc ts);
  Hfields : forall acc ts, 1 + 16 * length ts <= f -> nf_lt (length ts) (p_fields f acc ts)
}.

(** use a fact about a sub-parse: name its result and keep what is known about it *)
Ltac sub H arg :=
  let R := fresh "R" in
  pose proof (H arg) as R; cbn [length] in R;
  match type of R with ?c -> _ => let C := fresh in assert (C : c) by lia; specialize (R C); clear C end.


Lemma count_prefix_len P ts : length (snd (count_prefix P ts)) <= length ts.
Proof.
  induction ts as [|t ts IH]; cbn [count_prefix]; [cbn; lia|].
  destruct (P t); [|cbn; lia]. destruct (count_prefix P ts) as [n r]. cbn [snd length] in *. lia.
Qed.

Lemma msg_prefix_len fuel : forall ts acc names r, msg_prefix fuel ts acc = Some (names, r) -> length r + 2 <= length ts.
Proof.
  induction fuel as [|fuel IH]; intros ts acc names r; cbn [msg_prefix]; [discriminate|].
  destruct ts as [|t ts]; [discriminate|]. destruct t; try discriminate.
  destruct ts as [|t2 ts]; [discriminate|]. destruct t2; try discriminate.
  - intros [= <- <-]. cbn [length]. lia.
  - intros H. apply IH in H. cbn [length]. lia.
Qed.

Lemma len_cons {A} (x : A) l : length (x :: l) = S (length l).
Proof. reflexivity. Qed.
(** [call R lem]: instantiate a fact about a sub-parse (side condition by lia), split on its result *)
Tactic Notation "call" ident(R) constr(lem) "as" ident(e) ident(l) :=
  rewrite ?len_cons in *; pose proof lem as R; rewrite ?len_cons in R;
  (lapply R; [clear R; intro R | lia]);
  match type of R with
  | nf_lt _ ?c => destruct c as [e l| |]
  | nf_le _ ?c => destruct c as [e l| |]
  end; cbn [nf_lt nf_le] in R; [ | exact I | contradiction ].

Ltac fin := cbn [nf_lt nf_le] in *; rewrite ?len_cons in *; try exact I; try lia.

Section Step.
Variable f : nat.
Hypothesis IH : IHs f.

Lemma s_expr ts : 9 + 16 * length ts <= S f -> nf_lt (length ts) (p_expr (S f) ts).
Proof.
  intros Hf. rewrite u_expr. call R (Hor f IH ts) as e l.
  destruct l as [|t l]; [fin|]. destruct t; fin.
  call R2 (Hor f IH l) as e2 l2. destruct l2 as [|t l2]; [fin|]. destruct t; fin.
  call R3 (Hexpr f IH l2) as e3 l3. fin.
Qed.

Lemma s_or ts : 8 + 16 * length ts <= S f -> nf_lt (length ts) (p_or (S f) ts).
Proof.
  intros Hf. rewrite u_or. call R (Hand f IH ts) as e l.
  pose proof (Horl f IH [e] l) as R2. lapply R2; [clear R2; intro R2|lia].
  destruct (p_or_loop f [e] l); fin.
Qed.
Lemma s_and ts : 7 + 16 * length ts <= S f -> nf_lt (length ts) (p_and (S f) ts).
Proof.
  intros Hf. rewrite u_and. call R (Hrel f IH ts) as e l.
  pose proof (Handl f IH [e] l) as R2. lapply R2; [clear R2; intro R2|lia].
  destruct (p_and_loop f [e] l); fin.
Qed.
Lemma s_rel ts : 6 + 16 * length ts <= S f -> nf_lt (length ts) (p_rel (S f) ts).
Proof.
  intros Hf. rewrite u_rel. call R (Hadd f IH ts) as e l.
  pose proof (Hrell f IH e l) as R2. lapply R2; [clear R2; intro R2|lia].
  destruct (p_rel_loop f e l); fin.
Qed.
Lemma s_add ts : 5 + 16 * length ts <= S f -> nf_lt (length ts) (p_add (S f) ts).
Proof.
  intros Hf. rewrite u_add. call R (Hmul f IH ts) as e l.
  pose proof (Haddl f IH e l) as R2. lapply R2; [clear R2; intro R2|lia].
  destruct (p_add_loop f e l); fin.
Qed.
Lemma s_mul ts : 4 + 16 * length ts <= S f -> nf_lt (length ts) (p_mul (S f) ts).
Proof.
  intros Hf. rewrite u_mul. call R (Hunary f IH ts) as e l.
  pose proof (Hmull f IH e l) as R2. lapply R2; [clear R2; intro R2|lia].
  destruct (p_mul_loop f e l); fin.
Qed.

Lemma s_or_loop acc ts : 1 + 16 * length ts <= S f -> nf_le (length ts) (p_or_loop (S f) acc ts).
Proof.
  intros Hf. rewrite u_or_loop. destruct ts as [|t ts]; [fin|]. destruct t; fin.
  call R (Hand f IH ts) as e l.
  pose proof (Horl f IH (e :: acc) l) as R2. lapply R2; [clear R2; intro R2|lia].
  destruct (p_or_loop f (e :: acc) l); fin.
Qed.
Lemma s_and_loop acc ts : 1 + 16 * length ts <= S f -> nf_le (length ts) (p_and_loop (S f) acc ts).
Proof.
  intros Hf. rewrite u_and_loop. destruct ts as [|t ts]; [fin|]. destruct t; fin.
  call R (Hrel f IH ts) as e l.
  pose proof (Handl f IH (e :: acc) l) as R2. lapply R2; [clear R2; intro R2|lia].
  destruct (p_and_loop f (e :: acc) l); fin.
Qed.
Lemma s_rel_loop lhs ts : 1 + 16 * length ts <= S f -> nf_le (length ts) (p_rel_loop (S f) lhs ts).
Proof.
  intros Hf. rewrite u_rel_loop. destruct ts as [|t ts]; [fin|].
  destruct (relop_name t) as [name|]; [|fin].
  call R (Hadd f IH ts) as e l.
  pose proof (Hrell f IH (ECall name None [lhs; e]) l) as R2. lapply R2; [clear R2; intro R2|lia].
  destruct (p_rel_loop f _ l); fin.
Qed.
Lemma s_add_loop lhs ts : 1 + 16 * length ts <= S f -> nf_le (length ts) (p_add_loop (S f) lhs ts).
Proof.
  intros Hf. rewrite u_add_loop. destruct ts as [|t ts]; [fin|].
  destruct (addop_name t) as [name|]; [|fin].
  call R (Hmul f IH ts) as e l.
  pose proof (Haddl f IH (ECall name None [lhs; e]) l) as R2. lapply R2; [clear R2; intro R2|lia].
  destruct (p_add_loop f _ l); fin.
Qed.
Lemma s_mul_loop lhs ts : 1 + 16 * length ts <= S f -> nf_le (length ts) (p_mul_loop (S f) lhs ts).
Proof.
  intros Hf. rewrite u_mul_loop. destruct ts as [|t ts]; [fin|].
  destruct (mulop_name t) as [name|]; [|fin].
  call R (Hunary f IH ts) as e l.
  pose proof (Hmull f IH (ECall name None [lhs; e]) l) as R2. lapply R2; [clear R2; intro R2|lia].
  destruct (p_mul_loop f _ l); fin.
Qed.

Lemma s_unary ts : 3 + 16 * length ts <= S f -> nf_lt (length ts) (p_unary (S f) ts).
Proof.
  intros Hf. rewrite u_unary.
  assert (D : nf_lt (length ts) (p_member f ts)) by (apply (Hmember f IH); lia).
  assert (P : forall P n, nf_lt (length ts) (let '(k, ts1) := count_prefix P ts in
            match p_member f ts1 with POk m ts2 => POk (if Nat.odd k then ECall n None [m] else m) ts2 | r => r end)).
  { intros P n. pose proof (count_prefix_len P ts) as L. destruct (count_prefix P ts) as [k ts1]. cbn [snd] in L.
    call R (Hmember f IH ts1) as e l. fin. }
  destruct ts as [|t ts0]; [exact D|].
  destruct t; try exact D.
  - destruct (is_number_tok ts0); [exact D|]. apply P.
  - apply P.
Qed.

Lemma s_member ts : 2 + 16 * length ts <= S f -> nf_lt (length ts) (p_member (S f) ts).
Proof.
  intros Hf. rewrite u_member. call R (Hprimary f IH ts) as e l.
  pose proof (Hpostfix f IH e l) as R2. lapply R2; [clear R2; intro R2|lia].
  destruct (p_postfix f e l); fin.
Qed.
End Step.









Lemma mk_call_rest id t args ts : match mk_call id t args ts with POk _ r => r = ts | PFail => True | PFuel => False end.
Proof. unfold mk_call. destruct (expand_call id t args); auto. Qed.

Lemma literal_of_len ts e r : literal_of ts = Some (e, r) -> length r < length ts.
Proof.
  unfold literal_of. destruct ts as [|t ts]; [discriminate|].
  destruct t; try discriminate;
  try (match goal with |- context [option_map _ ?x] => destruct x; cbn [option_map]; try discriminate end);
  try (intros [= <- <-]; cbn [length]; lia).
  destruct ts as [|t2 ts]; [discriminate|]. destruct t2; try discriminate;
  (match goal with |- context [option_map _ ?x] => destruct x; cbn [option_map]; try discriminate end);
  intros [= <- <-]; cbn [length]; lia.
Qed.

Section Step2.
Variable f : nat.
Hypothesis IH : IHs f.

Ltac loop R lem :=
  rewrite ?len_cons in *; pose proof lem as R; rewrite ?len_cons in R; (lapply R; [clear R; intro R | lia]);
  match type of R with
  | nf_lt _ ?c => destruct c
  | nf_le _ ?c => destruct c
  end; fin.

Lemma s_postfix e ts : 1 + 16 * length ts <= S f -> nf_le (length ts) (p_postfix (S f) e ts).
Proof.
  intros Hf. rewrite u_postfix.
  destruct ts as [|t ts]; [fin|]. destruct t; fin.
  - (* bracket *)
    assert (D : nf_le (S (length ts)) match p_expr f ts with
      | POk i (TRBracket :: ts2) => p_postfix f (ECall $"_[_]" None [e; i]) ts2
      | POk _ _ => PFail | PFail => PFail | PFuel => PFuel end).
    { call R (Hexpr f IH ts) as i l. destruct l as [|t l]; [fin|]. destruct t; fin.
      loop R2 (Hpostfix f IH (ECall $"_[_]" None [e; i]) l). }
    destruct ts as [|t ts]; [exact D|]. destruct t; try exact D. fin.
  - (* dot *)
    destruct ts as [|t ts]; [fin|]. destruct t; fin.
    + destruct ts as [|t ts].
      { loop R (Hpostfix f IH (ESelect e text false) (@nil tk)). }
      assert (D : nf_le (S (S (S (length ts)))) (p_postfix f (ESelect e text false) (t :: ts))).
      { loop R (Hpostfix f IH (ESelect e text false) (t :: ts)). }
      destruct t; try exact D.
      call R (Hargs f IH ts) as args l.
      pose proof (mk_call_rest text (Some e) args l) as M. destruct (mk_call text (Some e) args l) as [e' r| |]; fin; subst r.
      loop R2 (Hpostfix f IH e' l).
    + loop R (Hpostfix f IH (ESelect e text false) ts).
Qed.

Lemma s_args ts : 11 + 16 * length ts <= S f -> nf_lt (length ts) (p_args (S f) ts).
Proof.
  intros Hf. rewrite u_args.
  assert (D : nf_lt (length ts) (p_args_rest f [] ts)) by (apply (Hargsr f IH); lia).
  destruct ts as [|t ts]; [exact D|]. destruct t; try exact D. fin.
Qed.

Lemma s_args_rest acc ts : 10 + 16 * length ts <= S f -> nf_lt (length ts) (p_args_rest (S f) acc ts).
Proof.
  intros Hf. rewrite u_args_rest. call R (Hexpr f IH ts) as a l.
  destruct l as [|t l]; [fin|]. destruct t; fin.
  loop R2 (Hargsr f IH (a :: acc) l).
Qed.

Lemma s_elems acc ts : 10 + 16 * length ts <= S f -> nf_lt (length ts) (p_elems (S f) acc ts).
Proof.
  intros Hf. rewrite u_elems.
  assert (D : nf_lt (length ts) match p_expr f ts with
      | POk a (TComma :: ts1) => p_elems f (a :: acc) ts1
      | POk a (TRBracket :: ts1) => POk (rev' (a :: acc)) ts1
      | POk _ _ => PFail | PFail => PFail | PFuel => PFuel end).
  { call R (Hexpr f IH ts) as a l. destruct l as [|t l]; [fin|]. destruct t; fin.
    loop R2 (Helems f IH (a :: acc) l). }
  destruct ts as [|t ts]; [exact D|]. destruct t; try exact D; fin.
Qed.

Lemma s_entries acc ts : 10 + 16 * length ts <= S f -> nf_lt (length ts) (p_entries (S f) acc ts).
Proof.
  intros Hf. rewrite u_entries.
  assert (D : nf_lt (length ts) match p_expr f ts with
      | POk k (TColon :: ts1) =>
          match p_expr f ts1 with
          | POk v (TComma :: ts2) => p_entries f ((k, v) :: acc) ts2
          | POk v (TRBrace :: ts2) => POk (rev' ((k, v) :: acc)) ts2
          | POk _ _ => PFail | PFail => PFail | PFuel => PFuel end
      | POk _ _ => PFail | PFail => PFail | PFuel => PFuel end).
  { call R (Hexpr f IH ts) as k l. destruct l as [|t l]; [fin|]. destruct t; fin.
    call R2 (Hexpr f IH l) as v l2. destruct l2 as [|t l2]; [fin|]. destruct t; fin.
    loop R3 (Hentries f IH ((k, v) :: acc) l2). }
  destruct ts as [|t ts]; [exact D|]. destruct t; try exact D; fin.
Qed.

Lemma s_fields acc ts : 1 + 16 * length ts <= S f -> nf_lt (length ts) (p_fields (S f) acc ts).
Proof.
  intros Hf. rewrite u_fields.
  assert (D : forall n ts1, length ts1 + 2 <= length ts -> nf_lt (length ts) match p_expr f ts1 with
      | POk v (TComma :: ts2) => p_fields f ((n, v) :: acc) ts2
      | POk v (TRBrace :: ts2) => POk (rev' ((n, v) :: acc)) ts2
      | POk _ _ => PFail | PFail => PFail | PFuel => PFuel end).
  { intros n ts1 L. call R (Hexpr f IH ts1) as v l. destruct l as [|t l]; [fin|]. destruct t; fin.
    loop R2 (Hfields f IH ((n, v) :: acc) l). }
  destruct ts as [|t ts]; [fin|]. destruct t; fin.
  - destruct ts as [|t ts]; [fin|]. destruct t; fin. apply D. rewrite ?len_cons in *. lia.
  - destruct ts as [|t ts]; [fin|]. destruct t; fin. apply D. rewrite ?len_cons in *. lia.
Qed.

Lemma s_ident_forms b ts0 : 16 * length ts0 <= f -> nf_lt (length ts0) (ident_forms f b ts0).
Proof.
  intros Hf. unfold ident_forms.
  destruct (msg_prefix (S (length ts0)) ts0 []) as [[names r]|] eqn:M.
  - apply msg_prefix_len in M.
    assert (D : nf_lt (length ts0) match p_fields f [] r with
      | POk fs ts2 => let n := join_dots names in POk (EStruct (if b then 46%N :: n else n) fs) ts2
      | PFail => PFail | PFuel => PFuel end).
    { call R (Hfields f IH [] r) as fs l. fin. }
    destruct r as [|t r]; [exact D|]. destruct t; try exact D.
    destruct r as [|t r]; [exact D|]. destruct t; try exact D. fin.
  - destruct ts0 as [|t ts]; [fin|]. destruct t; fin.
    destruct ts as [|t ts]; [fin|]. destruct t; fin.
    call R (Hargs f IH ts) as args l.
    pose proof (mk_call_rest (if b then 46%N :: text else text) None args l) as Mk.
    destruct (mk_call _ None args l) as [e' r| |]; fin. subst r. lia.
Qed.

Lemma s_primary ts : 1 + 16 * length ts <= S f -> nf_lt (length ts) (p_primary (S f) ts).
Proof.
  intros Hf. rewrite u_primary.
  assert (L : nf_lt (length ts) match literal_of ts with Some (e, r) => POk e r | None => PFail end).
  { destruct (literal_of ts) as [[e r]|] eqn:E; [|fin]. apply literal_of_len in E. fin. }
  destruct ts as [|t ts]; [exact L|]. destruct t; try exact L.
  - (* [ *)
    assert (D : nf_lt (length (TLBracket :: ts)) match p_elems f [] ts with
      | POk es ts2 => POk (EList es) ts2 | PFail => PFail | PFuel => PFuel end).
    { call R (Helems f IH [] ts) as es l. fin. }
    destruct ts as [|t ts]; [exact D|]. destruct t; try exact D.
    destruct ts as [|t ts]; [exact D|]. destruct t; try exact D. fin.
  - (* { *)
    assert (D : nf_lt (length (TLBrace :: ts)) match p_entries f [] ts with
      | POk es ts2 => POk (EMap es) ts2 | PFail => PFail | PFuel => PFuel end).
    { call R (Hentries f IH [] ts) as es l. fin. }
    destruct ts as [|t ts]; [exact D|]. destruct t; try exact D.
    destruct ts as [|t ts]; [exact D|]. destruct t; try exact D. fin.
  - (* ( *) call R (Hexpr f IH ts) as e l. destruct l as [|t l]; [fin|]. destruct t; fin.
  - (* . *)
    pose proof (s_ident_forms true ts) as R. rewrite len_cons in *. lapply R; [clear R; intro R|lia].
    destruct (ident_forms f true ts); fin.
  - (* ident *) apply s_ident_forms. rewrite len_cons in *. lia.
Qed.
End Step2.

Lemma all_fuel : forall f, IHs f.
Proof.
  induction f as [|f IH].
  - constructor; intros; lia.
  - constructor; intros.
    + now apply s_expr. + now apply s_or. + now apply s_and. + now apply s_rel. + now apply s_add.
    + now apply s_mul. + now apply s_unary. + now apply s_member. + now apply s_primary.
    + now apply s_or_loop. + now apply s_and_loop. + now apply s_rel_loop. + now apply s_add_loop.
    + now apply s_mul_loop. + now apply s_postfix. + now apply s_args. + now apply s_args_rest.
    + now apply s_elems. + now apply s_entries. + now apply s_fields.
Qed.

(** The fuel the model's parser is given is enough on every token list: the "out of fuel"
    answer never occurs, so a rejection is always a rejection by the grammar. *)
Theorem parse_never_out_of_fuel ts : parse_tokens ts <> COutOfFuel.
Proof.
  unfold parse_tokens.
  pose proof (Hexpr _ (all_fuel (parse_fuel ts)) ts) as R. unfold parse_fuel in *.
  lapply R; [clear R; intro R|lia].
  destruct (p_expr _ ts) as [e r| |]; cbn [nf_lt] in R; [|discriminate|contradiction].
  destruct r; discriminate.
Qed.

Theorem compile_never_out_of_fuel src : compile src <> COutOfFuel.
Proof. unfold compile. destruct (lex src); [apply parse_never_out_of_fuel|discriminate]. Qed.

