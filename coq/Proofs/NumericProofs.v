(** C13: numeric literals and conversions preserve the number or fail. *)
From Coq Require Import String Ascii.
From Cel.Model Require Import Builtins.
From Cel.Proofs Require Import LiteralProofs.
From Coq Require Import Lia ZArith ZifyBool ZifyNat ZifyN.
Ltac Zify.zify_post_hook ::= Z.div_mod_to_equations.
Open Scope Z_scope.

(** ** Decimal digits *)
Lemma dec_num_app l1 l2 a : dec_num (l1 ++ l2) a = dec_num l2 (dec_num l1 a).
Proof. revert a; induction l1 as [|c l IH]; intros a; cbn [app dec_num]; [reflexivity|apply IH]. Qed.

Lemma digits_fuel_acc f : forall n acc, digits_fuel f n acc = digits_fuel f n [] ++ acc.
Proof.
  induction f as [|f IH]; intros n acc; cbn [digits_fuel]; [reflexivity|].
  destruct (n <? 10); [reflexivity|].
  rewrite IH, (IH (n / 10) [Z.to_N (48 + n mod 10)]). now rewrite <- app_assoc.
Qed.

Definition all_digits (s : str) : bool := forallb is_digit s.

Lemma digits_fuel_ok f : forall n, 0 <= n < 10 ^ Z.of_nat (S f) ->
  dec_num (digits_fuel (S f) n []) 0 = n /\ all_digits (digits_fuel (S f) n []) = true /\
  digits_fuel (S f) n [] <> [].
Proof.
  induction f as [|f IH]; intros n Hn.
  - assert (n < 10) by (cbn in Hn; lia).
    cbn [digits_fuel]. destruct (Z.ltb_spec n 10); [|lia].
    cbn [dec_num all_digits forallb]. repeat split; try discriminate.
    + rewrite Z2N.id by lia. lia.
    + unfold is_digit. lia.
  - remember (S f) as g. cbn [digits_fuel]. destruct (Z.ltb_spec n 10) as [H|H].
    + cbn [dec_num all_digits forallb]. repeat split; try discriminate.
      * rewrite Z2N.id by lia. lia.
      * unfold is_digit. lia.
    + rewrite digits_fuel_acc. rewrite Nat2Z.inj_succ, Z.pow_succ_r in Hn by lia.
      subst g. destruct (IH (n / 10)) as (H1 & H2 & H3); [lia|].
      rewrite dec_num_app, H1. cbn [dec_num]. unfold all_digits in *. rewrite forallb_app, H2.
      cbn [forallb]. repeat split.
      * rewrite Z2N.id by lia. lia.
      * unfold is_digit. lia.
      * destruct (digits_fuel (S f) (n / 10) []); [congruence|discriminate].
Qed.

Lemma pow2_le_pow10 k : 0 <= k -> 2 ^ k <= 10 ^ k.
Proof. intros H. apply Z.pow_le_mono_l. lia. Qed.

Lemma nat_digits_ok n : 0 <= n ->
  dec_num (nat_digits n) 0 = n /\ all_digits (nat_digits n) = true /\ nat_digits n <> [].
Proof.
  intros Hn. unfold nat_digits. apply digits_fuel_ok. split; [assumption|].
  destruct (Z.eq_dec n 0) as [->|Hz]; [cbn; lia|].
  rewrite Nat2Z.inj_succ, Z2Nat.id by (apply Z.log2_nonneg).
  pose proof (Z.log2_spec n ltac:(lia)) as [_ H].
  eapply Z.lt_le_trans; [exact H|]. apply pow2_le_pow10. pose proof (Z.log2_nonneg n). lia.
Qed.

(** A decimal digit string is not mistaken for a hexadecimal literal. *)
Lemma dec_not_hex t : all_digits t = true ->
  match t with
  | z :: x :: hs => if ((z =? 48) && (x =? ch "x"))%N then Z.of_N (hex_num hs 0) else dec_num t 0
  | _ => dec_num t 0
  end = dec_num t 0.
Proof.
  intros H. destruct t as [|z [|x hs]]; try reflexivity.
  cbn [all_digits forallb] in H. apply andb_true_iff in H as [_ H]. apply andb_true_iff in H as [Hx _].
  assert (E : (x =? ch "x")%N = false) by (unfold is_digit in Hx; cbn; lia).
  now rewrite E, andb_false_r.
Qed.

(** Every int in range, written in decimal with its sign, denotes itself; anything out of
    range is rejected. *)
Lemma int_literal_dec z : in_i64 z = true -> int_literal (z <? 0) (nat_digits (Z.abs z)) = Some z.
Proof.
  intros Hz. destruct (nat_digits_ok (Z.abs z)) as (H1 & H2 & _); [lia|].
  unfold int_literal. rewrite (dec_not_hex _ H2), H1.
  destruct (Z.ltb_spec z 0).
  - replace (- Z.abs z) with z by lia. now rewrite Hz.
  - replace (Z.abs z) with z by lia. now rewrite Hz.
Qed.

Lemma int_literal_range neg t z : int_literal neg t = Some z -> in_i64 z = true.
Proof.
  unfold int_literal.
  match goal with |- (if in_i64 ?v then _ else _) = _ -> _ => destruct (in_i64 v) eqn:E end;
    [intros [= <-]; exact E|discriminate].
Qed.

Lemma uint_literal_dec (u : Z) (sfx : N) : in_u64 u = true ->
  uint_literal (nat_digits u ++ [sfx]) = Some u.
Proof.
  intros Hu. assert (0 <= u) by (unfold in_u64 in Hu; lia).
  destruct (nat_digits_ok u) as (H1 & H2 & _); [assumption|].
  unfold uint_literal. rewrite removelast_last, (dec_not_hex _ H2), H1. now rewrite Hu.
Qed.

(** Hexadecimal spellings (any number of digits, either case). *)
Lemma int_literal_hex upper n v neg : (v < 16 ^ N.of_nat n)%N ->
  int_literal neg (48%N :: ch "x" :: hexd upper n v) =
  let z := if neg then - Z.of_N v else Z.of_N v in if in_i64 z then Some z else None.
Proof.
  intros Hv. destruct (hexd_props upper n v Hv) as (H1 & _ & _).
  unfold int_literal. change ((48 =? 48)%N && (ch "x" =? ch "x")%N) with true. cbn iota. now rewrite H1.
Qed.

(** ** Conversions *)
Lemma trunc_Z_spec f z : trunc_Z f = Some z ->
  match f with
  | S754_zero _ => z = 0
  | S754_finite s m e =>
      let a := Z.abs z in
      (if s then z <= 0 else 0 <= z) /\
      match e with
      | Z0 => a = Zpos m
      | Zpos p => a = Zpos m * 2 ^ Zpos p
      | Zneg p => a * 2 ^ Zpos p <= Zpos m < (a + 1) * 2 ^ Zpos p
      end
  | _ => False
  end.
Proof.
  destruct f as [s|s| |s m e]; unfold trunc_Z; try discriminate.
  - now intros [= <-].
  - intros H. apply (f_equal (fun o => match o with Some x => x | None => 0 end)) in H.
    cbv beta iota in H. subst z.
    assert (Hp : forall p, Z.pow_pos 2 p = 2 ^ Zpos p) by reflexivity.
    destruct e as [|p|p]; rewrite ?Hp.
    + destruct s; split; lia.
    + assert (0 < 2 ^ Zpos p) by (apply Z.pow_pos_nonneg; lia).
      assert (0 <= Zpos m * 2 ^ Zpos p) by (apply Z.mul_nonneg_nonneg; lia).
      destruct s; split; lia.
    + assert (0 < 2 ^ Zpos p) by (apply Z.pow_pos_nonneg; lia).
      assert (0 <= Zpos m / 2 ^ Zpos p) by (apply Z.div_pos; lia).
      pose proof (Z.mul_div_le (Zpos m) (2 ^ Zpos p) ltac:(lia)).
      pose proof (Z.mul_succ_div_gt (Zpos m) (2 ^ Zpos p) ltac:(lia)).
      destruct s; split; try lia; try (rewrite ?Z.abs_opp, Z.abs_eq by lia; nia).
Qed.

Lemma int_of_double f :
  b_int (VDbl f) = match trunc_Z f with
                   | Some z => if in_i64 z then Ok (VInt z) else Err EInvalid
                   | None => Err EInvalid
                   end.
Proof. reflexivity. Qed.

Lemma int_of_double_nonfinite f : is_finite f = false -> b_int (VDbl f) = Err EInvalid /\ b_uint (VDbl f) = Err EInvalid.
Proof. destruct f; try discriminate; intros _; split; reflexivity. Qed.

Lemma uint_of_double f u : b_uint (VDbl f) = Ok (VUInt u) ->
  trunc_Z f = Some u /\ in_u64 u = true /\ f_nonneg f = true.
Proof.
  cbn [b_uint]. destruct (trunc_Z f) as [z|]; [|discriminate].
  destruct (f_nonneg f && in_u64 z) eqn:E; [|discriminate]. intros [= <-].
  apply andb_true_iff in E as [E1 E2]. auto.
Qed.

Lemma int_uint_conv z :
  b_int (VUInt z) = (if z <=? i64_max then Ok (VInt z) else Err EInvalid) /\
  b_uint (VInt z) = (if 0 <=? z then Ok (VUInt z) else Err EInvalid) /\
  b_double (VInt z) = Ok (VDbl (f64_of_Z z)) /\ b_double (VUInt z) = Ok (VDbl (f64_of_Z z)).
Proof. repeat split. Qed.

(** string() followed by int() / uint() returns the original number. *)
Lemma digits_val_dec t a : all_digits t = true -> digits_val t a = Some (dec_num t a).
Proof.
  revert a; induction t as [|c t IH]; intros a H; cbn [digits_val dec_num]; [reflexivity|].
  cbn [all_digits forallb] in H. apply andb_true_iff in H as [Hc Ht].
  unfold is_digit in Hc. rewrite Hc. now apply IH.
Qed.

Lemma nat_digits_head n : 0 <= n ->
  exists c r, nat_digits n = c :: r /\ is_digit c = true.
Proof.
  intros Hn. destruct (nat_digits_ok n Hn) as (_ & H2 & H3).
  destruct (nat_digits n) as [|c r]; [congruence|]. exists c, r. split; [reflexivity|].
  cbn [all_digits forallb] in H2. now apply andb_true_iff in H2 as [H2 _].
Qed.

Lemma parse_int_text_of z signed : (signed = true \/ 0 <= z) ->
  parse_int_text signed (Z_text z) = Some z.
Proof.
  intros Hs. unfold Z_text. destruct (Z.ltb_spec z 0) as [Hneg|Hpos].
  - destruct Hs as [->|]; [|lia].
    destruct (nat_digits_ok (- z)) as (H1 & H2 & H3); [lia|].
    destruct (nat_digits (- z)) as [|c r] eqn:E; [congruence|].
    cbn [parse_int_text]. change ((45 =? 43)%N) with false. change ((45 =? 45)%N) with true. cbn iota.
    rewrite (digits_val_dec _ 0 H2), H1. cbn. f_equal. lia.
  - destruct (nat_digits_ok z Hpos) as (H1 & H2 & H3).
    destruct (nat_digits_head z Hpos) as (c & r & E & Hc). rewrite E in *.
    cbn [parse_int_text].
    assert (E1 : (c =? 43)%N = false) by (unfold is_digit in Hc; lia).
    assert (E2 : (c =? 45)%N = false) by (unfold is_digit in Hc; lia).
    rewrite E1, E2. rewrite (digits_val_dec _ 0 H2), H1. reflexivity.
Qed.

Lemma string_int_roundtrip z : in_i64 z = true ->
  (let! s := b_string (VInt z) in b_int s) = Ok (VInt z).
Proof. intros Hz. cbn. rewrite parse_int_text_of by now left. now rewrite Hz. Qed.

Lemma string_uint_roundtrip u : in_u64 u = true ->
  (let! s := b_string (VUInt u) in b_uint s) = Ok (VUInt u).
Proof.
  intros Hu. cbn. rewrite parse_int_text_of by (right; unfold in_u64 in Hu; lia). now rewrite Hu.
Qed.

(** ** bytes(string) / string(bytes): UTF-8 encode then decode is the identity on scalars *)
Open Scope N_scope.
Lemma utf8_step f c r acc : is_scalar c = true ->
  utf8_decode (S f) (utf8_enc1 c ++ r) acc = utf8_decode f r (c :: acc).
Proof.
  intros Hs. unfold is_scalar in Hs. unfold utf8_enc1.
  destruct (N.ltb_spec c 128) as [H1|H1].
  - cbn [app utf8_decode]. destruct (N.ltb_spec c 128); [reflexivity|lia].
  - destruct (N.ltb_spec c 2048) as [H2|H2].
    + cbn [app utf8_decode].
      assert (E0 : (192 + c / 64 <? 128) = false) by lia.
      assert (E1 : ((194 <=? 192 + c / 64) && (192 + c / 64 <=? 223)) = true) by lia.
      assert (E2 : ((128 <=? 128 + c mod 64) && (128 + c mod 64 <=? 191)) = true) by lia.
      rewrite E0, E1, E2. f_equal. f_equal. lia.
    + destruct (N.ltb_spec c 65536) as [H3|H3].
      * cbn [app utf8_decode].
        assert (E0 : (224 + c / 4096 <? 128) = false) by lia.
        assert (E1 : ((194 <=? 224 + c / 4096) && (224 + c / 4096 <=? 223)) = false) by lia.
        assert (E2 : ((224 <=? 224 + c / 4096) && (224 + c / 4096 <=? 239)) = true) by lia.
        assert (E3 : ((128 <=? 128 + (c / 64) mod 64) && (128 + (c / 64) mod 64 <=? 191)) = true) by lia.
        assert (E4 : ((128 <=? 128 + c mod 64) && (128 + c mod 64 <=? 191)) = true) by lia.
        rewrite E0, E1, E2, E3, E4.
        assert (Ec : (224 + c / 4096 - 224) * 4096 + (128 + (c / 64) mod 64 - 128) * 64 + (128 + c mod 64 - 128) = c) by lia.
        rewrite Ec. assert (E5 : (2048 <=? c) = true) by lia. rewrite E5.
        unfold is_scalar. rewrite Hs. reflexivity.
      * cbn [app utf8_decode].
        assert (Hc : c < 1114112) by lia.
        assert (E0 : (240 + c / 262144 <? 128) = false) by lia.
        assert (E1 : ((194 <=? 240 + c / 262144) && (240 + c / 262144 <=? 223)) = false) by lia.
        assert (E2 : ((224 <=? 240 + c / 262144) && (240 + c / 262144 <=? 239)) = false) by lia.
        assert (E2' : ((240 <=? 240 + c / 262144) && (240 + c / 262144 <=? 244)) = true) by lia.
        assert (E3 : ((128 <=? 128 + (c / 4096) mod 64) && (128 + (c / 4096) mod 64 <=? 191)) = true) by lia.
        assert (E4 : ((128 <=? 128 + (c / 64) mod 64) && (128 + (c / 64) mod 64 <=? 191)) = true) by lia.
        assert (E5 : ((128 <=? 128 + c mod 64) && (128 + c mod 64 <=? 191)) = true) by lia.
        rewrite E0, E1, E2, E2', E3, E4, E5.
        assert (Ec : (240 + c / 262144 - 240) * 262144 + (128 + (c / 4096) mod 64 - 128) * 4096 +
                     (128 + (c / 64) mod 64 - 128) * 64 + (128 + c mod 64 - 128) = c) by lia.
        rewrite Ec. assert (E6 : (65536 <=? c) = true) by lia. assert (E7 : (c <? 1114112) = true) by lia.
        now rewrite E6, E7.
Qed.

Lemma utf8_enc1_len c : (1 <= length (utf8_enc1 c))%nat.
Proof. unfold utf8_enc1. repeat match goal with |- context [if ?b then _ else _] => destruct b end; cbn; lia. Qed.

Lemma utf8_roundtrip_go s : forall f acc, forallb is_scalar s = true ->
  (length (utf8_enc s) < f)%nat ->
  utf8_decode f (utf8_enc s) acc = Some (rev' acc ++ s).
Proof.
  induction s as [|c s IH]; intros f acc Hs Hf.
  - destruct f; [cbn in Hf; lia|]. cbn. now rewrite app_nil_r.
  - cbn [forallb] in Hs. apply andb_true_iff in Hs as [Hc Hs].
    unfold utf8_enc in *. cbn [flat_map] in *. rewrite app_length in Hf.
    pose proof (utf8_enc1_len c).
    destruct f as [|f]; [lia|]. rewrite (utf8_step f c _ acc Hc).
    rewrite IH by (assumption || lia). unfold rev'. rewrite <- !rev_alt. cbn [rev].
    now rewrite <- app_assoc.
Qed.

Lemma utf8_roundtrip s : forallb is_scalar s = true -> utf8_dec (utf8_enc s) = Some s.
Proof. intros H. unfold utf8_dec. rewrite utf8_roundtrip_go by (assumption || lia). reflexivity. Qed.

Lemma string_bytes_roundtrip s : forallb is_scalar s = true ->
  (let! b := run_builtin FBytes [VStr s] in b_string b) = Ok (VStr s).
Proof. intros H. cbn [run_builtin obind b_string]. now rewrite utf8_roundtrip. Qed.
