(** C12: string and bytes literals denote exactly the characters written. *)
From Coq Require Import String Ascii.
From Cel.Model Require Import Literals.
From Coq Require Import Lia ZArith ZifyBool ZifyNat ZifyN.
Ltac Zify.zify_post_hook ::= Z.div_mod_to_equations.
Open Scope N_scope.

(** ** Rendering digits *)
Definition hexdigit (upper : bool) (d : N) : N :=
  if d <? 10 then 48 + d else (if upper then 55 else 87) + d.

Fixpoint hexd (upper : bool) (n : nat) (v : N) : str :=
  match n with
  | O => []
  | S n' => hexd upper n' (v / 16) ++ [hexdigit upper (v mod 16)]
  end.

Fixpoint octd (n : nat) (v : N) : str :=
  match n with
  | O => []
  | S n' => octd n' (v / 8) ++ [48 + v mod 8]
  end.

Lemma digit16 (P : N -> Prop) :
  P 0 -> P 1 -> P 2 -> P 3 -> P 4 -> P 5 -> P 6 -> P 7 -> P 8 -> P 9 -> P 10 -> P 11 -> P 12 ->
  P 13 -> P 14 -> P 15 -> forall d, d < 16 -> P d.
Proof.
  intros. assert (E : d = 0 \/ d = 1 \/ d = 2 \/ d = 3 \/ d = 4 \/ d = 5 \/ d = 6 \/ d = 7 \/ d = 8 \/
                      d = 9 \/ d = 10 \/ d = 11 \/ d = 12 \/ d = 13 \/ d = 14 \/ d = 15) by lia.
  repeat (destruct E as [->|E]; [assumption|]). now subst.
Qed.

Lemma hexdigit_ok u d : d < 16 -> hex_val (hexdigit u d) = d /\ is_hex (hexdigit u d) = true.
Proof. revert d. apply digit16; destruct u; split; reflexivity. Qed.

Lemma hex_num_app l d acc : hex_num (l ++ [d]) acc = hex_num l acc * 16 + hex_val d.
Proof. revert acc; induction l as [|c l IH]; intros acc; cbn [app hex_num]; [reflexivity|apply IH]. Qed.

Lemma hexd_props u n : forall v, v < 16 ^ N.of_nat n ->
  hex_num (hexd u n v) 0 = v /\ length (hexd u n v) = n /\ forallb is_hex (hexd u n v) = true.
Proof.
  induction n as [|n IH]; intros v Hv.
  - cbn. cbn in Hv. repeat split. lia.
  - cbn [hexd]. rewrite Nat2N.inj_succ, N.pow_succ_r' in Hv.
    destruct (IH (v / 16)) as (H1 & H2 & H3); [lia|].
    destruct (hexdigit_ok u (v mod 16)) as [D1 D2]; [lia|].
    rewrite hex_num_app, H1, D1, app_length, H2, forallb_app, H3. cbn [length forallb]. rewrite D2.
    repeat split; lia.
Qed.

Lemma oct_num_app l d acc : oct_num (l ++ [d]) acc = oct_num l acc * 8 + (d - 48).
Proof. revert acc; induction l as [|c l IH]; intros acc; cbn [app oct_num]; [reflexivity|apply IH]. Qed.

Lemma octd_props n : forall v, v < 8 ^ N.of_nat n ->
  oct_num (octd n v) 0 = v /\ length (octd n v) = n /\ forallb is_oct (octd n v) = true.
Proof.
  induction n as [|n IH]; intros v Hv.
  - cbn. cbn in Hv. repeat split. lia.
  - cbn [octd]. rewrite Nat2N.inj_succ, N.pow_succ_r' in Hv.
    destruct (IH (v / 8)) as (H1 & H2 & H3); [lia|].
    rewrite oct_num_app, H1, app_length, H2, forallb_app, H3. cbn [length forallb].
    assert (D : is_oct (48 + v mod 8) = true) by (unfold is_oct; lia).
    rewrite D. repeat split; lia.
Qed.

(** ** One step of [unescape] for each way of writing a character *)
Lemma un_verbatim f raw c r acc : (raw = true \/ c <> 92) ->
  unescape (S f) raw (c :: r) acc = unescape f raw r (UChar c :: acc).
Proof.
  intros H. cbn [unescape]. destruct raw; [reflexivity|].
  destruct H as [H|H]; [discriminate|]. apply N.eqb_neq in H. now rewrite H.
Qed.

Lemma un_simple f e v r acc : single_escape e = Some v ->
  unescape (S f) false (92 :: e :: r) acc = unescape f false r (UChar v :: acc).
Proof. intros H. cbn [unescape orb negb N.eqb Pos.eqb]. now rewrite H. Qed.

Lemma un_hex2 f (x : N) ds r acc : (x = ch "x" \/ x = ch "X") ->
  length ds = 2%nat -> forallb is_hex ds = true ->
  unescape (S f) false (92 :: x :: ds ++ r) acc = unescape f false r (USmall (hex_num ds 0) :: acc).
Proof.
  intros Hx Hl Hh. destruct ds as [|a [|b [|? ?]]]; try discriminate.
  cbn [unescape orb negb N.eqb Pos.eqb app].
  assert (Es : single_escape x = None) by (destruct Hx; subst; reflexivity).
  rewrite Es. cbn [firstn length Nat.eqb andb skipn].
  assert (Ex : ((x =? ch "x") || (x =? ch "X")) = true) by (destruct Hx; subst; reflexivity).
  rewrite Ex. cbn [firstn skipn length Nat.eqb andb]. now rewrite Hh.
Qed.

Lemma un_u4 f ds r acc : length ds = 4%nat -> forallb is_hex ds = true ->
  is_scalar (hex_num ds 0) = true ->
  unescape (S f) false (92 :: ch "u" :: ds ++ r) acc = unescape f false r (UChar (hex_num ds 0) :: acc).
Proof.
  intros Hl Hh Hs. destruct ds as [|a [|b [|c [|d [|? ?]]]]]; try discriminate.
  cbn [unescape orb negb N.eqb Pos.eqb app].
  change (single_escape (ch "u")) with (@None N).
  change ((ch "u" =? ch "x") || (ch "u" =? ch "X")) with false.
  change (ch "u" =? ch "u") with true. cbn [firstn skipn length Nat.eqb andb]. now rewrite Hh, Hs.
Qed.

Lemma un_u8 f ds r acc : length ds = 8%nat -> forallb is_hex ds = true ->
  is_scalar (hex_num ds 0) = true ->
  unescape (S f) false (92 :: ch "U" :: ds ++ r) acc = unescape f false r (UChar (hex_num ds 0) :: acc).
Proof.
  intros Hl Hh Hs.
  destruct ds as [|a [|b [|c [|d [|e [|g [|h [|i [|? ?]]]]]]]]]; try discriminate.
  cbn [unescape orb negb N.eqb Pos.eqb app].
  change (single_escape (ch "U")) with (@None N).
  change ((ch "U" =? ch "x") || (ch "U" =? ch "X")) with false.
  change (ch "U" =? ch "u") with false. change (ch "U" =? ch "U") with true.
  cbn [firstn skipn length Nat.eqb andb]. now rewrite Hh, Hs.
Qed.

Lemma un_oct f ds r acc : length ds = 3%nat -> forallb is_oct ds = true ->
  (match ds with d :: _ => d <= 51 | [] => False end) ->
  unescape (S f) false (92 :: ds ++ r) acc = unescape f false r (USmall (oct_num ds 0) :: acc).
Proof.
  intros Hl Ho Hd. destruct ds as [|a [|b [|c [|? ?]]]]; try discriminate.
  cbn [app]. cbn [forallb] in Ho. rewrite !andb_true_iff in Ho. destruct Ho as (Ha & Hb & Hc & _).
  assert (Ra : 48 <= a <= 51) by (unfold is_oct in Ha; lia).
  cbn [unescape orb negb N.eqb Pos.eqb].
  assert (Es : single_escape a = None).
  { unfold single_escape.
    repeat match goal with |- context [a =? ?k] => let E := fresh in destruct (a =? k) eqn:E; [apply N.eqb_eq in E; cbn in E; lia|] end.
    reflexivity. }
  rewrite Es.
  assert (E1 : ((a =? ch "x") || (a =? ch "X")) = false) by (cbn; lia).
  assert (E2 : (a =? ch "u") = false) by (cbn; lia).
  assert (E3 : (a =? ch "U") = false) by (cbn; lia).
  assert (E4 : ((48 <=? a) && (a <=? 51)) = true) by lia.
  rewrite E1, E2, E3, E4. cbn [firstn skipn length Nat.eqb andb forallb]. now rewrite Ha, Hb, Hc.
Qed.

(** ** Spelling a string in a one-quote style, with a free choice per character *)
Inductive choice := CVerb | CSimple | CHexL | CHexU | COct | CU4 | CU8.

Definition simple_for (c : N) : option N :=
  if c =? 7 then Some (ch "a") else if c =? 8 then Some (ch "b") else if c =? 12 then Some (ch "f")
  else if c =? 10 then Some (ch "n") else if c =? 13 then Some (ch "r") else if c =? 9 then Some (ch "t")
  else if c =? 11 then Some (ch "v")
  else if (c =? 92) || (c =? ch "?") || (c =? 34) || (c =? 39) || (c =? 96) then Some c
  else None.

Definition render1 (q c : N) (k : choice) : option str :=
  match k with
  | CVerb => if (c =? q) || (c =? 92) || (c =? 10) || (c =? 13) then None else Some [c]
  | CSimple => option_map (fun e => [92; e]) (simple_for c)
  | CHexL => if c <? 256 then Some (92 :: ch "x" :: hexd false 2 c) else None
  | CHexU => if c <? 256 then Some (92 :: ch "X" :: hexd true 2 c) else None
  | COct => if c <? 256 then Some (92 :: octd 3 c) else None
  | CU4 => if c <? 65536 then Some (92 :: ch "u" :: hexd false 4 c) else None
  | CU8 => if c <? 4294967296 then Some (92 :: ch "U" :: hexd true 8 c) else None
  end.

Fixpoint render (q : N) (s : str) (ks : list choice) : option str :=
  match s, ks with
  | [], [] => Some []
  | c :: s', k :: ks' =>
      match render1 q c k, render q s' ks' with
      | Some a, Some b => Some (a ++ b)
      | _, _ => None
      end
  | _, _ => None
  end.

Definition unit_cp (u : unit_) : N := match u with UChar c => c | USmall b => b end.

Lemma simple_for_inv c e : simple_for c = Some e -> single_escape e = Some c.
Proof.
  unfold simple_for.
  repeat match goal with
         | |- context [c =? ?k] =>
             let E := fresh in destruct (c =? k) eqn:E; [apply N.eqb_eq in E; subst; cbn|cbn [orb]]
         end; try (intros [= <-]; reflexivity); discriminate.
Qed.

(** One rendered character is decoded back to that character. *)
Ltac inj_some H :=
  match type of H with
  | Some ?x = Some ?y => let E := fresh in assert (E : y = x) by congruence; subst y; clear H
  end.

Lemma un_render1 q c k a : render1 q c k = Some a -> is_scalar c = true ->
  forall f r acc, exists u,
    unescape (S f) false (a ++ r) acc = unescape f false r (u :: acc) /\ unit_cp u = c.
Proof.
  intros Hr Hs f r acc. destruct k; unfold render1 in Hr.
  - destruct ((c =? q) || (c =? 92) || (c =? 10) || (c =? 13)) eqn:E; [discriminate|].
    inj_some Hr. exists (UChar c). split; [|reflexivity].
    cbn [app]. apply un_verbatim. right. lia.
  - destruct (simple_for c) as [e|] eqn:E; [|discriminate]. cbn [option_map] in Hr. inj_some Hr.
    exists (UChar c). split; [|reflexivity]. cbn [app]. apply un_simple. now apply simple_for_inv.
  - destruct (c <? 256) eqn:E; [|discriminate]. inj_some Hr.
    destruct (hexd_props false 2 c) as (H1 & H2 & H3); [cbn; lia|].
    exists (USmall c). split; [|reflexivity]. rewrite <- ?app_comm_cons.
    rewrite (un_hex2 f (ch "x") (hexd false 2 c) r acc (or_introl eq_refl) H2 H3). now rewrite H1.
  - destruct (c <? 256) eqn:E; [|discriminate]. inj_some Hr.
    destruct (hexd_props true 2 c) as (H1 & H2 & H3); [cbn; lia|].
    exists (USmall c). split; [|reflexivity]. rewrite <- ?app_comm_cons.
    rewrite (un_hex2 f (ch "X") (hexd true 2 c) r acc (or_intror eq_refl) H2 H3). now rewrite H1.
  - destruct (c <? 256) eqn:E; [|discriminate]. inj_some Hr.
    destruct (octd_props 3 c) as (H1 & H2 & H3); [cbn; lia|].
    exists (USmall c). split; [|reflexivity]. rewrite <- ?app_comm_cons.
    rewrite (un_oct f (octd 3 c) r acc H2 H3); [now rewrite H1|].
    cbn [octd app]. lia.
  - destruct (c <? 65536) eqn:E; [|discriminate]. inj_some Hr.
    destruct (hexd_props false 4 c) as (H1 & H2 & H3); [cbn; lia|].
    exists (UChar c). split; [|reflexivity]. rewrite <- ?app_comm_cons.
    rewrite (un_u4 f (hexd false 4 c) r acc H2 H3); rewrite H1; [reflexivity|assumption].
  - destruct (c <? 4294967296) eqn:E; [|discriminate]. inj_some Hr.
    destruct (hexd_props true 8 c) as (H1 & H2 & H3); [cbn; lia|].
    exists (UChar c). split; [|reflexivity]. rewrite <- ?app_comm_cons.
    rewrite (un_u8 f (hexd true 8 c) r acc H2 H3); rewrite H1; [reflexivity|assumption].
Qed.

Lemma render1_nonempty q c k a : render1 q c k = Some a -> (1 <= length a)%nat.
Proof.
  destruct k; cbn [render1]; repeat match goal with |- context [if ?b then _ else _] => destruct b end;
    try discriminate; try (intros [= <-]; cbn; lia).
  destruct (simple_for c); [intros [= <-]; cbn; lia|discriminate].
Qed.

Lemma un_render q s : forall ks body, render q s ks = Some body ->
  forallb is_scalar s = true ->
  forall f acc, (length body < f)%nat ->
  exists us, unescape f false body acc = Some (rev' acc ++ us) /\ map unit_cp us = s.
Proof.
  induction s as [|c s IH]; intros ks body Hr Hs f acc Hf.
  - destruct ks; [|discriminate]. injection Hr as <-. exists []. split; [|reflexivity].
    destruct f; [cbn in Hf; lia|]. cbn. now rewrite app_nil_r.
  - destruct ks as [|k ks]; [discriminate|]. cbn [render] in Hr.
    destruct (render1 q c k) as [a|] eqn:E1; [|discriminate].
    destruct (render q s ks) as [b|] eqn:E2; [|discriminate]. injection Hr as <-.
    cbn [forallb] in Hs. apply andb_true_iff in Hs as [Hc Hs].
    pose proof (render1_nonempty q c k a E1) as Hn. rewrite app_length in Hf.
    destruct f as [|f]; [lia|].
    destruct (un_render1 q c k a E1 Hc f b acc) as (u & Hu & Ucp). rewrite Hu.
    destruct (IH ks b E2 Hs f (u :: acc)) as (us & H1 & H2); [lia|].
    exists (u :: us). split.
    + rewrite H1. f_equal. unfold rev'. rewrite <- !rev_alt. cbn [rev]. now rewrite <- app_assoc.
    + cbn [map]. now rewrite Ucp, H2.
Qed.

(** Delimiter stripping for a one-quote literal whose body does not begin with the quote. *)
Lemma strip_short q body : (q = 34 \/ q = 39) ->
  (match body with c :: _ => c <> q | [] => True end) ->
  strip_delims (q :: body ++ [q]) = Some body.
Proof.
  intros Hq Hb. unfold strip_delims.
  assert (Eq : ((q =? 34) || (q =? 39)) = true) by (destruct Hq; subst; reflexivity). rewrite Eq.
  assert (Et : match body ++ [q] with
               | q2 :: q3 :: _ =>
                   ((q2 =? q) && (q3 =? q)) && Nat.leb 6 (length (q :: body ++ [q])) &&
                   match rev' (q :: body ++ [q]) with
                   | e1 :: e2 :: e3 :: _ => (e1 =? q) && (e2 =? q) && (e3 =? q)
                   | _ => false
                   end
               | _ => false
               end = false).
  { destruct body as [|c body]; [reflexivity|]. cbn [app].
    destruct (body ++ [q]) eqn:E; [destruct body; discriminate|].
    assert (c =? q = false) by (apply N.eqb_neq; exact Hb). now rewrite H. }
  rewrite Et.
  assert (Er : rev' (q :: body ++ [q]) = q :: rev' body ++ [q]).
  { unfold rev'. rewrite <- !rev_alt. cbn [rev]. rewrite rev_app_distr. reflexivity. }
  rewrite Er. rewrite N.eqb_refl.
  assert (El : Nat.ltb (length (q :: body ++ [q])) (2 * 1) = false).
  { apply Nat.ltb_ge. cbn [length]. rewrite app_length. cbn. lia. }
  rewrite El. f_equal. cbn [skipn length].
  rewrite app_length. cbn [length].
  replace (S (length body + 1) - 2 * 1)%nat with (length body) by lia.
  rewrite firstn_app, Nat.sub_diag, firstn_all. cbn. now rewrite app_nil_r.
Qed.

Lemma render1_head q c k a : (q = 34 \/ q = 39) -> render1 q c k = Some a ->
  exists h t, a = h :: t /\ h <> q.
Proof.
  intros Hq Hr. destruct k; unfold render1 in Hr.
  - destruct ((c =? q) || (c =? 92) || (c =? 10) || (c =? 13)) eqn:E; [discriminate|].
    inj_some Hr. exists c, []. split; [reflexivity|lia].
  - destruct (simple_for c) as [e|]; [|discriminate]. cbn [option_map] in Hr. inj_some Hr.
    exists 92, [e]. split; [reflexivity|lia].
  - destruct (c <? 256); [|discriminate]. inj_some Hr. eexists 92, _. split; [reflexivity|lia].
  - destruct (c <? 256); [|discriminate]. inj_some Hr. eexists 92, _. split; [reflexivity|lia].
  - destruct (c <? 256); [|discriminate]. inj_some Hr. eexists 92, _. split; [reflexivity|lia].
  - destruct (c <? 65536); [|discriminate]. inj_some Hr. eexists 92, _. split; [reflexivity|lia].
  - destruct (c <? 4294967296); [|discriminate]. inj_some Hr. eexists 92, _. split; [reflexivity|lia].
Qed.

Lemma render_head q s ks body : (q = 34 \/ q = 39) -> render q s ks = Some body ->
  match body with c :: _ => c <> q | [] => True end.
Proof.
  intros Hq. destruct s as [|c s], ks as [|k ks]; cbn [render]; try discriminate.
  - intros H. inj_some H. exact I.
  - destruct (render1 q c k) as [a|] eqn:E; [|discriminate].
    destruct (render q s ks) as [b|]; [|discriminate]. intros H. inj_some H.
    destruct (render1_head q c k a Hq E) as (h & t & -> & Hh). exact Hh.
Qed.

(** ** Round trip: a string spelled in a one-quote style, with any per-character choice
    between verbatim and every applicable escape form, decodes to itself. *)
Theorem string_roundtrip_short q s ks body :
  (q = 34 \/ q = 39) -> forallb is_scalar s = true -> render q s ks = Some body ->
  decode_string (q :: body ++ [q]) = Some s.
Proof.
  intros Hq Hs Hr. unfold decode_string, decode_units, literal_body.
  assert (E : ((q =? ch "r") || (q =? ch "R")) = false) by (destruct Hq; subst; reflexivity).
  rewrite E. rewrite (strip_short q body Hq (render_head q s ks body Hq Hr)). cbn [option_map].
  destruct (un_render q s ks body Hr Hs (S (length body)) []) as (us & Hu & Hm); [lia|].
  rewrite Hu. cbn [option_map rev' rev_append app]. f_equal. exact Hm.
Qed.

(** The same for bytes literals: the decoded bytes are the \x / octal bytes and the UTF-8
    encodings of everything else. *)
Definition unit_bytes (u : unit_) : list N := match u with UChar c => utf8_enc1 c | USmall b => [b] end.

Theorem bytes_decode_short p q s ks body :
  (p = ch "b" \/ p = ch "B") -> (q = 34 \/ q = 39) -> forallb is_scalar s = true ->
  render q s ks = Some body ->
  exists us, decode_bytes (p :: q :: body ++ [q]) = Some (flat_map unit_bytes us) /\ map unit_cp us = s.
Proof.
  intros Hp Hq Hs Hr. unfold decode_bytes, decode_units, literal_body.
  assert (E : ((q =? ch "r") || (q =? ch "R")) = false) by (destruct Hq; subst; reflexivity).
  rewrite E. rewrite (strip_short q body Hq (render_head q s ks body Hq Hr)). cbn [option_map].
  destruct (un_render q s ks body Hr Hs (S (length body)) []) as (us & Hu & Hm); [lia|].
  rewrite Hu. cbn [option_map rev' rev_append app]. exists us. split; [reflexivity|exact Hm].
Qed.

(** Raw one-quote literals are taken verbatim. *)
Lemma un_raw s : forall f acc, (length s < f)%nat ->
  unescape f true s acc = Some (rev' acc ++ map UChar s).
Proof.
  induction s as [|c s IH]; intros f acc Hf; (destruct f as [|f]; [cbn in Hf; lia|]).
  - cbn. now rewrite app_nil_r.
  - rewrite un_verbatim by now left. rewrite IH by (cbn in Hf; lia).
    f_equal. unfold rev'. rewrite <- !rev_alt. cbn [rev map]. now rewrite <- app_assoc.
Qed.

Theorem raw_verbatim_short p q s :
  (p = ch "r" \/ p = ch "R") -> (q = 34 \/ q = 39) ->
  (match s with c :: _ => c <> q | [] => True end) ->
  decode_string (p :: q :: s ++ [q]) = Some s.
Proof.
  intros Hp Hq Hh. unfold decode_string, decode_units, literal_body.
  assert (E : ((p =? ch "r") || (p =? ch "R")) = true) by (destruct Hp; subst; reflexivity).
  rewrite E. rewrite (strip_short q s Hq Hh). cbn [option_map].
  rewrite un_raw by lia. cbn [option_map rev' rev_append app]. f_equal.
  rewrite map_map. cbn [unit_cp]. apply map_id.
Qed.

(** The escape table. *)
Lemma escape_table :
  map (fun e => decode_string [34; 92; e; 34])
      [ch "a"; ch "b"; ch "f"; ch "n"; ch "r"; ch "t"; ch "v"; 92; ch "?"; 34; 39; 96] =
  map (fun v => Some [v]) [7; 8; 12; 10; 13; 9; 11; 92; 63; 34; 39; 96].
Proof. reflexivity. Qed.

(** Escapes that name no valid code point, or are not escapes, reject the literal. *)
Lemma invalid_escapes :
  map decode_string
      [$"'\ud800'"; $"'\udfff'"; $"'\U00110000'"; $"'\UFFFFFFFF'"; $"'\q'"; $"'\x4'"; $"'\u12'"; $"'\'"] =
  [None; None; None; None; None; None; None; None].
Proof. reflexivity. Qed.
(** Delimiter stripping for the triple-quoted forms: whatever the body is. *)
Lemma strip_long q body : (q = 34 \/ q = 39) ->
  strip_delims (q :: q :: q :: body ++ [q; q; q]) = Some body.
Proof.
  intros Hq. unfold strip_delims.
  assert (Eq : ((q =? 34) || (q =? 39)) = true) by (destruct Hq; subst; reflexivity). rewrite Eq.
  assert (Er : rev' (q :: q :: q :: body ++ [q; q; q]) = q :: q :: q :: rev' body ++ [q; q; q]).
  { unfold rev'. rewrite <- !rev_alt. cbn [rev]. rewrite rev_app_distr. cbn [rev app]. rewrite <- !app_assoc. reflexivity. }
  rewrite Er, !N.eqb_refl. cbn [andb].
  assert (El : Nat.leb 6 (length (q :: q :: q :: body ++ [q; q; q])) = true).
  { apply Nat.leb_le. cbn [length]. rewrite app_length. cbn [length]. lia. }
  rewrite El. cbv beta iota zeta.
  assert (El2 : Nat.ltb (length (q :: q :: q :: body ++ [q; q; q])) (2 * 3) = false).
  { apply Nat.ltb_ge. cbn [length]. rewrite app_length. cbn [length]. lia. }
  cbn [andb]. cbv iota. rewrite El2. f_equal. cbn [skipn length]. rewrite app_length. cbn [length].
  replace (S (S (S (length body + 3))) - 2 * 3)%nat with (length body) by lia.
  rewrite firstn_app, Nat.sub_diag, firstn_all. cbn. now rewrite app_nil_r.
Qed.

Theorem string_roundtrip_long q s ks body :
  (q = 34 \/ q = 39) -> forallb is_scalar s = true -> render q s ks = Some body ->
  decode_string (q :: q :: q :: body ++ [q; q; q]) = Some s.
Proof.
  intros Hq Hs Hr. unfold decode_string, decode_units, literal_body.
  assert (E : ((q =? ch "r") || (q =? ch "R")) = false) by (destruct Hq; subst; reflexivity).
  rewrite E. rewrite (strip_long q body Hq). cbn [option_map].
  destruct (un_render q s ks body Hr Hs (S (length body)) []) as (us & Hu & Hm); [lia|].
  rewrite Hu. cbn [option_map rev' rev_append app]. f_equal. exact Hm.
Qed.

Theorem bytes_decode_long p q s ks body :
  (p = ch "b" \/ p = ch "B") -> (q = 34 \/ q = 39) -> forallb is_scalar s = true ->
  render q s ks = Some body ->
  exists us, decode_bytes (p :: q :: q :: q :: body ++ [q; q; q]) = Some (flat_map unit_bytes us) /\ map unit_cp us = s.
Proof.
  intros Hp Hq Hs Hr. unfold decode_bytes, decode_units, literal_body.
  assert (E : ((q =? ch "r") || (q =? ch "R")) = false) by (destruct Hq; subst; reflexivity).
  rewrite E. rewrite (strip_long q body Hq). cbn [option_map].
  destruct (un_render q s ks body Hr Hs (S (length body)) []) as (us & Hu & Hm); [lia|].
  rewrite Hu. cbn [option_map rev' rev_append app]. exists us. split; [reflexivity|exact Hm].
Qed.

(** Raw triple-quoted literals are taken verbatim - any characters, quotes and newlines included. *)
Theorem raw_verbatim_long p q s :
  (p = ch "r" \/ p = ch "R") -> (q = 34 \/ q = 39) ->
  decode_string (p :: q :: q :: q :: s ++ [q; q; q]) = Some s.
Proof.
  intros Hp Hq. unfold decode_string, decode_units, literal_body.
  assert (E : ((p =? ch "r") || (p =? ch "R")) = true) by (destruct Hp; subst; reflexivity).
  rewrite E. rewrite (strip_long q s Hq). cbn [option_map].
  rewrite un_raw by lia. cbn [option_map rev' rev_append app]. f_equal.
  rewrite map_map. cbn [unit_cp]. apply map_id.
Qed.
