(** C01: positions reported for byte offsets lie inside the source; the lexer rejects
    characters no token rule starts with and unterminated short string literals. *)
From Coq Require Import String Ascii.
From Cel.Model Require Import Parser Position.
From Coq Require Import Lia.

Lemma nchars_app a b : nchars (a ++ b) = (nchars a + nchars b)%nat.
Proof. unfold nchars. now rewrite filter_app, app_length. Qed.
Lemma nchars_le bs : (nchars bs <= length bs)%nat.
Proof. unfold nchars. induction bs as [|b bs IH]; cbn [filter length]; [lia|]. destruct (negb (is_cont b)); cbn [length]; lia. Qed.

(** the column of an offset inside a line: at most the line's character count when the offset
    is the start of a character, and never more than one past it *)
Lemma col_in_line p k : (k < length p)%nat ->
  (nchars (firstn k p) + 1 <= nchars p + 1)%nat /\
  (is_cont (nth k p 0%N) = false -> (nchars (firstn k p) + 1 <= nchars p)%nat).
Proof.
  intros Hk. assert (E0 : nchars p = (nchars (firstn k p) + nchars (skipn k p))%nat)
    by (rewrite <- nchars_app, firstn_skipn; reflexivity).
  split; [lia|].
  intros Hc. destruct (skipn k p) as [|b r] eqn:E.
  - pose proof (skipn_length k p) as L. rewrite E in L. cbn in L. lia.
  - assert (Hb : nth k p 0%N = b).
    { rewrite <- (firstn_skipn k p) at 1. rewrite app_nth2 by (rewrite firstn_length; lia).
      rewrite firstn_length, E. replace (k - Nat.min k (length p))%nat with O by lia. reflexivity. }
    rewrite Hb in Hc. assert (1 <= nchars (b :: r))%nat by (unfold nchars; cbn [filter]; rewrite Hc; cbn [negb length]; lia).
    lia.
Qed.

Lemma pos_in_bounds pieces : forall start offset line l c,
  (offset <= start)%nat ->
  pos_in pieces start offset line = Some (l, c) ->
  (line < l <= line + length pieces)%nat /\
  exists piece k, nth_error pieces (l - line - 1) = Some piece /\ (k < length piece)%nat /\
                  c = (nchars (firstn k piece) + 1)%nat.
Proof.
  induction pieces as [|p rest IH]; intros start offset line l c Hle; cbn [pos_in]; [discriminate|].
  destruct (Nat.ltb_spec start (offset + length p)) as [H|H].
  - intros [= <- <-]. split; [cbn; lia|].
    exists p, (start - offset)%nat. replace (S line - line - 1)%nat with O by lia. split; [reflexivity|]. split; [lia|reflexivity].
  - intros Hp. destruct (IH start (offset + length p)%nat (S line) l c H Hp) as (H1 & piece & k & H2 & H3).
    split; [cbn; lia|]. exists piece, k. split; [|assumption].
    replace (l - line - 1)%nat with (S (l - S line - 1)) by lia. exact H2.
Qed.

Lemma pos_in_total pieces : forall start offset line,
  (offset <= start)%nat ->
  (start < offset + list_sum (map (@length N) pieces))%nat ->
  pos_in pieces start offset line <> None.
Proof.
  induction pieces as [|p rest IH]; intros start offset line Hle H.
  - cbn in H. lia.
  - cbn [pos_in].
    change (list_sum (map (@length N) (p :: rest)))
      with (length p + list_sum (map (@length N) rest))%nat in H.
    destruct (Nat.ltb_spec start (offset + length p)); [intros E; discriminate E|].
    apply IH; lia.
Qed.

Lemma rev'_length {A} (l : list A) : length (rev' l) = length l.
Proof. unfold rev'. rewrite <- rev_alt. apply rev_length. Qed.

Lemma split_inclusive_length s : forall cur,
  list_sum (map (@length N) (split_inclusive s cur)) = (length s + length cur)%nat.
Proof.
  induction s as [|c r IH]; intros cur; cbn [split_inclusive].
  - destruct cur as [|x cur]; [reflexivity|].
    change (list_sum (map (@length N) [rev' (x :: cur)])) with (length (rev' (x :: cur)) + 0)%nat.
    rewrite rev'_length. cbn [length]. lia.
  - destruct (c =? 10)%N.
    + change (list_sum (map (@length N) (rev' (c :: cur) :: split_inclusive r [])))
        with (length (rev' (c :: cur)) + list_sum (map (@length N) (split_inclusive r [])))%nat.
      rewrite IH, rev'_length. cbn [length]. lia.
    + rewrite IH. cbn [length]. lia.
Qed.

(** Every offset inside the source has a position, and every position reported lies on an
    existing line, at a column - counted in characters - between 1 and one past that line's
    character count (newline included); at most the character count when the offset is where a
    character starts (every token does). *)
Lemma pos_for_in_source src start :
  ((start < length src)%nat -> pos_for src start <> None) /\
  forall l c, pos_for src start = Some (l, c) ->
    (1 <= l <= length (split_inclusive src []))%nat /\
    exists piece k, nth_error (split_inclusive src []) (l - 1) = Some piece /\ (k < length piece)%nat /\
                    (1 <= c <= nchars piece + 1)%nat /\
                    (is_cont (nth k piece 0%N) = false -> (c <= nchars piece)%nat).
Proof.
  split.
  - intros H. apply pos_in_total; [lia|]. rewrite split_inclusive_length. cbn. lia.
  - intros l c H. destruct (pos_in_bounds _ start 0 0 l c ltac:(lia) H) as (H1 & piece & k & H2 & H3 & ->).
    split; [lia|]. exists piece, k. split; [now replace (l - 1)%nat with (l - 0 - 1)%nat by lia|]. split; [exact H3|].
    destruct (col_in_line piece k H3) as [A B]. split; [lia|exact B].
Qed.

(** A character no token rule can start with rejects the source at that point. *)
Definition unknown_start (c : N) : bool :=
  negb (is_ws c || is_ident_start c || is_digit c ||
        existsb (N.eqb c) [34; 39; 96; 61; 33; 60; 62; 38; 124; 47; 91; 93; 123; 125; 40; 41;
                           46; 44; 45; 63; 58; 43; 42; 37]%N).

Lemma lex_one_unknown c r : unknown_start c = true -> lex_one (c :: r) = None.
Proof.
  unfold unknown_start. rewrite negb_true_iff, !orb_false_iff. intros [[[Hws Hid] Hd] Hop].
  cbn [existsb] in Hop. rewrite !orb_false_iff in Hop.
  repeat match goal with H : _ /\ _ |- _ => destruct H end.
  repeat match goal with H : (c =? _)%N = false |- _ => apply N.eqb_neq in H end.
  assert (Hb : bytes_tok_len (c :: r) = None).
  { unfold bytes_tok_len. unfold is_ident_start, is_letter in Hid. rewrite orb_false_iff in Hid.
    destruct Hid as [Hl _]. rewrite orb_false_iff in Hl. destruct Hl as [Hu Hlo].
    destruct (c =? ch "b")%N eqn:E1; [apply N.eqb_eq in E1; subst; discriminate|].
    destruct (c =? ch "B")%N eqn:E2; [apply N.eqb_eq in E2; subst; discriminate|]. reflexivity. }
  assert (Hs : string_tok_len (c :: r) = None).
  { unfold string_tok_len. unfold is_ident_start, is_letter in Hid. rewrite orb_false_iff in Hid.
    destruct Hid as [Hl _]. rewrite orb_false_iff in Hl. destruct Hl as [Hu Hlo].
    destruct (c =? ch "r")%N eqn:E1; [apply N.eqb_eq in E1; subst; discriminate|].
    destruct (c =? ch "R")%N eqn:E2; [apply N.eqb_eq in E2; subst; discriminate|]. cbn [orb].
    unfold string_len.
    destruct (c =? 34)%N eqn:E3; [apply N.eqb_eq in E3; contradiction|].
    destruct (c =? 39)%N eqn:E4; [apply N.eqb_eq in E4; contradiction|]. reflexivity. }
  assert (Hn : num_tok (c :: r) = None).
  { unfold num_tok. cbn [span]. rewrite Hd.
    destruct (c =? 46)%N eqn:E; [apply N.eqb_eq in E; contradiction|]. reflexivity. }
  unfold lex_one. rewrite Hb, Hs, Hws, Hid, Hn.
  repeat match goal with
         | |- context [(c =? ?k)%N] =>
             let E := fresh in destruct (c =? k)%N eqn:E;
             [apply N.eqb_eq in E; subst; try contradiction; try discriminate; exfalso; auto|]
         end.
  all: try reflexivity.
Qed.

(** A short (single-quoted or double-quoted) string body without a closing quote does not
    lex. *)
Lemma In_skipn {A} (x : A) k l : In x (skipn k l) -> In x l.
Proof.
  revert l; induction k as [|k IH]; intros l H; [exact H|].
  destruct l as [|y l]; [destruct H|]. right. now apply IH.
Qed.

Lemma scan_short_unterminated fuel : forall q raw s n, ~ In q s -> scan_short fuel q raw s n = None.
Proof.
  induction fuel as [|fuel IH]; intros q raw s n Hq; cbn [scan_short]; [reflexivity|].
  destruct s as [|c r]; [reflexivity|].
  destruct (c =? q)%N eqn:E; [apply N.eqb_eq in E; subst; exfalso; apply Hq; now left|].
  destruct ((c =? 10) || (c =? 13))%N; [reflexivity|].
  assert (Hr : ~ In q r) by (intros H; apply Hq; now right).
  destruct ((c =? 92)%N && negb raw).
  - destruct (esc_len r) as [k|]; [|reflexivity]. apply IH. intros H. apply Hr. eapply In_skipn; eauto.
  - now apply IH.
Qed.
