(** The surface trees of macro calls: what [ast] (the expander applied at the call node) gives
    for each macro form, and when such a tree is well formed. *)
From Coq Require Import String.
From Cel.Model Require Import Parser.
From Cel.Model Require Import Surface.
From Cel.Proofs Require Import ParserRoundtrip.

Lemma macro_asts a x p q f :
  ast (SMCall a $"all" [SId x; p]) = expand_all (ast a) x (ast p) /\
  ast (SMCall a $"exists" [SId x; p]) = expand_exists (ast a) x (ast p) /\
  ast (SMCall a $"exists_one" [SId x; p]) = expand_exists_one (ast a) x (ast p) /\
  ast (SMCall a $"existsOne" [SId x; p]) = expand_exists_one (ast a) x (ast p) /\
  ast (SMCall a $"filter" [SId x; p]) = expand_filter (ast a) x (ast p) /\
  ast (SMCall a $"map" [SId x; p]) = expand_map (ast a) x None (ast p) /\
  ast (SMCall a $"map" [SId x; p; q]) = expand_map (ast a) x (Some (ast p)) (ast q) /\
  ast (SCall $"has" [SSel a f]) = ESelect (ast a) f true.
Proof. repeat split; reflexivity. Qed.

Definition macro2 (m : str) : Prop :=
  m = $"all" \/ m = $"exists" \/ m = $"exists_one" \/ m = $"existsOne" \/ m = $"filter" \/ m = $"map".

Lemma macro_wf a m x p q f : macro2 m ->
  (wf_st (SMCall a m [SId x; p]) <-> wf_st a /\ wf_st p) /\
  (wf_st (SMCall a $"map" [SId x; p; q]) <-> wf_st a /\ wf_st p /\ wf_st q) /\
  (wf_st (SCall $"has" [SSel a f]) <-> wf_st a).
Proof.
  intros Hm. split; [|split].
  - destruct Hm as [->|[->|[->|[->|[->| ->]]]]]; cbn; intuition.
  - cbn; intuition.
  - cbn; intuition.
Qed.

(** The iteration variable must be a plain name: any other first argument is refused. *)
Lemma macro_var_needed a m v p : macro2 m -> (forall x, ast v <> EIdent x) -> ~ wf_st (SMCall a m [v; p]).
Proof.
  intros Hm Hv [W _]. revert W. unfold call_ok, expand_call. cbn [map length].
  destruct Hm as [->|[->|[->|[->|[->| ->]]]]]; cbn; destruct (ast v) eqn:E; try discriminate; exfalso; eapply Hv; reflexivity.
Qed.
