(** C11: variables resolve to the innermost binding and scopes never leak. *)
From Coq Require Import String.
From Cel.Model Require Import Eval Macros.
From Cel.Proofs Require Import EvalBase CtxEquiv MacroProofs.
From Coq Require Import Lia.

Lemma str_eqb_true_eq a b : str_eqb a b = true -> a = b.
Proof.
  revert b; induction a as [|x a IH]; intros [|y b]; cbn; try discriminate; auto.
  rewrite andb_true_iff, N.eqb_eq. intros [-> H]. f_equal. auto.
Qed.

(** The latest definition of a name within a scope wins. *)
Lemma assoc_latest x (v : value) (s : scope) : str_assoc x ((x, v) :: s) = Some v.
Proof. cbn. now rewrite str_eqb_refl. Qed.

(** A lookup returns the binding of the innermost scope that defines the name. *)
Lemma lookup_innermost x ss v :
  lookup_scopes x ss = Some v <->
  exists pre s post, ss = pre ++ s :: post /\
                     (forall s', In s' pre -> str_assoc x s' = None) /\ str_assoc x s = Some v.
Proof.
  induction ss as [|s ss IH]; cbn [lookup_scopes].
  - split; [discriminate|]. intros (pre & s & post & E & _). destruct pre; discriminate.
  - destruct (str_assoc x s) as [w|] eqn:Es.
    + split.
      * intros [= <-]. exists [], s, ss. repeat split; [intros s' []|assumption].
      * intros (pre & s0 & post & E & Hpre & Hs). destruct pre as [|p pre]; cbn in E.
        -- injection E as <- <-. congruence.
        -- injection E as <- _. rewrite (Hpre s (or_introl eq_refl)) in Es. discriminate.
    + rewrite IH. split.
      * intros (pre & s0 & post & -> & Hpre & Hs). exists (s :: pre), s0, post.
        repeat split; [|assumption]. intros s' [<-|Hin]; auto.
      * intros (pre & s0 & post & E & Hpre & Hs). destruct pre as [|p pre]; cbn in E.
        -- injection E as <- <-. congruence.
        -- injection E as <- ->. exists pre, s0, post. repeat split; [|assumption].
           intros s' Hin. apply Hpre. now right.
Qed.

Lemma lookup_none x ss :
  lookup_scopes x ss = None <-> forall s, In s ss -> str_assoc x s = None.
Proof.
  induction ss as [|s ss IH]; cbn [lookup_scopes].
  - split; [intros _ s []|reflexivity].
  - destruct (str_assoc x s) eqn:Es.
    + split; [discriminate|]. intros H. rewrite (H s (or_introl eq_refl)) in Es. discriminate.
    + rewrite IH. split; [intros H s' [<-|Hin]; auto|intros H s' Hin; apply H; now right].
Qed.

Lemma pop_push c : pop (push c) = c.
Proof. destruct c; reflexivity. Qed.

(** Inner scopes never alter their parents: whatever sequence of operations runs while
    [S d] inner levels are open above [base], the scopes [base] stay exactly as they were. *)
Lemma run_preserves_base ops : forall d c outs base inner,
  length inner = S d -> scopes c = inner ++ base ->
  let '(d', c', _) := fold_left run_cop ops (d, c, outs) in
  exists inner', length inner' = S d' /\ scopes c' = inner' ++ base /\ funs c' = funs c.
Proof.
  induction ops as [|o ops IH]; intros d c outs base inner Hl Hs; cbn [fold_left].
  - exists inner. auto.
  - destruct o as [x v| | |x]; cbn [run_cop].
    + destruct inner as [|s inner]; [discriminate|].
      specialize (IH d (define c x v) outs base (((x, v) :: s) :: inner)).
      cbn [define scopes] in IH. rewrite Hs in IH. cbn [app] in IH.
      specialize (IH Hl eq_refl).
      destruct (fold_left run_cop ops (d, define c x v, outs)) as [[d' c'] o'].
      destruct IH as (inner' & H1 & H2 & H3). exists inner'. auto.
    + specialize (IH (S d) (push c) outs base ([] :: inner)).
      cbn [push scopes] in IH. rewrite Hs in IH. specialize (IH ltac:(cbn; lia) eq_refl).
      destruct (fold_left run_cop ops (S d, push c, outs)) as [[d' c'] o'].
      destruct IH as (inner' & H1 & H2 & H3). exists inner'. auto.
    + destruct d as [|d0].
      * apply (IH O c outs base inner Hl Hs).
      * destruct inner as [|s inner]; [discriminate|].
        specialize (IH d0 (pop c) outs base inner).
        cbn [pop scopes] in IH. rewrite Hs in IH. cbn [app] in IH.
        specialize (IH ltac:(cbn in Hl; lia) eq_refl).
        destruct (fold_left run_cop ops (d0, pop c, outs)) as [[d' c'] o'].
        destruct IH as (inner' & H1 & H2 & H3). exists inner'. auto.
    + apply (IH d c (lookup c x :: outs) base inner Hl Hs).
Qed.

(** Variables and functions live in separate name spaces. *)
Lemma fun_var_independent c x v f d :
  get_function (define c x v) f = get_function c f /\
  lookup (add_function c f d) x = lookup c x /\
  get_function (push c) f = get_function c f.
Proof. repeat split. Qed.

(** After a comprehension the outer binding of its iteration variable (or its absence) is
    what it was: a later lookup in the same context is unaffected by the macro before it. *)
Lemma after_macro c m x :
  eval c (EList [m; EIdent x]) =
  match eval c m with
  | (Ok v, l) => (match lookup c x with
                  | Ok w => Ok (VList [v; w])
                  | Err e => Err e
                  | Crash s => Crash s
                  end, l)
  | (Err e, l) => (Err e, l)
  | (Crash s, l) => (Crash s, l)
  end.
Proof.
  rewrite eval_list. cbn [list_go]. destruct (eval c m) as [[v|e|s] l]; cbn [app]; try reflexivity.
  rewrite eval_ident. destruct (lookup c x); cbn; rewrite ?app_nil_r; reflexivity.
Qed.

(** Inside the body the iteration variable is the current element; every other name
    (except the hidden accumulator) resolves as in the enclosing context. *)
Lemma body_scope c acc x it : str_eqb x accu = false ->
  lookup (bind c acc x it) x = Ok it /\
  forall y, str_eqb y x = false -> str_eqb y accu = false -> lookup (bind c acc x it) y = lookup c y.
Proof.
  intros Hx. split; [apply lookup_bind_x|]. intros y Hy Ha. unfold bind.
  now rewrite !lookup_define, Hy, Ha, lookup_push.
Qed.
