(** C19, second half: completeness of the reported references. *)
From Coq Require Import String.
From Cel.Model Require Import Eval Refs Macros.
From Cel.Proofs Require Import EvalBase CtxEquiv RefsProofs.

(** ** Completeness: a program whose reported names are all defined never fails with an
    undeclared reference *)
Definition vdef (c : ctx) (x : str) : Prop := exists v, lookup c x = Ok v.
Definition fdefd (c : ctx) (f : str) : Prop := get_function c f <> None.
Definition covered (c : ctx) (e : expr) : Prop :=
  (forall x, In x (fv e) -> vdef c x) /\ (forall f, In f (ref_funs e) -> fdefd c f).

Lemma str_eqb_true a b : str_eqb a b = true -> a = b.
Proof.
  revert b; induction a as [|x a IH]; intros [|y b]; cbn; try discriminate; auto.
  rewrite Bool.andb_true_iff, N.eqb_eq. intros [-> H]. f_equal. auto.
Qed.

Lemma in_rm x y l : In x (rm y l) <-> In x l /\ str_eqb x y = false.
Proof. unfold rm. rewrite filter_In, Bool.negb_true_iff. tauto. Qed.

Lemma vdef_define c x v y : vdef c y -> vdef (define c x v) y.
Proof. intros [w H]. unfold vdef. rewrite lookup_define. destruct (str_eqb y x); eauto. Qed.
Lemma vdef_define_same c x v : vdef (define c x v) x.
Proof. exists v. apply lookup_scopes_define_same. Qed.
Lemma vdef_push c y : vdef c y -> vdef (push c) y.
Proof. intros [w H]. exists w. now rewrite lookup_push. Qed.

(** defining one more variable keeps a body covered once the bound name is removed *)
Lemma vdef_rm c x v l : (forall y, In y (rm x l) -> vdef c y) -> forall y, In y l -> vdef (define c x v) y.
Proof.
  intros H y Hy. destruct (str_eqb y x) eqn:E.
  - apply str_eqb_true in E. subst. apply vdef_define_same.
  - apply vdef_define. apply H. apply in_rm. auto.
Qed.

Lemma comp_loop_okish_inv (Ge : errclass -> Prop) (Inv : ctx -> Prop) iv av cond step res :
  (forall c, Inv c -> okish Ge (fst (eval c cond))) ->
  (forall c it, Inv c -> okish Ge (fst (eval (define c iv it) step))) ->
  (forall c, Inv c -> okish Ge (fst (eval c res))) ->
  (forall c it va, Inv c -> Inv (define (define c iv it) av va)) ->
  forall its c log, Inv c -> okish Ge (fst (comp_loop eval iv av cond step res its c log)).
Proof.
  intros Hc Hs Hr Hi. induction its as [|it rest IH]; intros c log HI; cbn [comp_loop].
  - specialize (Hr c HI). destruct (eval c res). exact Hr.
  - specialize (Hc c HI). destruct (eval c cond) as [[vc|x|s] lc]; cbn [fst] in *; [|exact Hc|exact I].
    destruct (to_bool vc).
    + specialize (Hs c it HI).
      destruct (eval (define c iv it) step) as [[va|x|s] ls]; cbn [fst] in *; [apply IH; now apply Hi|exact Hs|exact I].
    + specialize (Hr c HI). destruct (eval c res). exact Hr.
Qed.

Lemma in_go_fv (a : expr) args x : In a args -> In x (fv a) ->
  In x ((fix go (l : list expr) : list str := match l with [] => [] | a :: l' => fv a ++ go l' end) args).
Proof.
  induction args as [|b args IH]; [intros []|]. intros [->|Hin] Hx; apply in_or_app; [now left|right; now apply IH].
Qed.
Lemma in_go_funs (a : expr) args x : In a args -> In x (ref_funs a) ->
  In x ((fix go (l : list expr) : list str := match l with [] => [] | a :: l' => ref_funs a ++ go l' end) args).
Proof.
  induction args as [|b args IH]; [intros []|]. intros [->|Hin] Hx; apply in_or_app; [now left|right; now apply IH].
Qed.
Lemma in_go_fv_entries (k v : expr) es x : In (k, v) es -> In x (fv k) \/ In x (fv v) ->
  In x ((fix go (l : list (expr * expr)) : list str :=
           match l with [] => [] | (k, v) :: l' => fv k ++ fv v ++ go l' end) es).
Proof.
  induction es as [|[k2 v2] es IH]; [intros []|]. intros [[= -> ->]|Hin] Hx.
  - destruct Hx; apply in_or_app; [now left|right; apply in_or_app; now left].
  - apply in_or_app; right; apply in_or_app; right. now apply IH.
Qed.
Lemma in_go_funs_entries (k v : expr) es x : In (k, v) es -> In x (ref_funs k) \/ In x (ref_funs v) ->
  In x ((fix go (l : list (expr * expr)) : list str :=
           match l with [] => [] | (k, v) :: l' => ref_funs k ++ ref_funs v ++ go l' end) es).
Proof.
  induction es as [|[k2 v2] es IH]; [intros []|]. intros [[= -> ->]|Hin] Hx.
  - destruct Hx; apply in_or_app; [now left|right; apply in_or_app; now left].
  - apply in_or_app; right; apply in_or_app; right. now apply IH.
Qed.

Lemma plain_id x : plain x -> plain x.
Proof. auto. Qed.

Theorem refs_complete e : forall c, covered c e -> okish plain (fst (eval c e)).
Proof.
  induction e using expr_ind'; intros c [Hv Hf].
  - exact I.
  - exact I.
  - rewrite eval_ident. cbn [fst]. destruct (Hv x (or_introl eq_refl)) as [v ->]. exact I.
  - rewrite eval_call. unfold call_dispatch.
    assert (Hrs : Forall (fun r => okish plain (fst r)) (map (eval c) args)).
    { apply Forall_forall. intros r Hr. apply in_map_iff in Hr as (a & <- & Ha).
      rewrite Forall_forall in H0. apply (H0 a Ha c). split.
      - intros x Hx. apply Hv. cbn [fv]. apply in_or_app. right. now apply (in_go_fv a).
      - intros g Hg. apply Hf. cbn [ref_funs]. right. apply in_or_app. right. now apply (in_go_funs a). }
    assert (Ht : match option_map (eval c) target with Some r => okish plain (fst r) | None => True end).
    { destruct target as [t|]; cbn [option_map]; [|exact I]. apply (H t eq_refl c). split.
      - intros x Hx. apply Hv. cbn [fv]. apply in_or_app. now left.
      - intros g Hg. apply Hf. cbn [ref_funs]. right. apply in_or_app. now left. }
    assert (G : okish plain (fst (call_general c f (option_map (eval c) target) (map (eval c) args) args))).
    { unfold call_general. destruct (get_function c f) as [d|] eqn:Ed; [|exfalso; apply (Hf f (or_introl eq_refl)); exact Ed].
      destruct (option_map (eval c) target) as [[[tv|x|s] lt]|]; cbn [fst] in *;
        [now apply call_fn_okish|exact Ht|exact I|now apply call_fn_okish]. }
    fold (call_dispatch c f (option_map (eval c) target) (map (eval c) args) args).
    (* the operator branches cannot raise an undeclared reference either *)
    unfold call_dispatch.
    destruct (map (eval c) args) as [|r1 [|r2 [|r3 [|r4 rs']]]] eqn:Em; try exact G.
    + inversion Hrs as [|? ? H1 _]; subst.
      destruct (unop_of_name f); [|exact G]. apply rbind_okish; [exact H1|]. intros v. cbn. apply unop_plain.
    + inversion Hrs as [|? ? H1 Hr]; subst. inversion Hr as [|? ? H2 _]; subst.
      destruct (binop_of_name f) as [o|]; [|exact G].
      assert (S : forall o', okish plain (fst (rbind r1 (fun l => rbind r2 (fun r => ret (strict_binop o' l r)))))).
      { intros o'. apply rbind_okish; [exact H1|]. intros l. apply rbind_okish; [exact H2|].
        intros r. cbn. apply strict_binop_plain. }
      destruct o; try apply S.
      * apply rbind_okish; [exact H1|]. intros l. destruct (to_bool l); [exact I|exact H2].
      * apply rbind_okish; [exact H1|]. intros l. destruct (to_bool l); [|exact I].
        apply rbind_okish; [exact H2|]. intros r. exact I.
    + inversion Hrs as [|? ? H1 Hr]; subst. inversion Hr as [|? ? H2 Hr']; subst.
      inversion Hr' as [|? ? H3 _]; subst.
      destruct (str_eqb f op_conditional); [|exact G].
      apply rbind_okish; [exact H1|]. intros vc. destruct (to_bool vc); assumption.
  - rewrite eval_select. apply rbind_okish.
    + apply IHe. split; [exact Hv|exact Hf].
    + intros v. destruct t; [exact I|]. cbn [fst ret]. apply member_plain.
  - rewrite eval_list. apply list_go_okish. apply Forall_forall. intros a Ha.
    rewrite Forall_forall in H. apply (H a Ha c). split.
    + intros x Hx. apply Hv. cbn [fv]. now apply (in_go_fv a).
    + intros g Hg. apply Hf. cbn [ref_funs]. now apply (in_go_funs a).
  - rewrite eval_map. apply map_go_okish; [exact I|].
    apply Forall_forall. intros [k v] Hkv. rewrite Forall_forall in H. destruct (H (k, v) Hkv) as [Hk Hvv].
    cbn [fst snd] in *. split.
    + apply Hk. split; [intros x Hx; apply Hv; cbn [fv]; apply (in_go_fv_entries k v); auto
                        |intros g Hg; apply Hf; cbn [ref_funs]; apply (in_go_funs_entries k v); auto].
    + apply Hvv. split; [intros x Hx; apply Hv; cbn [fv]; apply (in_go_fv_entries k v); auto
                         |intros g Hg; apply Hf; cbn [ref_funs]; apply (in_go_funs_entries k v); auto].
  - exact I.
  - rewrite eval_comp. cbn [fv ref_funs] in Hv, Hf.
    assert (F1 : forall g, In g (ref_funs e1) -> fdefd c g) by (intros; apply Hf; rewrite !in_app_iff; tauto).
    assert (F2 : forall g, In g (ref_funs e2) -> fdefd c g) by (intros; apply Hf; rewrite !in_app_iff; tauto).
    assert (F3 : forall g, In g (ref_funs e3) -> fdefd c g) by (intros; apply Hf; rewrite !in_app_iff; tauto).
    assert (F4 : forall g, In g (ref_funs e4) -> fdefd c g) by (intros; apply Hf; rewrite !in_app_iff; tauto).
    assert (F5 : forall g, In g (ref_funs e5) -> fdefd c g) by (intros; apply Hf; rewrite !in_app_iff; tauto).
    assert (V1 : forall x, In x (fv e1) -> vdef c x) by (intros; apply Hv; rewrite !in_app_iff; tauto).
    assert (V2 : forall x, In x (fv e2) -> vdef c x) by (intros; apply Hv; rewrite !in_app_iff; tauto).
    assert (V3 : forall x, In x (rm av (fv e3)) -> vdef c x) by (intros; apply Hv; rewrite !in_app_iff; tauto).
    assert (V4 : forall x, In x (rm iv (rm av (fv e4))) -> vdef c x) by (intros; apply Hv; rewrite !in_app_iff; tauto).
    assert (V5 : forall x, In x (rm av (fv e5)) -> vdef c x) by (intros; apply Hv; rewrite !in_app_iff; tauto).
    apply rbind_okish; [apply IHe2; now split|]. intros vi.
    apply rbind_okish; [apply IHe1; now split|]. intros vr.
    destruct (range_items vr) as [items|]; [|exact I].
    set (Inv := fun c' : ctx => funs c' = funs c /\ vdef c' av /\ forall x, vdef c x -> vdef c' x).
    apply (comp_loop_okish_inv plain Inv).
    + intros c' (If & Ia & Iv). apply IHe3. split.
      * intros x Hx. destruct (str_eqb x av) eqn:E; [apply str_eqb_true in E; now subst|].
        apply Iv, V3, in_rm. auto.
      * intros g Hg. unfold fdefd, get_function. rewrite If. now apply F3.
    + intros c' it (If & Ia & Iv). apply IHe4. split.
      * intros x Hx. destruct (str_eqb x iv) eqn:E1; [apply str_eqb_true in E1; subst; apply vdef_define_same|].
        apply vdef_define. destruct (str_eqb x av) eqn:E2; [apply str_eqb_true in E2; now subst|].
        apply Iv, V4, in_rm. split; [apply in_rm; auto|exact E1].
      * intros g Hg. unfold fdefd, get_function. cbn [define funs]. rewrite If. now apply F4.
    + intros c' (If & Ia & Iv). apply IHe5. split.
      * intros x Hx. destruct (str_eqb x av) eqn:E; [apply str_eqb_true in E; now subst|].
        apply Iv, V5, in_rm. auto.
      * intros g Hg. unfold fdefd, get_function. rewrite If. now apply F5.
    + intros c' it va (If & Ia & Iv). repeat split.
      * exact If.
      * apply vdef_define_same.
      * intros x Hx. now apply vdef_define, vdef_define, Iv.
    + repeat split.
      * apply vdef_define_same.
      * intros x Hx. now apply vdef_define, vdef_push.
Qed.

(** In terms of the reported names: for a program without free macro-internal identifiers
    (every program the parser produces: [@result] only occurs under the comprehension that
    binds it - see [expansions_closed] and the C19 stream, which checks it on every compiled
    program). *)

Lemma fv_reported e : forall x, In x (fv e) -> starts_at x = false -> In x (ref_vars e).
Proof.
  induction e using expr_ind'; intros y Hy Hs; cbn [fv] in Hy; cbn [ref_vars]; try (destruct Hy; fail).
  - destruct Hy as [<-|[]]. rewrite Hs. now left.
  - rewrite in_app_iff in *. destruct Hy as [Hy|Hy].
    + left. destruct target as [t|]; [now apply (H t eq_refl)|destruct Hy].
    + right. clear H. induction args as [|a args IHa]; [destruct Hy|]. rewrite in_app_iff in *.
      inversion H0 as [|? ? P1 P2]; subst. destruct Hy as [Hy|Hy]; [left; now apply P1|right; now apply IHa].
  - now apply IHe.
  - induction es as [|a es IHes]; [destruct Hy|]. rewrite in_app_iff in *.
    inversion H as [|? ? P1 P2]; subst. destruct Hy as [Hy|Hy]; [left; now apply P1|right; now apply IHes].
  - induction es as [|[k v] es IHes]; [destruct Hy|]. rewrite !in_app_iff in *.
    inversion H as [|? ? [P1 P1'] P2]; subst. cbn [fst snd] in *.
    destruct Hy as [Hy|[Hy|Hy]]; [left; now apply P1|right; left; now apply P1'|right; right; now apply IHes].
  - rewrite !in_app_iff in *. rewrite !in_rm in Hy.
    destruct Hy as [Hy|[Hy|[[Hy _]|[[[Hy _] _]|[Hy _]]]]]; auto 10.
Qed.

Theorem refs_complete_reported e c : no_free_at e = true ->
  (forall x, In x (ref_vars e) -> exists v, lookup c x = Ok v) ->
  (forall f, In f (ref_funs e) -> get_function c f <> None) ->
  forall n, fst (eval c e) <> Err (EUndeclared n).
Proof.
  intros Hc Hv Hf n Hn. unfold no_free_at in Hc. rewrite forallb_forall in Hc.
  assert (Hcov : covered c e).
  { split; [|exact Hf]. intros x Hx. apply Hv, fv_reported; [exact Hx|].
    specialize (Hc x Hx). now apply Bool.negb_true_iff in Hc. }
  pose proof (refs_complete e c Hcov) as Ho. rewrite Hn in Ho. exact Ho.
Qed.

(** The macro expansions bind the accumulator they introduce. *)
Lemma no_free_at_app a b :
  forallb (fun x => negb (starts_at x)) (a ++ b) =
  forallb (fun x => negb (starts_at x)) a && forallb (fun x => negb (starts_at x)) b.
Proof. apply forallb_app. Qed.

Lemma rm_clean x l : forallb (fun y => negb (starts_at y)) l = true ->
  forallb (fun y => negb (starts_at y)) (rm x l) = true.
Proof.
  intros H. rewrite forallb_forall in *. intros y Hy. apply in_rm in Hy as [Hy _]. auto.
Qed.

Lemma rm_accu_self l : forallb (fun y => negb (starts_at y)) l = true ->
  forallb (fun y => negb (starts_at y)) (rm accu (accu :: l)) = true.
Proof.
  intros H. unfold rm. cbn [filter]. replace (str_eqb accu accu) with true by reflexivity. cbn [negb].
  now apply rm_clean.
Qed.

Lemma rm_accu_gen l : forallb (fun y => negb (starts_at y) || str_eqb y accu) l = true ->
  forallb (fun y => negb (starts_at y)) (rm accu l) = true.
Proof.
  intros H. rewrite forallb_forall in *. intros y Hy. apply in_rm in Hy as [Hy E].
  specialize (H y Hy). rewrite E, Bool.orb_false_r in H. exact H.
Qed.
Lemma clean_weak l : forallb (fun y => negb (starts_at y)) l = true ->
  forallb (fun y => negb (starts_at y) || str_eqb y accu) l = true.
Proof.
  intros H. rewrite forallb_forall in *. intros y Hy. now rewrite (H y Hy).
Qed.

Theorem expansions_closed r x p q : no_free_at r = true -> no_free_at p = true -> no_free_at q = true ->
  starts_at x = false ->
  no_free_at (expand_all r x p) = true /\ no_free_at (expand_exists r x p) = true /\
  no_free_at (expand_exists_one r x p) = true /\ no_free_at (expand_map r x None p) = true /\
  no_free_at (expand_map r x (Some q) p) = true /\ no_free_at (expand_filter r x p) = true.
Proof.
  unfold no_free_at. intros Hr Hp Hq Hx.
  assert (A : forall l, forallb (fun y => negb (starts_at y)) l = true ->
                        forallb (fun y => negb (starts_at y)) (rm x (rm accu l)) = true)
    by (intros; now apply rm_clean, rm_clean).
  assert (B : forall l, forallb (fun y => negb (starts_at y)) l = true ->
                        forallb (fun y => negb (starts_at y)) (rm x (rm accu (accu :: l))) = true)
    by (intros; now apply rm_clean, rm_accu_self).
  assert (C : forallb (fun y => negb (starts_at y)) (rm accu [accu]) = true) by reflexivity.
  assert (Xok : forallb (fun y => negb (starts_at y)) [x] = true) by (cbn; now rewrite Hx).
  repeat split; cbn [fv expand_all expand_exists expand_exists_one expand_map expand_filter call e_accu app];
    rewrite ?app_nil_r; rewrite ?no_free_at_app, ?Hr; cbn [andb forallb];
    repeat (apply andb_true_intro; split); try reflexivity; try apply C.
  all: try (apply B; assumption).
  all: try (apply rm_clean, (rm_accu_self []); reflexivity).
  all: apply rm_clean, rm_accu_gen; rewrite ?forallb_app; cbn [forallb]; rewrite ?forallb_app; cbn [forallb];
    rewrite ?(clean_weak _ Hp), ?(clean_weak _ Hq), ?Hx; reflexivity.
Qed.
